"""C20: Service._provider_execute - failover between providers, nothing fabricated.

Providers are a nondeterministic oracle: provider number i (in priority order) either is skipped (no url), answers with a
value v_i, answers False (empty), raises AttributeError (method not supported), or raises another exception.  k <= 4
providers are enumerated (the property's own quantifier); all outcomes and values are symbolic."""
import types
import z3

from pyvc.api import contract, Int, Bool, Const, RecordOf, FixedList, INSTALLERS
from pyvc.values import Sym, SInt, SBool
from pyvc.ctx import PyRaise, Unsupported
from pyvc.ops import int_term
import bitcoinlib.services as services_pkg
from bitcoinlib.services.services import Service, ServiceError
from bitcoinlib.networks import Network

OK, EMPTY, UNSUPPORTED, ERROR, SKIP = 0, 1, 2, 3, 4


class ProviderFailure(Exception):
    def __init__(self, msg='provider failed'):
        self.msg = msg


class StubClient:
    """native stand-in for a provider client class: behaves as told by the plan installed in verif_stub.PLAN"""
    def __init__(self, *args):
        self.idx = int(args[1])            # the 'url' slot carries the provider number

    def __getattr__(self, name):
        if name.startswith('__') or name == 'idx':
            raise AttributeError(name)
        outcome, value = verif_stub.PLAN[self.idx]
        if outcome == UNSUPPORTED:
            raise AttributeError(name)

        def method(*a):
            verif_stub.CALLS.append(self.idx)
            if outcome == OK:
                return value
            if outcome == EMPTY:
                return False
            raise ProviderFailure('provider %d failed' % self.idx)
        return method


verif_stub = types.ModuleType('verif_stub')
verif_stub.StubClient = StubClient
verif_stub.PLAN = {}
verif_stub.CALLS = []
services_pkg.verif_stub = verif_stub          # _provider_execute looks provider modules up as attributes of bitcoinlib.services


class SymProvider(Sym):
    pytype = StubClient

    def __init__(self, idx):
        self.idx = idx


def _m_stub_ctor(ip, args, kwargs):
    return SymProvider(int(args[1]))


def _provider_attr(ip, obj, name):
    plan = ip.ctx.ghost['plan']
    outcome, value = plan[obj.idx]
    t = int_term(outcome)
    if ip.ctx.branch(t == UNSUPPORTED):
        raise PyRaise(AttributeError(name), implicit=False)
    return ('provider-method', obj.idx, name)


def _m_hasattr(ip, args, kwargs):
    if isinstance(args[0], SymProvider):
        plan = ip.ctx.ghost['plan']
        return not ip.ctx.branch(int_term(plan[args[0].idx][0]) == UNSUPPORTED)
    return NotImplemented


class ProviderMethod(Sym):
    pytype = object

    def __init__(self, idx):
        self.idx = idx


def _install(reg):
    import random
    from pyvc import models
    reg.models[StubClient] = _m_stub_ctor
    reg.sym_attrs[SymProvider] = lambda ip, obj, name: _sym_provider_attr(ip, obj, name)
    reg.sym_calls[ProviderMethod] = _call_provider
    reg.models[random.random] = lambda ip, a, k: 0.5          # tie-break among equal priorities: not modelled (priorities are distinct)
    old_hasattr = reg.models[hasattr]

    def m_hasattr(ip, args, kwargs):
        if isinstance(args[0], SymProvider):
            plan = ip.ctx.ghost['plan']
            return not ip.ctx.branch(int_term(plan[args[0].idx][0]) == UNSUPPORTED)
        return old_hasattr(ip, args, kwargs)
    reg.models[hasattr] = m_hasattr


def _sym_provider_attr(ip, obj, name):
    plan = ip.ctx.ghost['plan']
    if ip.ctx.branch(int_term(plan[obj.idx][0]) == UNSUPPORTED):
        raise PyRaise(AttributeError(name), implicit=False)
    return ProviderMethod(obj.idx)


def _call_provider(ip, pm, args, kwargs):
    plan = ip.ctx.ghost['plan']
    outcome, value = plan[pm.idx]
    t = int_term(outcome)
    ip.ctx.ghost.setdefault('calls', []).append(pm.idx)
    if ip.ctx.branch(t == OK):
        return value
    if ip.ctx.branch(t == EMPTY):
        return False
    raise PyRaise(ProviderFailure('provider %d failed' % pm.idx), implicit=False)


INSTALLERS.append(_install)
_NET = Network('bitcoin')


def _providers(k):
    return {'p%d' % i: {'provider': 'verif_stub', 'client_class': 'StubClient', 'url': str(i), 'denominator': 1, 'api_key': '',
                        'provider_coin_id': '', 'network_overrides': None, 'priority': 100 - i} for i in range(k)}


def first_ok(outcomes, max_errors):
    """index of the provider whose answer must be returned: the first OK provider in priority order, provided fewer than
    max_errors providers failed (raised or answered empty) before it; None if there is none"""
    errs = 0
    i = 0
    for o in outcomes:
        if o == OK:
            return i
        if o == ERROR or o == EMPTY:
            errs += 1
            if errs >= max_errors and o == ERROR:
                return None
        i += 1
    return None


def _case(k, max_providers):
    name = 'k%d-max%d' % (k, max_providers)
    T = RecordOf(Service, providers=Const(_providers(k)), max_providers=Const(max_providers), max_errors=Int(1, 5), ignore_priority=Const(False),
                 network=Const(_NET), timeout=Const(5), _blockcount=Const(1), strict=Const(True), wallet_name=Const(None),
                 results=Const(None), errors=Const(None), complete=Const(None), resultcount=Const(0), execution_time=Const(None))
    params = {'self': T}
    for i in range(k):
        params['o%d' % i] = Int(0, 3)
        params['v%d' % i] = Int(1, 10 ** 12)

    def plan_of(env):
        return {i: (env['o%d' % i], env['v%d' % i]) for i in range(k)}

    def init(**env):
        # symbolic run: hand the plan to the provider models; a skipped provider has no url
        from pyvc.api import current_ctx
        if current_ctx() is not None:
            current_ctx().ghost['plan'] = plan_of(env)

    def ensures(**env):
        result = env['result']
        outs = [env['o%d' % i] for i in range(k)]
        j = first_ok(outs, env['self'].max_errors)
        if result is False:
            return j is None                 # "no answer": only when no provider may answer
        if j is None:
            # error limit reached before the first answer: failing is required unless a real later answer is returned
            return any(outs[i] == OK and result == env['v%d' % i] for i in range(k))
        return result == env['v%d' % j]

    def may_raise(**env):
        outs = [env['o%d' % i] for i in range(k)]
        return first_ok(outs, env['self'].max_errors) is None

    def prepare(**env):
        verif_stub.PLAN = {i: (env['o%d' % i], env['v%d' % i]) for i in range(k)}
        verif_stub.CALLS = []
        f = env['self'].fields
        s = Service.__new__(Service)
        s.__dict__.update(f)
        s.providers = {p: dict(d, url=(d['url'] if verif_stub.PLAN[int(d['url'])][0] != SKIP else '')) for p, d in _providers(k).items()}
        s.network = Network('bitcoin')
        return {'self': s}

    d = {'params': params, 'kwargs': {'method': 'getbalance', 'arguments': ()}, 'init': init, 'ensures': ensures, 'raises': {ServiceError: may_raise},
         'prepare': prepare, '__doc__': '_provider_execute over %d providers, max_providers=%d: returns the answer of the first answering provider; '
                                       'fails (ServiceError / False) only when none may answer; never returns anything no provider returned' % (k, max_providers)}
    return contract('bitcoinlib.services.services.Service._provider_execute', case=name, props=('C20',))(type(name.replace('-', '_'), (), d))


CASES = [_case(k, mp)._contract.key for k in (1, 2, 3, 4) for mp in (1, 2)]


# ---------------------------------------------------------------------------------------------------
# wrappers: what they do with the answer of _provider_execute (abstracted: answer v / no answer (False) / ServiceError)

class _CacheMiss:
    """cache that never has anything (the cache round trip is SQL and not covered)"""
    def getaddress(self, address):
        return None

    def store_address(self, *a, **k):
        return None


ANSWER, NOANSWER, FAIL = 0, 1, 2


def _m_provider_execute(ip, args, kwargs):
    g = ip.ctx.ghost
    if 'pe_outcome' not in g:
        return NotImplemented
    t = int_term(g['pe_outcome'])
    g['pe_calls'] = g.get('pe_calls', 0) + 1
    if ip.ctx.branch(t == ANSWER):
        return g['pe_value']
    if ip.ctx.branch(t == NOANSWER):
        return False
    raise PyRaise(ServiceError('No successful response from any serviceprovider'), implicit=False)


@contract('bitcoinlib.services.services.Service.getbalance', case='one-address-cache-miss', props=('C20',))
class getbalance_one:
    """getbalance for one address: the balance is exactly what the provider layer answered; when the provider layer has no
    answer the call must fail - it must not return a number nobody reported."""
    params = {'self': RecordOf(Service, cache=Const(_CacheMiss()), network=Const(_NET)), 'outcome': Int(0, 2), 'value': Int(0, 21 * 10 ** 14)}
    kwargs = {'addresslist': ['1KoAvaL3wfFcNXYbGfA2ZtTQKMAwfYiUcM']}

    def init(self, outcome, value):
        from pyvc.api import current_ctx
        c = current_ctx()
        if c is not None:
            c.ghost['pe_outcome'] = outcome
            c.ghost['pe_value'] = value

    raises = {ServiceError: lambda outcome: outcome != ANSWER}

    def ensures(outcome, value, result):
        return outcome == ANSWER and result == value

    pins = {'F-C20-getbalance-abort': lambda outcome, value, result: outcome == NOANSWER and result == 0}

    def prepare(self, outcome, value):
        s = Service.__new__(Service)
        s.cache = _CacheMiss()
        s.network = Network('bitcoin')

        def pe(method, *a):
            if outcome == ANSWER:
                return value
            if outcome == NOANSWER:
                return False
            raise ServiceError('none')
        s._provider_execute = pe
        return {'self': s}


_old_install = _install


def _install2(reg):
    def m(ip, args, kwargs):
        r = _m_provider_execute(ip, args, kwargs)
        if r is NotImplemented:
            return ip.call_pyfunc_body(Service._provider_execute, args, kwargs)
        return r
    reg.models[Service._provider_execute] = m


INSTALLERS.append(_install2)
