"""C10: the multisig redeem script built from n cosigner keys and threshold m (Script template instantiation + serialisation),
and - shared with C02 - the m-of-n verification loop."""
import z3
from pyvc.api import contract, Int, Bytes, Const, RecordOf, FixedList
from bitcoinlib.scripts import Script
from bitcoinlib.keys import Key
from spec import script as sp


def _case(n):
    name = 'multisig-%dkeys' % n
    KeyT = RecordOf(Key, public_byte=Bytes(33), compressed=Const(True), is_private=Const(False))

    def ensures(self, keys, sigs_required, result):
        s = self if result is None else result
        return s.serialize() == sp.multisig_redeem(sigs_required, [k.public_byte for k in keys])

    def build(self, keys, sigs_required):
        ks = [Key(k.fields['public_byte']) for k in keys]
        return (lambda: Script(script_types=['multisig'], keys=ks, sigs_required=sigs_required)), [], {}

    def requires(self, keys, sigs_required):
        return sigs_required <= n and all(k.public_byte[0] == 2 or k.public_byte[0] == 3 for k in keys)

    d = {'params': {'self': RecordOf(Script), 'keys': FixedList(KeyT, n), 'sigs_required': Int(1, 15)}, 'kwargs': {'script_types': ['multisig']},
         'requires': requires, 'ensures': ensures, 'build': build, 'native_skip': True,
         '__doc__': 'Script(script_types=[multisig], %d keys, sigs_required=m).serialize() is OP_m <key>... OP_%d OP_CHECKMULTISIG for every m <= n and all keys' % (n, n)}
    return contract('bitcoinlib.scripts.Script.__init__', case=name, props=('C10', 'C01'))(type(name.replace('-', '_'), (), d))


CASES_QUICK = [_case(n)._contract.key for n in (1, 2, 3, 4, 5)]
CASES_THOROUGH = [_case(n)._contract.key for n in range(6, 16)]
