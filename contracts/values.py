"""C17: amount text -> integer number of smallest units, with the IEEE-754 model of pyvc/floats.py."""
from fractions import Fraction
from pyvc.api import contract, Int, Const
from contracts.external import amount_text
from bitcoinlib.config.config import NETWORK_DENOMINATORS
from bitcoinlib.values import value_to_satoshi

MAX_UNITS = 21 * 10 ** 14
SAFE = 2 ** 50
# units for which the float model cannot close the range above 2^50 and no failing amount is known: proved up to 2^50 only,
# native evaluation above
UNPROVED_ABOVE_SAFE = ('h',)


def _case(den, symb, currency='BTC', tag=''):
    """amount of N smallest units (1e-8 coin), written exactly in the unit `symb` (= den coins)"""
    fden = Fraction(str(den)) if not isinstance(den, int) else Fraction(den)      # the unit as the table *means* it (decimal)
    scale = fden * 10 ** 8                     # smallest units per unit
    # text value = N / scale, written with k decimals:  num / 10^k  with num = N * 10^k / scale
    if scale >= 1:
        k = len(str(int(scale))) - 1
        mult = Fraction(10 ** k) / scale
    else:
        k = 0
        mult = 1 / scale
    assert mult.denominator == 1, (den, symb, scale, k, mult)
    mult = int(mult)
    name = (symb or 'coin') + tag

    def call(n):
        return {'value': amount_text(n * mult, k, symb + currency)}

    def result_is(n):
        return n

    def pin(n, result):
        return (result == n or result == n - 1 or result == n + 1) and (n > SAFE or result == n)

    def requires(n):
        return n <= limit

    limit = MAX_UNITS if symb not in UNPROVED_ABOVE_SAFE else SAFE
    d = {'params': {'n': Int(0, MAX_UNITS)}, 'call': call, 'result_is': result_is, 'pins': {'F-C17-float-' + (symb or 'coin'): pin}, 'requires': requires,
         '__doc__': "value_to_satoshi('<exact decimal> %s%s') is exactly the number of smallest units, for every amount 0..21e14" % (symb, currency)}
    return contract('bitcoinlib.values.value_to_satoshi', case='unit-' + name, props=('C17',))(type('unit_' + name.replace('µ', 'u').replace('-', '_'), (), d))


CASES = []
for _den, _symb in NETWORK_DENOMINATORS.items():
    if _den <= 1000000:          # larger units cannot express amounts below the supply limit with more than a few values
        CASES.append(_case(_den, _symb)._contract.key)

# every network's own currency code, whole coins and the smallest unit
from bitcoinlib.networks import NETWORK_DEFINITIONS
CURRENCY_CASES = []
for _n, _d in sorted(NETWORK_DEFINITIONS.items()):
    _cur = _d['currency_code']
    if _cur == 'BTC':
        continue
    CURRENCY_CASES.append(_case(1, '', _cur, '-' + _n)._contract.key)
    CURRENCY_CASES.append(_case(0.00000001, 'sat', _cur, '-' + _n)._contract.key)


@contract('bitcoinlib.values.value_to_satoshi', case='unit-h-above-2^50-native', props=('C17',))
class unit_h_native:
    """hBTC amounts above 2^50 units: native evaluation only (the float model is too coarse there and no failing amount is known)"""
    params = {'n': Int(SAFE, MAX_UNITS)}
    native_only = True
    bounded = 'random amounts in [2^50, 21e14]'

    def call(n):
        return {'value': amount_text(n, 10, 'hBTC')}

    def result_is(n):
        return n
