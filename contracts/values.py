"""C17: amount text -> integer number of smallest units, with the IEEE-754 model of pyvc/floats.py."""
from fractions import Fraction
from pyvc.api import contract, Int, Const
from contracts.external import amount_text
from bitcoinlib.config.config import NETWORK_DENOMINATORS
from bitcoinlib.values import value_to_satoshi

MAX_UNITS = 21 * 10 ** 14
SAFE = 2 ** 50
# units for which the float model cannot close the range above 2^50 and no failing amount is known: proved up to 2^50 only,
# native evaluation above
UNPROVED_ABOVE_SAFE = ('h',)


def _case(den, symb, currency='BTC', tag=''):
    """amount of N smallest units (1e-8 coin), written exactly in the unit `symb` (= den coins)"""
    fden = Fraction(str(den)) if not isinstance(den, int) else Fraction(den)      # the unit as the table *means* it (decimal)
    scale = fden * 10 ** 8                     # smallest units per unit
    # text value = N / scale, written with k decimals:  num / 10^k  with num = N * 10^k / scale
    if scale >= 1:
        k = len(str(int(scale))) - 1
        mult = Fraction(10 ** k) / scale
    else:
        k = 0
        mult = 1 / scale
    assert mult.denominator == 1, (den, symb, scale, k, mult)
    mult = int(mult)
    name = (symb or 'coin') + tag

    def call(n):
        return {'value': amount_text(n * mult, k, symb + currency)}

    def result_is(n):
        return n

    def pin(n, result):
        return (result == n or result == n - 1 or result == n + 1) and (n > SAFE or result == n)

    def requires(n):
        return n <= limit

    limit = MAX_UNITS if symb not in UNPROVED_ABOVE_SAFE else SAFE
    d = {'params': {'n': Int(0, MAX_UNITS)}, 'call': call, 'result_is': result_is, 'pins': {'F-C17-float-' + (symb or 'coin'): pin}, 'requires': requires,
         '__doc__': "value_to_satoshi('<exact decimal> %s%s') is exactly the number of smallest units, for every amount 0..21e14" % (symb, currency)}
    return contract('bitcoinlib.values.value_to_satoshi', case='unit-' + name, props=('C17',))(type('unit_' + name.replace('µ', 'u').replace('-', '_'), (), d))


CASES = []
for _den, _symb in NETWORK_DENOMINATORS.items():
    if _den <= 1000000:          # larger units cannot express amounts below the supply limit with more than a few values
        CASES.append(_case(_den, _symb)._contract.key)

# every network's own currency code, whole coins and the smallest unit
from bitcoinlib.networks import NETWORK_DEFINITIONS
CURRENCY_CASES = []
for _n, _d in sorted(NETWORK_DEFINITIONS.items()):
    _cur = _d['currency_code']
    if _cur == 'BTC':
        continue
    CURRENCY_CASES.append(_case(1, '', _cur, '-' + _n)._contract.key)
    CURRENCY_CASES.append(_case(0.00000001, 'sat', _cur, '-' + _n)._contract.key)


@contract('bitcoinlib.values.value_to_satoshi', case='unit-h-above-2^50-native', props=('C17',))
class unit_h_native:
    """hBTC amounts above 2^50 units: native evaluation only (the float model is too coarse there and no failing amount is known)"""
    params = {'n': Int(SAFE, MAX_UNITS)}
    native_only = True
    bounded = 'random amounts in [2^50, 21e14]'

    def call(n):
        return {'value': amount_text(n, 10, 'hBTC')}

    def result_is(n):
        return n


# --- byte / hex forms of an amount -------------------------------------------------------------------------------------------------
from pyvc.api import RecordOf, Bytes
from bitcoinlib.values import Value


def _value_sat_model(reg):
    """Value.value_sat (float division and rounding, covered by the value_to_satoshi contracts) is taken as the abstract integer `ghost_sat` of the object"""
    from pyvc.values import Rec
    fget = Value.value_sat.fget

    def m(ip, args, kwargs):
        v = args[0]
        if isinstance(v, Rec) and 'ghost_sat' in v.attrs:
            return v.attrs['ghost_sat']
        return ip.call_pyfunc_body(fget, args, kwargs)
    reg.models[fget] = m


def _bytes_case(fn_name, byteorder, length):
    is_hex = fn_name == 'to_hex'
    nbytes = (length // 2) if is_hex else length

    def requires(self):
        return self.ghost_sat < 256 ** nbytes

    def result_is(self):
        raw = int.to_bytes(self.ghost_sat, nbytes, byteorder)
        return raw.hex() if is_hex else raw

    d = {'params': {'self': RecordOf(Value, ghost_sat=Int(0, MAX_UNITS))}, 'kwargs': {'length': length, 'byteorder': byteorder},
         'requires': requires, 'result_is': result_is, 'local_models': _value_sat_model, 'native_skip': True,
         '__doc__': 'Value.%s(%d, %r): the %s-endian bytes%s of the integer number of smallest units, in the byte order ASKED for '
                    '(value_sat abstract)' % (fn_name, length, byteorder, byteorder, ' as hexadecimal text' if is_hex else '')}
    return contract('bitcoinlib.values.Value.' + fn_name, case='%s-%d' % (byteorder, length), props=('C17',))(type('value_%s_%s_%d' % (fn_name, byteorder, length), (), d))


BYTES_CASES = [_bytes_case(f, b, ln)._contract.key for f, lens in (('to_bytes', (8, 7)), ('to_hex', (16, 14))) for b in ('little', 'big') for ln in lens]


@contract('bitcoinlib.values.Value.to_hex', case='native', props=('C17',))
class value_hex_native:
    """native: the hexadecimal and byte forms of real Value objects read back (int.from_bytes) to the amount that was put in, both byte orders"""
    params = {'n': Int(0, MAX_UNITS), 'length': Int(8, 16), 'order': Int(0, 1)}
    native_only = True
    bounded = 'random amounts, lengths 8..16 bytes, both byte orders'

    def build(n, length, order):
        bo = ('little', 'big')[order]
        v = Value.from_satoshi(n)
        return (lambda: (v.to_hex(2 * length, bo), v.to_bytes(length, bo), bo)), [], {}

    def ensures(n, length, order, result):
        hx, raw, bo = result
        return len(raw) == length and int.from_bytes(raw, bo) == n and bytes.fromhex(hx) == raw
