"""C16: public views of keys carry no private material.  Symbolically: every symbol that stands for private data is named
SECRET!...; a public view may only contain such a symbol below a declassifier (the public point k*G, an ECDSA signature).
The object state "after any earlier method calls" is covered by running the state-filling method (wif()) in the contract's
init, and natively by warm-up calls of arbitrary methods."""
import z3
from pyvc.api import contract, Int, Bytes, Bool, Str, RecordOf, Const, Secret, INSTALLERS
from pyvc import secrecy as _sec
from pyvc.values import SBool
from bitcoinlib.keys import Key, HDKey
from bitcoinlib.networks import Network
from spec import bip32, ec, secrecy

N = ec.N
_NET = Network('bitcoin')


def _m_no_secret_terms(ip, args, kwargs):
    from pyvc.verify import _terms_of
    leaked = _sec.secret_symbols_outside_declassifiers(list(_terms_of(args[0])))
    ip.ctx.ghost['leaked_symbols'] = sorted(leaked)
    return not leaked


def _install(reg):
    reg.models[secrecy.no_secret_terms] = _m_no_secret_terms
    for name, (fn, model) in getattr(reg, 'helper_models', {}).items():
        reg.models[fn] = model


INSTALLERS.append(_install)


def _key_fields(compressed, hd):
    f = dict(secret=Secret(Int(1, N - 1)), compressed=Const(compressed), is_private=Const(True), network=Const(_NET), key_format=Const('bin'),
             private_byte=Const(None), private_hex=Const(None), public_byte=Const(None), public_hex=Const(None),
             public_compressed_byte=Const(None), public_compressed_hex=Const(None), _public_uncompressed_byte=Const(None),
             _public_uncompressed_hex=Const(None), _x=Const(None), _y=Const(None), x_hex=Const(None), y_hex=Const(None), x_bytes=Const(None),
             y_bytes=Const(None), _hash160=Const(None), _wif=Const(None), _wif_prefix=Const(None), _address_obj=Const(None))
    if hd:
        f.update(chain=Bytes(32), depth=Int(0, 254), parent_fingerprint=Bytes(4), child_index=Int(0, 2 ** 32 - 1), key_type=Const('bip32'),
                 witness_type=Const('segwit'), multisig=Const(False), encoding=Const('bech32'), script_type=Const('p2wpkh'), key_hex=Const(None))
    return f


def _init_key(self):
    """representation invariant of a private key object: all byte / hex forms derive from the one secret"""
    x, y = ec.mul_g(self.secret)
    self._x = x
    self._y = y
    self.private_byte = bip32.ser256(self.secret)
    self.private_hex = self.private_byte.hex()
    self.x_bytes = bip32.ser256(x)
    self.y_bytes = bip32.ser256(y)
    self.x_hex = self.x_bytes.hex()
    self.y_hex = self.y_bytes.hex()
    self.public_compressed_byte = bip32.ser_p((x, y))
    self.public_compressed_hex = self.public_compressed_byte.hex()
    self._public_uncompressed_byte = b'\x04' + self.x_bytes + self.y_bytes
    self._public_uncompressed_hex = self._public_uncompressed_byte.hex()
    self.public_byte = self.public_compressed_byte if self.compressed else self._public_uncompressed_byte
    self.public_hex = self.public_byte.hex()
    if hasattr(self, 'key_hex'):
        self.key_hex = self.private_hex


def _real(self, cls):
    f = self.fields
    if cls is HDKey:
        k = HDKey(key=f['secret'].to_bytes(32, 'big'), chain=f['chain'], depth=f['depth'], parent_fingerprint=f['parent_fingerprint'],
                  child_index=f['child_index'], network='bitcoin', compressed=f['compressed'])
    else:
        k = Key(f['secret'], compressed=f['compressed'])
    return k


def _warm(k, rng):
    """native: fill whatever caches earlier calls may have filled"""
    done = []
    for name in rng.sample(['wif', 'address', 'hash160', 'as_dict_private', 'public_uncompressed_hex', 'wif_key', 'wif_private', 'info_private'], rng.randint(0, 4)):
        try:
            if name == 'as_dict_private':
                k.as_dict(include_private=True)
            elif name == 'hash160' or name == 'public_uncompressed_hex':
                getattr(k, name)
            elif name == 'info_private':
                continue
            else:
                getattr(k, name)()
            done.append(name)
        except Exception:
            pass
    return 'earlier calls: %s' % done


def _public_contract(cls, compressed, after_wif, any_history=False):
    hd = cls is HDKey
    name = '%s-%s' % ('compressed' if compressed else 'uncompressed', 'any-history-native' if any_history else ('after-wif' if after_wif else 'fresh'))
    T = RecordOf(cls, **_key_fields(compressed, hd))

    def init(self):
        if not isinstance(self, Key):
            _init_key(self)            # (symbolic record; a real object already satisfies the representation invariant)
        if after_wif:
            Key.wif(self)              # an earlier export of the private WIF (fills the _wif cache)

    def ensures(self, result, ghost):
        if ghost is None:
            return not secrecy.contains_secret(result, self.secret if not hasattr(self, 'fields') else self.fields['secret'])
        return secrecy.no_secret_terms(result)

    d = {'params': {'self': T}, 'init': init, 'init_after_prepare': True, 'ensures': ensures, 'prepare': lambda self: {'self': _real(self, cls)},
         'perturb': (lambda env, rng: _warm(env['self'], rng)) if any_history else None, 'native_only': any_history,
         'bounded': 'random earlier method calls on the same object (wif, address, hash160, as_dict(private), ...)' if any_history else None,
         '__doc__': '%s.public() of a %s private key%s: no attribute of the returned object holds private material'
                    % (cls.__name__, 'compressed' if compressed else 'uncompressed', ' whose WIF was exported before' if after_wif else '')}
    return contract('bitcoinlib.keys.%s.public' % cls.__name__, case=name, props=('C16',))(type(name, (), d))


def _wif_public_contract(compressed, is_private_arg):
    name = 'public-export-%s-%r' % ('compressed' if compressed else 'uncompressed', is_private_arg)
    T = RecordOf(HDKey, **_key_fields(compressed, True))

    def ensures(self, result, ghost):
        if ghost is None:
            sec = self.secret if not hasattr(self, 'fields') else self.fields['secret']
            import bitcoinlib.encoding as enc
            raw = enc.change_base(result, 58, 256)
            return sec.to_bytes(32, 'big') not in raw
        return secrecy.no_secret_terms(result)

    d = {'params': {'self': T}, 'kwargs': {'is_private': is_private_arg}, 'init': _init_key, 'ensures': ensures,
         'prepare': lambda self: {'self': _real(self, HDKey)},
         '__doc__': 'HDKey.wif(is_private=%r) of a private key is a PUBLIC extended key: it does not contain the secret' % (is_private_arg,)}
    return contract('bitcoinlib.keys.HDKey.wif', case=name, props=('C16', 'C12'))(type(name.replace('-', '_'), (), d))


PUBLIC_CASES = [_public_contract(c, comp, aw)._contract.key for c in (Key, HDKey) for comp in (True, False) for aw in (False, True)]
PUBLIC_CASES += [_public_contract(c, comp, False, True)._contract.key for c in (Key, HDKey) for comp in (True, False)]
WIF_CASES = [_wif_public_contract(comp, ip)._contract.key for comp in (True, False) for ip in (False, None)]
