"""C14: BIP39.  Proved: the data flow of Mnemonic.to_seed (which text reaches PBKDF2 and how it is normalised).  The sentence <->
entropy conversion (change_base on bit strings, word-list lookups) is evaluated natively for all sizes and languages."""
import hashlib
import unicodedata
import z3
from pyvc.api import contract, Int, Bytes, Bool, Str, RecordOf, Const, INSTALLERS
from pyvc.values import SStr, SeqPart, IntSeq
from bitcoinlib.mnemonic import Mnemonic


def _m_pbkdf2(ip, args, kwargs):
    from pyvc.values import is_concrete
    from pyvc import models
    if is_concrete(args) and is_concrete(kwargs):
        return hashlib.pbkdf2_hmac(*args, **kwargs)
    v = dict(zip(['hash_name', 'password', 'salt', 'iterations'], args))
    v.update(kwargs)
    return models.uf_bytes(ip.ctx, 'pbkdf2_%s_%s' % (v['hash_name'], v['iterations']), [v['password'], v['salt']], 64)


def _m_sanitize(ip, args, kwargs):
    """ASSUMED contract of Mnemonic.sanitize_mnemonic: returns the NFKD normalisation of the sentence (it also validates the words
    against the word list, which is exercised natively)"""
    from contracts import external
    return external.m_normalize(ip, ['NFKD', args[1]], {})


def _m_to_entropy(ip, args, kwargs):
    """ASSUMED contract of Mnemonic.to_entropy inside to_seed: validates the sentence (may raise), returns entropy bytes;
    it does not change its argument"""
    from pyvc.values import SBytes
    from pyvc.api import Bytes
    return Bytes.fresh(ip.ctx, 'entropy')


def _install(reg):
    reg.models[hashlib.pbkdf2_hmac] = _m_pbkdf2
    reg.models[Mnemonic.sanitize_mnemonic] = _m_sanitize
    reg.models[Mnemonic.to_entropy] = _m_to_entropy


INSTALLERS.append(_install)


@contract('bitcoinlib.mnemonic.Mnemonic.to_seed', case='dataflow', props=('C14',))
class to_seed:
    """seed = PBKDF2-HMAC-SHA512(password = UTF-8(NFKD(sentence)), salt = 'mnemonic' || UTF-8(NFKD(passphrase)), 2048 rounds)"""
    params = {'self': RecordOf(Mnemonic), 'words': Str, 'password': Str}
    kwargs = {'validate': False}

    def result_is(words, password):
        return hashlib.pbkdf2_hmac('sha512', bytes(unicodedata.normalize('NFKD', words), 'utf8'),
                                   b'mnemonic' + bytes(unicodedata.normalize('NFKD', password), 'utf8'), 2048)

    def build(self, words, password):
        return (lambda: Mnemonic().to_seed(words, password, validate=False)), [], {}

    def sample(rng):
        m = Mnemonic()
        words = m.generate(rng.choice([128, 256]))
        pw = rng.choice(['', 'TREZOR', 'é', 'é', 'ｐａｓｓ', 'Å', 'Ωhm', 'pass phrase'])
        return {'self': None, 'words': words, 'password': pw}


@contract('bitcoinlib.mnemonic.Mnemonic.to_seed', case='dataflow-validate', props=('C14',))
class to_seed_validate:
    """the same with validation switched on (the default): validation must not change which text reaches PBKDF2"""
    params = {'self': RecordOf(Mnemonic), 'words': Str, 'password': Str}
    kwargs = {'validate': True}
    result_is = to_seed.__dict__['result_is']

    def build(self, words, password):
        return (lambda: Mnemonic(Mnemonic.detect_language(words)).to_seed(words, password, validate=True)), [], {}

    def sample(rng):
        lang = rng.choice(['spanish', 'french', 'japanese', 'english', 'italian'])
        words = Mnemonic(lang).generate(rng.choice([128, 256]))
        if rng.random() < 0.7:
            words = unicodedata.normalize('NFC', words)          # as typed on most keyboards
        return {'self': None, 'words': words, 'password': rng.choice(['', 'TREZOR', 'é'])}
