"""C15: BIP38.  (a) freshness of entropy: obligations on default-argument expressions (evaluated once, at definition time)
and on the data flow from an entropy-source call made *inside* the invocation to the result; (b) encrypt/decrypt round trips:
native contract evaluation only (bounded)."""
import z3
from pyvc.api import contract, Int, Bytes, Bool, Str, Const, INSTALLERS
import bitcoinlib.keys as K
import bitcoinlib.encoding as enc


def _install(reg):
    # assumed helper models (see contracts/external.py) are only switched on for these contracts
    for name, (fn, model) in getattr(reg, 'helper_models', {}).items():
        reg.models[fn] = model


INSTALLERS.append(_install)


@contract('bitcoinlib.keys.bip38_intermediate_password', case='fresh-salt', props=('C15',))
class intermediate_fresh:
    """With no owner salt supplied, the salt is drawn from the entropy source inside this invocation and reaches the result."""
    params = {'passphrase': Str}
    kwargs = {'lot': None, 'sequence': None}

    def build(passphrase):
        return (lambda: (K.bip38_intermediate_password(passphrase), K.bip38_intermediate_password(passphrase))), [], {}

    def ensures(passphrase, result, ghost):
        if ghost is None:
            return result[0] != result[1]          # native: two successive calls must differ
        return ghost.get('entropy_draws', 0) >= 1 and ghost.get('result_depends_on_entropy', False)

    def sample(rng):
        return {'passphrase': rng.choice(['TestingOneTwoThree', 'Satoshi', 'pass phrase', 'ϓ\u0000\U00010400\U0001f4a9'])}


@contract('bitcoinlib.keys.bip38_create_new_encrypted_wif', case='fresh-seed-native', props=('C15',))
class create_new_fresh:
    """Two successive requests for a new EC-multiplied encrypted key never return the same key (native evaluation only)."""
    params = {'n': Int(0, 3)}
    native_only = True
    fuzz_divisor = 8
    bounded = 'two successive calls per evaluation, fixed intermediate passphrases'

    def build(n):
        ip = ['passphrasepxFy57B9v8HtUsszJYKReoNDV6VHjUSGt8EVJmux9n1J3Ltf1gRxyDGXqnf9qm',
              'passphraseaB8feaLQDENqCgr4gKZpmf4VoaT6qdjJNJiv7fsKvjqavcJxvuR1hy25aTu5sX'][n % 2]
        return (lambda: (K.bip38_create_new_encrypted_wif(ip), K.bip38_create_new_encrypted_wif(ip))), [], {}

    def ensures(n, result):
        a, b = result
        return a['encrypted_wif'] != b['encrypted_wif'] and a['seed'] != b['seed']


@contract('bitcoinlib.keys.Key.encrypt', case='roundtrip-native', props=('C15',))
class encrypt_roundtrip:
    """decrypt(encrypt(k, pw), pw) gives back the same secret and compression flag; a different passphrase is refused
    (native evaluation only: scrypt / AES are third-party)."""
    params = {'secret': Int(1, 2 ** 256 - 2 ** 32 - 978), 'compressed': Bool, 'password': Str, 'other': Str}
    native_only = True
    fuzz_divisor = 8
    bounded = 'random secrets (biased to special byte patterns), unicode passphrases'

    def build(secret, compressed, password, other):
        def run():
            k = K.Key(secret, compressed=compressed)
            w = k.encrypt(password)
            k2 = K.Key(w, password=password)
            try:
                K.Key(w, password=other)
                wrong_accepted = other != password
            except Exception:
                wrong_accepted = False
            return (k2.secret, k2.compressed, k2.address(), k.address(), wrong_accepted)
        return run, [], {}

    def ensures(secret, compressed, password, other, result):
        s2, c2, a2, a1, wrong_accepted = result
        return s2 == secret and c2 == compressed and a2 == a1 and not wrong_accepted

    def sample(rng):
        n = enc.__dict__.get('secp256k1_n') or K.secp256k1_n
        kind = rng.random()
        if kind < 0.4:
            # secrets whose last bytes look like markers (01 suffix, leading zeros)
            s = int.from_bytes(bytes(rng.getrandbits(8) for _ in range(rng.choice([31, 30, 20]))) + bytes([rng.choice([1, 1, 0, 0x80])]), 'big')
        else:
            s = rng.randrange(1, n)
        s = max(1, s % n)
        pw = rng.choice(['TestingOneTwoThree', 'Satoshi', 'a', 'päss wörd', '\U0001f4a9'])
        return {'secret': s, 'compressed': rng.random() < 0.7, 'password': pw, 'other': pw + rng.choice(['', 'x', ' '])}


from spec import bip38 as _sp38

_PASSPHRASES = ['TestingOneTwoThree', 'Satoshi', 'pass phrase', 'ϓ\u0000\U00010400\U0001f4a9', 'ﬁne №5', 'x²', 'ＡＢＣ', 'Å', 'Å', 'Ωhm']


def _salt(rng, n=8):
    while True:
        s = bytes(rng.getrandbits(8) for _ in range(n))
        if not all(chr(c) in '0123456789abcdefABCDEF' for c in s):       # to_bytes would read an all-hex-digit salt as hex text (assumed away)
            return s


@contract('bitcoinlib.keys.bip38_intermediate_password', case='spec-no-lot', props=('C15',))
class intermediate_spec_nolot:
    """Without lot/sequence the intermediate code is the BIP38 one for every passphrase and every 8-byte owner salt (NFC normalisation,
    scrypt parameters, magic bytes, pass point, Base58Check)."""
    params = {'passphrase': Str, 'owner_salt': Bytes(8)}
    kwargs = {'lot': None, 'sequence': None}

    def result_is(passphrase, owner_salt):
        return _sp38.intermediate_code(passphrase, owner_salt, None, None)

    def sample(rng):
        return {'passphrase': rng.choice(_PASSPHRASES), 'owner_salt': _salt(rng)}


@contract('bitcoinlib.keys.bip38_intermediate_password', case='spec-lot', props=('C15',))
class intermediate_spec_lot:
    """With lot and sequence (sequence >= 1: the library refuses sequence 0, which BIP38 allows - a refusal, not a wrong code) the
    intermediate code is the BIP38 one; only the first 4 salt bytes are used."""
    params = {'passphrase': Str, 'owner_salt': Bytes(8), 'lot': Int(100000, 999999), 'sequence': Int(1, 4095)}

    def result_is(passphrase, owner_salt, lot, sequence):
        return _sp38.intermediate_code(passphrase, owner_salt, lot, sequence)

    def sample(rng):
        return {'passphrase': rng.choice(_PASSPHRASES), 'owner_salt': _salt(rng), 'lot': rng.randint(100000, 999999), 'sequence': rng.randint(1, 4095)}


@contract('bitcoinlib.keys.bip38_create_new_encrypted_wif', case='ec-multiplied-roundtrip-native', props=('C15',))
class ec_multiplied_roundtrip:
    """EC-multiplied mode end to end (native evaluation only: scrypt / AES / EC are third-party): an intermediate code made from a passphrase
    (with and without lot / sequence), a new encrypted key made from it (compressed and uncompressed) and decryption with the same passphrase
    give a key whose address is the one reported at creation, with the same compression flag and the same lot / sequence; a different
    passphrase is refused."""
    params = {'n': Int(0, 10 ** 6)}
    native_only = True
    fuzz_divisor = 8
    bounded = 'random passphrases x {no lot, lot/sequence} x {compressed, uncompressed}, fixed owner salts and seeds drawn from a PRNG'

    def build(n):
        import random
        rng = random.Random(n)
        pw = rng.choice(['TestingOneTwoThree', 'Satoshi', 'päss wörd', 'x', '\U0001f4a9 long pass phrase ' * 2])
        lot = rng.choice([None, 100000, 263183, 999999])
        seq = None if lot is None else rng.choice([1, 2, 4095])
        compressed = rng.random() < 0.5
        salt = bytes(rng.getrandbits(8) | 0x80 for _ in range(8))
        seed = bytes(rng.getrandbits(8) for _ in range(24))

        def run():
            inter = K.bip38_intermediate_password(pw, lot=lot, sequence=seq, owner_salt=salt)
            made = K.bip38_create_new_encrypted_wif(inter, compressed=compressed, seed=seed)
            k = K.Key(made['encrypted_wif'], password=pw)
            try:
                K.Key(made['encrypted_wif'], password=pw + 'x')
                wrong_accepted = True
            except Exception:
                wrong_accepted = False
            dec = K.bip38_decrypt(made['encrypted_wif'], pw)
            info = dec[3] if isinstance(dec, tuple) and len(dec) > 3 and isinstance(dec[3], dict) else {}
            return {'address_made': made['address'], 'address_decrypted': k.address(), 'compressed': k.compressed, 'want_compressed': compressed,
                    'wrong_accepted': wrong_accepted, 'lot': info.get('lot'), 'sequence': info.get('sequence'), 'want_lot': lot, 'want_seq': seq}
        return run, [], {}

    def ensures(n, result):
        r = result
        return (r['address_made'] == r['address_decrypted'] and r['compressed'] == r['want_compressed'] and not r['wrong_accepted']
                and (r['want_lot'] is None or (r['lot'] == r['want_lot'] and r['sequence'] == r['want_seq'])))

    def sample(rng):
        return {'n': rng.randrange(10 ** 6)}


@contract('bitcoinlib.keys.Key.encrypt', case='plain-mode-spec-native', props=('C15',))
class plain_mode_spec:
    """Plain (non-EC-multiplied) BIP38 against an independent statement of the specification: scrypt(passphrase as UTF-8 text in NFC, salt = first four
    bytes of SHA256d(P2PKH address), N = 16384, r = p = 8), two AES-256 blocks over key XOR derived half 1, prefix 0142, flag e0 / c0.  The passphrases
    include text that LOOKS like hexadecimal ('1234', 'abcd', 'DEADBEEF'), whose characters - not the bytes they would spell - are the passphrase, and
    composed characters.  Key.encrypt must give the reference string, the reference string must decrypt to the key, and a passphrase differing only in
    case must be refused (native evaluation only: scrypt / AES are third-party)."""
    params = {'secret': Int(1, 2 ** 255), 'compressed': Bool, 'pw': Int(0, 10 ** 6)}
    native_only = True
    bounded = 'random keys x 8 passphrases (ASCII, hex-looking, composed characters)'
    fuzz_divisor = 8

    def build(secret, compressed, pw):
        import hashlib, unicodedata
        from Crypto.Cipher import AES
        from spec import base58 as _b58, ec as _ec
        from bitcoinlib.keys import Key
        words = ['Satoshi', '1234', 'abcd', 'DEADBEEF', '00', 'cafe babe', 'c0ffee', 'école']
        p = words[pw % len(words)]

        def reference():
            pt = _ec.mul_g(secret)
            pub = (bytes([2 + (pt[1] & 1)]) + pt[0].to_bytes(32, 'big')) if compressed else b'\x04' + pt[0].to_bytes(32, 'big') + pt[1].to_bytes(32, 'big')
            h160 = hashlib.new('ripemd160', hashlib.sha256(pub).digest()).digest()
            addr = _b58.check_encode(b'\x00' + h160)
            ah = hashlib.sha256(hashlib.sha256(addr.encode()).digest()).digest()[:4]
            d = hashlib.scrypt(unicodedata.normalize('NFC', p).encode('utf-8'), salt=ah, n=16384, r=8, p=8, dklen=64, maxmem=64 * 1024 * 1024)
            k = secret.to_bytes(32, 'big')
            aes = AES.new(d[32:], AES.MODE_ECB)
            e1 = aes.encrypt(bytes(a ^ b for a, b in zip(k[:16], d[:16])))
            e2 = aes.encrypt(bytes(a ^ b for a, b in zip(k[16:], d[16:32])))
            return _b58.check_encode(b'\x01\x42' + (b'\xe0' if compressed else b'\xc0') + ah + e1 + e2)

        def run():
            ref = reference()
            out = {'passphrase': p, 'reference': ref}
            k = Key(secret, compressed=compressed, network='bitcoin')
            out['encrypt'] = k.encrypt(p)
            try:
                k2 = Key(ref, password=p, network='bitcoin')
                out['decrypt'] = (k2.secret, k2.compressed)
            except Exception as e:
                out['decrypt'] = 'raises %s' % type(e).__name__
            other = p.swapcase() if p.swapcase() != p else p + ' '
            try:
                k3 = Key(out['encrypt'], password=other, network='bitcoin')
                out['other'] = 'accepted %x' % k3.secret
            except Exception:
                out['other'] = 'refused'
            return out
        return run, [], {}

    def ensures(secret, compressed, pw, result):
        return result['encrypt'] == result['reference'] and result['decrypt'] == (secret, compressed) and result['other'] == 'refused'
