"""C12: export formats.  Proved: the byte layout of Key.wif and HDKey.wif (what is handed to Base58).  Import round trips through
get_key_format / Key.__init__ / HDKey.__init__ (string heuristics) are evaluated natively over all networks and prefix kinds."""
import z3
from pyvc.api import contract, Int, Bytes, Bool, Str, RecordOf, Const, INSTALLERS
from bitcoinlib.keys import Key, HDKey, get_key_format
from bitcoinlib.networks import Network, NETWORK_DEFINITIONS
import bitcoinlib.encoding as enc
from spec import bip32, ec, base58 as b58
import contracts.keys_public as kp

N = ec.N


def _install(reg):
    for name, (fn, model) in getattr(reg, 'helper_models', {}).items():
        reg.models[fn] = model


INSTALLERS.append(_install)


def _wif_layout_case(net, compressed):
    name = 'layout-%s-%s' % (net, 'compressed' if compressed else 'uncompressed')
    fields = kp._key_fields(compressed, False)
    fields['secret'] = Int(1, N - 1)
    fields['network'] = Const(Network(net))
    T = RecordOf(Key, **fields)
    prefix = bytes.fromhex(NETWORK_DEFINITIONS[net]['prefix_wif'])

    def result_is(self):
        payload = prefix + bip32.ser256(self.secret) + (b'\x01' if compressed else b'')
        return enc.base58encode(payload + enc.double_sha256(payload)[:4])

    def prepare(self):
        return {'self': Key(self.fields['secret'], network=net, compressed=compressed)}

    d = {'params': {'self': T}, 'init': kp._init_key, 'result_is': result_is, 'prepare': prepare,
         '__doc__': 'Key.wif() on %s: Base58 of prefix || 32-byte secret || %s || 4-byte double-SHA256 checksum' % (net, '01' if compressed else '(nothing)')}
    return contract('bitcoinlib.keys.Key.wif', case=name, props=('C12',))(type(name.replace('-', '_'), (), d))


def _wif_stale_cache_case(net, compressed):
    """Key.wif() on a key whose WIF cache holds the export for ANOTHER version byte (left by an earlier wif(prefix=...)): still the key's own network"""
    name = 'stale-cache-%s-%s' % (net, 'compressed' if compressed else 'uncompressed')
    fields = kp._key_fields(compressed, False)
    fields['secret'] = Int(1, N - 1)
    fields['network'] = Const(Network(net))
    fields['_wif'] = Str           # whatever text the earlier export produced
    fields['_wif_prefix'] = Bytes(1)
    T = RecordOf(Key, **fields)
    prefix = bytes.fromhex(NETWORK_DEFINITIONS[net]['prefix_wif'])

    def requires(self):
        return self._wif_prefix != prefix

    def result_is(self):
        payload = prefix + bip32.ser256(self.secret) + (b'\x01' if compressed else b'')
        return enc.base58encode(payload + enc.double_sha256(payload)[:4])

    def prepare(self):
        k = Key(self.fields['secret'], network=net, compressed=compressed)
        k.wif(prefix=self.fields['_wif_prefix'])          # the real history that leaves such a cache behind
        return {'self': k}

    d = {'params': {'self': T}, 'init': kp._init_key, 'requires': requires, 'result_is': result_is, 'prepare': prepare, 'no_history': True,
         '__doc__': 'Key.wif() on %s after an earlier export with another version byte: the cached text is not returned' % net}
    return contract('bitcoinlib.keys.Key.wif', case=name, props=('C12',))(type(name.replace('-', '_'), (), d))


WIF_LAYOUT = [_wif_layout_case(n, c)._contract.key for n in sorted(NETWORK_DEFINITIONS) for c in (True, False)]
WIF_LAYOUT += [_wif_stale_cache_case(n, c)._contract.key for n in ('bitcoin', 'litecoin', 'dogecoin', 'testnet') for c in (True, False)]


def _hd_layout_case(is_private):
    name = 'layout-%s' % ('private' if is_private else 'public')
    T = RecordOf(HDKey, **kp._key_fields(True, True))
    net = Network('bitcoin')

    def result_is(self):
        prefix = net.wif_prefix(is_private=is_private, witness_type='segwit', multisig=False)
        key = (b'\x00' + bip32.ser256(self.secret)) if is_private else bip32.ser_p(ec.mul_g(self.secret))
        raw = prefix + bytes([self.depth]) + self.parent_fingerprint + bip32.ser32(self.child_index) + self.chain + key
        return enc.change_base(raw + enc.double_sha256(raw)[:4], 256, 58, 111)

    d = {'params': {'self': T}, 'kwargs': {'is_private': is_private}, 'init': kp._init_key, 'result_is': result_is,
         'prepare': lambda self: {'self': kp._real(self, HDKey)},
         '__doc__': 'HDKey.wif(is_private=%r): the BIP32 serialisation version || depth || parent fingerprint || child number || chain code || key' % is_private}
    return contract('bitcoinlib.keys.HDKey.wif', case=name, props=('C12',))(type(name.replace('-', '_'), (), d))


HD_LAYOUT = [_hd_layout_case(p)._contract.key for p in (True, False)]


@contract('bitcoinlib.keys.Key.__init__', case='roundtrip-native', props=('C12',))
class key_roundtrip:
    """every export of a private key (hex, bytes, integer, WIF of every network, compressed and not) imports back to the same
    secret and compression flag; public exports import as public keys with the same point"""
    params = {'secret': Int(1, N - 1), 'compressed': Bool, 'net': Int(0, 50)}
    native_only = True
    bounded = 'random secrets biased to leading-zero bytes and trailing 01 / 00 bytes; all networks'

    def build(secret, compressed, net):
        names = sorted(NETWORK_DEFINITIONS)
        network = names[net % len(names)]

        def run():
            k = Key(secret, network=network, compressed=compressed)
            out = {}
            for label, rep, kw in [('wif', k.wif(), {'network': network}), ('wif-nohint', k.wif(), {}),
                                   ('hex', k.private_hex, {'compressed': compressed}), ('bytes', k.private_byte, {'compressed': compressed}),
                                   ('int', k.secret, {'compressed': compressed})]:
                try:
                    k2 = Key(rep, **kw)
                    out[label] = (k2.secret, k2.compressed, k2.is_private)
                    if label.startswith('wif'):
                        f = get_key_format(rep)
                        out[label + '-format'] = (f['is_private'], f['format'] in ('wif', 'wif_compressed'))
                except Exception as e:
                    out[label] = 'raises %r' % e
            for label, rep in [('public', k.public_hex), ('public-bytes', k.public_byte)]:
                k3 = Key(rep)
                out[label] = (k3.public_point() == k.public_point(), k3.is_private, k3.compressed)
                out[label + '-format'] = get_key_format(rep)['is_private']
            # compressed import -> uncompressed export -> import: the same point, 65 bytes / 130 hex digits
            k4 = Key(k.public_compressed_hex)
            u = k4.public_uncompressed_hex
            x, y = k.public_point()
            out['recompress'] = (u == '04' + '%064x%064x' % (x, y), k4.public_uncompressed_byte == bytes.fromhex('04' + '%064x%064x' % (x, y)))
            return out
        return run, [], {}

    def ensures(secret, compressed, net, result):
        for label in ('wif', 'wif-nohint', 'hex', 'bytes', 'int'):
            if label == 'wif-nohint' and isinstance(result[label], str) and 'Could not determine network' in result[label]:
                continue            # a WIF version byte shared by several networks is refused without a hint: allowed
            if result[label] != (secret, compressed, True):
                return False
        if result['wif-format'] != (True, True) or result.get('wif-nohint-format', (True, True)) != (True, True):
            return False
        for label in ('public', 'public-bytes'):
            if result[label] != (True, False, compressed) or result[label + '-format'] is not False:
                return False
        return result['recompress'] == (True, True)

    def sample(rng):
        r = rng.random()
        if r < 0.35:
            s = int.from_bytes(bytes(rng.getrandbits(8) for _ in range(31)) + bytes([rng.choice([1, 1, 0, 2])]), 'big')
        elif r < 0.55:
            s = int.from_bytes(b'\x00' * rng.randint(1, 4) + bytes(rng.getrandbits(8) for _ in range(27)) + b'\x01', 'big')
        else:
            s = rng.randrange(1, N)
        return {'secret': max(1, s % N), 'compressed': rng.random() < 0.5, 'net': rng.randrange(50)}


@contract('bitcoinlib.keys.HDKey.__init__', case='roundtrip-native', props=('C12',))
class hdkey_roundtrip:
    """an extended key exported with any network / witness type / multisig prefix imports back with the same key material,
    chain code, depth, parent fingerprint, child number and private/public classification; network, witness type and
    multisig flag are the exported ones whenever the prefix determines them or a hint is given"""
    params = {'seed': Int(0, 2 ** 64), 'choice': Int(0, 10 ** 6)}
    native_only = True
    bounded = 'random keys / depths / indices; every network x witness type x multisig x private/public prefix'

    def build(seed, choice):
        import random
        rng = random.Random(seed * 1000003 + choice)
        names = sorted(NETWORK_DEFINITIONS)
        network = names[choice % len(names)]
        witness_type = ['legacy', 'p2sh-segwit', 'segwit'][(choice // 7) % 3]
        multisig = bool((choice // 3) % 2)
        is_private = bool(choice % 2)

        def run():
            k = HDKey(key=rng.randrange(1, N).to_bytes(32, 'big'), chain=bytes(rng.getrandbits(8) for _ in range(32)), depth=rng.randint(0, 255),
                      parent_fingerprint=bytes(rng.getrandbits(8) for _ in range(4)), child_index=rng.choice([0, 1, 2 ** 31, 2 ** 32 - 1, rng.getrandbits(32)]),
                      network=network, witness_type=witness_type, multisig=multisig)
            from bitcoinlib.networks import NetworkError
            try:
                w = k.wif(is_private=is_private, witness_type=witness_type, multisig=multisig)
            except NetworkError:
                return {'na': True}        # this network defines no such prefix: nothing to export
            same_prefix = [1 for n2, d in NETWORK_DEFINITIONS.items() for p in d['prefixes_wif'] if p[0] == enc.change_base(w, 58, 16)[:8].upper()]
            k2 = HDKey(w, network=network, witness_type=witness_type, multisig=multisig)
            fmt = get_key_format(w)
            return {'key': (k2.private_byte if is_private else k2.public_byte) == (k.private_byte if is_private else k.public_byte),
                    'is_private': k2.is_private, 'fmt_private': fmt['is_private'], 'chain': k2.chain == k.chain, 'depth': k2.depth == k.depth,
                    'fp': k2.parent_fingerprint == k.parent_fingerprint, 'idx': k2.child_index == k.child_index,
                    'network': k2.network.name == network, 'witness_type': k2.witness_type == witness_type, 'multisig': bool(k2.multisig) == multisig,
                    'want_private': is_private}
        return run, [], {}

    def ensures(seed, choice, result):
        r = result
        if r.get('na'):
            return True
        return (r['key'] and r['is_private'] == r['want_private'] and r['fmt_private'] == r['want_private'] and r['chain'] and r['depth'] and r['fp']
                and r['idx'] and r['network'] and r['witness_type'] and r['multisig'])
