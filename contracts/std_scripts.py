"""C05: the standard locking scripts, as Script template instantiation + serialisation produce them (Script.__init__ with script_types=[t] and a
public hash, then Script.serialize) for EVERY payload of the standard length and, for P2TR-style outputs, every witness version 1..16."""
from pyvc.api import contract, Int, Bytes, Const, RecordOf
from bitcoinlib.scripts import Script
from spec import script as sp

KINDS = {'p2pkh': 20, 'p2sh': 20, 'p2wpkh': 20, 'p2wsh': 32, 'p2tr': 32}


def _case(kind):
    n = KINDS[kind]
    name = 'std-' + kind

    def ensures(self, public_hash, sigs_required, result):
        s = self if result is None else result
        return s.serialize() == sp.std_lock_script(kind, public_hash, sigs_required)

    def build(self, public_hash, sigs_required):
        return (lambda: Script(script_types=[kind], public_hash=public_hash, sigs_required=sigs_required)), [], {}

    d = {'params': {'self': RecordOf(Script), 'public_hash': Bytes(n), 'sigs_required': Int(1, 16)}, 'kwargs': {'script_types': [kind]},
         'ensures': ensures, 'build': build,
         '__doc__': 'Script(script_types=[%s], public_hash=h).serialize() is the standard %s locking script for every %d-byte h%s'
                    % (kind, kind, n, ' and every witness version 1..16' if kind == 'p2tr' else '')}
    return contract('bitcoinlib.scripts.Script.__init__', case=name, props=('C05',))(type(name.replace('-', '_'), (), d))


CASES = [_case(k)._contract.key for k in KINDS]
