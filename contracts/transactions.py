"""Contracts on bitcoinlib/transactions.py."""
import z3
from pyvc.api import contract, loop, Int, Bytes, Bool, Str, RecordOf, Const, ListOf, OpaqueElem, OpaqueRef, ArrayT, implies, forall, \
    store, empty_map, INSTALLERS
from pyvc.values import SBool
from bitcoinlib.transactions import Input, Transaction
from bitcoinlib.keys import verify as keys_verify


# ---------------------------------------------------------------------------------------------------
# C02: Input.verify - the m-of-n counting loop.  Signature validity is the abstract predicate
# V(digest, signature j, key k) = keys.verify(digest, signatures[j], keys[k])  (ECDSA itself: C13 + assumed library).

def sig_valid(tx_hash, inp, j, k):
    """is signature number j of the input valid for key number k under the digest"""
    return bool(keys_verify(tx_hash, inp.signatures[j], inp.keys[k]))


def _m_sig_valid(ip, args, kwargs):
    from contracts import external
    tx_hash, inp, j, k = args
    return SBool(external.uf(ip.ctx, 'V', [tx_hash, j, k], z3.BoolSort()))


def _m_keys_verify(ip, args, kwargs):
    """keys.verify(digest, sig, key) on abstract list elements: the same predicate V(digest, position of sig, position of key)"""
    from contracts import external
    from pyvc.ctx import Unsupported
    tx_hash, sig, key = args[0], args[1], args[2] if len(args) > 2 else kwargs.get('public_key')
    if isinstance(sig, OpaqueRef) and isinstance(key, OpaqueRef):
        return SBool(external.uf(ip.ctx, 'V', [tx_hash, sig.pos, key.pos], z3.BoolSort()))
    raise Unsupported('keys.verify on non-abstract signature/key')


def _install(reg):
    reg.models[sig_valid] = _m_sig_valid
    reg.models[keys_verify] = _m_keys_verify


INSTALLERS.append(_install)

_InputT = RecordOf(Input, keys=ListOf(OpaqueElem('key')), signatures=ListOf(OpaqueElem('sig')), sigs_required=Int(1, 20),
                   script_type=Const('p2sh_multisig'), index_n=Int(0, 10 ** 6), valid=Const(None))


@loop('bitcoinlib.transactions.Input.verify', 0, ghost={'match': empty_map},
      variant=lambda self, key_n: len(self.keys) - key_n,
      ghost_step=lambda old_sig_n, old_key_n, sig_n, match: {'match': store(match, old_sig_n, old_key_n) if sig_n == old_sig_n + 1 else match})
def verify_loop_inv(self, transaction_hash, sig_n, key_n, sigs_verified, match, has_f, f):
    """(soundness) every counted signature is a *distinct* list entry matched to its own key, in strictly increasing key
    order;  (completeness) if some valid increasing matching f of the first m signatures exists (has_f), the greedy scan never
    overtakes it: match[j] <= f[j] and the scan position is still at or before f[sig_n]"""
    return (sigs_verified == sig_n and 0 <= sig_n and sig_n <= len(self.signatures) and sig_n <= key_n and key_n <= len(self.keys)
            and forall(0, sig_n, lambda j: 0 <= match[j] and match[j] < key_n and sig_valid(transaction_hash, self, j, match[j]))
            and forall(0, sig_n - 1, lambda j: match[j] < match[j + 1])
            and ((not has_f) or sig_n >= self.sigs_required or key_n <= f[sig_n]))


def _exists_matching(tx_hash, inp):
    """native oracle: do the first m signatures match a strictly increasing sequence of key positions?"""
    m = inp.sigs_required
    if len(inp.signatures) < m:
        return False
    k = 0
    for j in range(m):
        while k < len(inp.keys) and not sig_valid(tx_hash, inp, j, k):
            k += 1
        if k >= len(inp.keys):
            return False
        k += 1
    return True


@contract('bitcoinlib.transactions.Input.verify', props=('C02', 'C10'))
class input_verify:
    """SOUNDNESS: verify() returns True only if the first m signatures are valid for m distinct listed keys in strictly
    increasing key positions (as CHECKMULTISIG requires).  COMPLETENESS: whenever such a matching exists, it returns True."""
    params = {'self': _InputT, 'transaction_hash': Bytes(32), 'has_f': Bool, 'f': ArrayT()}

    def requires(self, transaction_hash, has_f, f):
        # hypothesis of the completeness clause: f is a valid, strictly increasing matching of the first m signatures
        m = self.sigs_required
        return (not has_f) or (m <= len(self.signatures)
                               and forall(0, m, lambda j: 0 <= f[j] and f[j] < len(self.keys) and sig_valid(transaction_hash, self, j, f[j]))
                               and forall(0, m - 1, lambda j: f[j] < f[j + 1]))

    def ensures(self, transaction_hash, has_f, f, result, locals):
        if locals is None:
            return result == _exists_matching(transaction_hash, self)
        if has_f and result is not True:
            return False                      # COMPLETENESS: a correctly signed input verifies
        if result is not True:
            return True
        match = locals['match']
        m = self.sigs_required
        return (m <= len(self.signatures)
                and forall(0, m, lambda j: 0 <= match[j] and match[j] < len(self.keys) and sig_valid(transaction_hash, self, j, match[j]))
                and forall(0, m - 1, lambda j: match[j] < match[j + 1]))

    def sample(rng):
        """real keys and signatures; includes the same public point listed twice (compressed and uncompressed form)"""
        from bitcoinlib.keys import Key, sign
        h = bytes(rng.getrandbits(8) for _ in range(32))
        n = rng.randint(1, 4)
        ks = [Key(rng.randrange(1, 2 ** 200)) for _ in range(n)]
        pubs = []
        for k in ks:
            pubs.append(Key(k.public_hex))
            if rng.random() < 0.4:
                pubs.append(Key(k.public_uncompressed_hex))
        m = rng.randint(1, len(pubs))
        signers = [k for k in ks if rng.random() < 0.7][:m]
        sigs = [sign(h, k) for k in signers]
        if rng.random() < 0.5:
            sigs.append(sign(bytes(32), ks[0]))       # an unrelated (invalid here) signature
        inp = Input(prev_txid=b'\x11' * 32, output_n=0, keys=pubs, signatures=sigs, sigs_required=m, script_type='p2sh_multisig')
        return {'self': inp, 'transaction_hash': h, 'has_f': False, 'f': {}}


# ---------------------------------------------------------------------------------------------------
# C01: signature-hash preimages.  BOUNDED in the *number* of inputs / outputs (each count a separate contract case with
# the loops unrolled); every field of every input and output is symbolic (any 32-byte id, any vout, any sequence, any
# value up to 21e14, any script of any length).

from pyvc.api import FixedList
from spec import sighash, wire

MAX_MONEY = 21 * 10 ** 14
_InRec = RecordOf(Input, prev_txid=Bytes(32), output_n=Bytes(4), sequence=Int(0, 2 ** 32 - 1), value=Int(1, MAX_MONEY),
                  script_type=Const('sig_pubkey'), witness_type=Const('segwit'), redeemscript=Bytes(max=10000), locking_script=Bytes(max=10000),
                  witnesses=Const([]), unlocking_script=Const(b''))
_OutRec = RecordOf('bitcoinlib.transactions.Output', value=Int(0, MAX_MONEY), lock_script=Bytes(max=10000))


def _abstract_inputs(self):
    return [(x.prev_txid[::-1], int.from_bytes(x.output_n, 'big'), x.sequence) for x in self.inputs]


def _abstract_outputs(self):
    return [(o.value, o.lock_script) for o in self.outputs]


def _real_tx(self, keep_index=False):
    """native replay: build a real Transaction with the concretised fields"""
    from bitcoinlib.transactions import Transaction, Input, Output
    f = self.fields
    ins = []
    for k, x in enumerate(f['inputs']):
        g = x.fields
        i = Input(prev_txid=g['prev_txid'], output_n=g['output_n'], sequence=g['sequence'], value=g['value'], index_n=k,
                  witness_type=g.get('witness_type', 'segwit'), strict=False)
        i.redeemscript = g['redeemscript']
        i.locking_script = g['locking_script']
        i.script_type = g.get('script_type', 'sig_pubkey')
        ins.append(i)
    outs = []
    for o in f['outputs']:
        out = Output(value=o.fields['value'], lock_script=o.fields['lock_script'] or b'\x51', strict=False)
        out.lock_script = o.fields['lock_script']
        outs.append(out)
    t = Transaction(ins, outs, locktime=f['locktime'], version=f['version'], witness_type=f.get('witness_type', 'segwit'))
    t.version = f['version']
    # `version` (the bytes that raw() serialises) and `version_int` are separate attributes: the contracts leave version_int unconstrained, so a
    # digest that took the version from version_int instead of the serialised bytes is caught
    if 'version_int' in f:
        t.version_int = f['version_int']
    for k, i in enumerate(t.inputs):
        i.index_n = f['inputs'][k].fields['index_n'] if keep_index else k
    return t


def _perturb_tx(env, rng):
    """in-place edit of a field the digest commits to (as set_locktime / bumpfee / direct edits do)"""
    t = env['self']
    what = rng.choice(['sequence', 'locktime', 'value', 'version'])
    if what == 'sequence' and t.inputs:
        i = rng.randrange(len(t.inputs))
        t.inputs[i].sequence = rng.choice([0, 1, 0xfffffffe, rng.getrandbits(32)])
        return 'inputs[%d].sequence = %d' % (i, t.inputs[i].sequence)
    if what == 'value' and t.outputs:
        i = rng.randrange(len(t.outputs))
        t.outputs[i].value = rng.randrange(0, 10 ** 9)
        return 'outputs[%d].value = %d' % (i, t.outputs[i].value)
    if what == 'version':
        t.version = bytes([0, 0, 0, rng.choice([1, 2, 3])])
        return 'version = %s' % t.version.hex()
    t.locktime = rng.getrandbits(31)
    return 'locktime = %d' % t.locktime


def _segwit_case(n_in, n_out, sign_id):
    name = 'in%d-out%d-sign%d' % (n_in, n_out, sign_id)
    TxT = RecordOf(Transaction, version=Bytes(4), version_int=Int(0, 2 ** 32 - 1), locktime=Int(0, 2 ** 32 - 1), witness_type=Const('segwit'),
                   inputs=FixedList(_InRec, n_in), outputs=FixedList(_OutRec, n_out))

    def requires(self, hash_type):
        x = self.inputs[sign_id]
        return len(x.redeemscript) > 0 and x.redeemscript != b'\x00'

    def result_is(self, hash_type):
        x = self.inputs[sign_id]
        return sighash.bip143_preimage(int.from_bytes(self.version, 'big'), _abstract_inputs(self), _abstract_outputs(self), self.locktime,
                                       sign_id, x.redeemscript, x.value, hash_type)

    def _sample(rng):
        from pyvc import fuzz
        return {'self': fuzz.sample(TxT, rng), 'hash_type': rng.choice([1, 1, 1, 1, 2, 3, 0x81, 0x82, 0x83, rng.randrange(256)])}

    def pin_varstr(self, hash_type, result):
        x = self.inputs[sign_id]
        return result == sighash.bip143_preimage(int.from_bytes(self.version, 'big'), _abstract_inputs(self), _abstract_outputs(self),
                                                 self.locktime, sign_id, x.redeemscript, x.value, hash_type, sighash.varstr_as_observed)

    d = {'params': {'self': TxT, 'hash_type': Int(0, 255)}, 'kwargs': {'sign_id': sign_id}, 'requires': requires, 'result_is': result_is,
         'pins': {'F-varstr-00': pin_varstr}, 'perturb': _perturb_tx, 'sample': _sample,
         'prepare': lambda self, hash_type: {'self': _real_tx(self)},
         '__doc__': 'BIP143 preimage for input %d of a transaction with %d inputs and %d outputs, every hash type byte' % (sign_id, n_in, n_out)}
    cls = type(name, (), d)
    return contract('bitcoinlib.transactions.Transaction.signature_segwit', case=name, props=('C01',))(cls)


SEGWIT_CASES = [_segwit_case(a, b, c)._contract.key for a in (1, 2, 3) for b in (0, 1, 2, 3) for c in range(a)]


# legacy SIGHASH_ALL preimage: Transaction.raw(sign_id, SIGHASH_ALL, 'legacy')

_InRecLegacy = RecordOf(Input, prev_txid=Bytes(32), output_n=Bytes(4), sequence=Int(0, 2 ** 32 - 1), value=Int(0, MAX_MONEY),
                        script_type=Const('sig_pubkey'), witness_type=Const('legacy'), redeemscript=Bytes(max=10000),
                        locking_script=Bytes(max=10000), witnesses=Const([]), unlocking_script=Bytes(max=10000), index_n=Int(0, 10))


def _legacy_case(n_in, n_out, sign_id, script_type):
    name = 'legacy-%s-in%d-out%d-sign%d' % (script_type, n_in, n_out, sign_id)
    TxT = RecordOf(Transaction, version=Bytes(4), version_int=Int(0, 2 ** 32 - 1), locktime=Int(0, 2 ** 32 - 1), witness_type=Const('legacy'), size=Const(None),
                   inputs=FixedList(_InRecLegacy, n_in), outputs=FixedList(_OutRec, n_out))

    def init(self):
        # representation invariant maintained by Transaction.__init__ / add_input: inputs are numbered by position
        k = 0
        for x in self.inputs:
            x.index_n = k
            x.script_type = script_type if k == sign_id else 'sig_pubkey'
            k += 1

    def script_code(self):
        x = self.inputs[sign_id]
        return x.redeemscript if script_type == 'p2sh_multisig' else x.locking_script

    def result_is(self):
        return sighash.legacy_all_preimage(int.from_bytes(self.version, 'big'), _abstract_inputs(self), _abstract_outputs(self), self.locktime,
                                           sign_id, script_code(self))

    def pin_varstr(self, result):
        return result == sighash.legacy_all_preimage(int.from_bytes(self.version, 'big'), _abstract_inputs(self), _abstract_outputs(self),
                                                     self.locktime, sign_id, script_code(self), sighash.varstr_as_observed)

    d = {'params': {'self': TxT}, 'kwargs': {'sign_id': sign_id, 'hash_type': 1, 'witness_type': 'legacy'}, 'init': init,
         'result_is': result_is, 'pins': {'F-varstr-00': pin_varstr},
         'prepare': lambda self: {'self': _real_tx(self)},
         '__doc__': 'legacy SIGHASH_ALL preimage for input %d (%s) of a transaction with %d inputs and %d outputs' % (sign_id, script_type, n_in, n_out)}
    cls = type(name, (), d)
    return contract('bitcoinlib.transactions.Transaction.raw', case=name, props=('C01',))(cls)


LEGACY_CASES = [_legacy_case(a, b, c, st)._contract.key for a in (1, 2, 3) for b in (0, 1, 2) for c in range(a)
                for st in ('sig_pubkey', 'p2sh_multisig')]

_InRecLegacyAnyIndex = RecordOf(Input, prev_txid=Bytes(32), output_n=Bytes(4), sequence=Int(0, 2 ** 32 - 1), value=Int(0, MAX_MONEY),
                                script_type=Const('sig_pubkey'), witness_type=Const('legacy'), redeemscript=Bytes(max=10000),
                                locking_script=Bytes(max=10000), witnesses=Const([]), unlocking_script=Bytes(max=10000),
                                index_n=Int(0, 2 ** 32 - 1))


def _legacy_anyindex_case(n_in, k):
    """Transaction.raw selects the signed input by its index_n label, not by position: for every labelling of the inputs with distinct
    32-bit numbers (a transaction with many inputs reaches every label), asking for the label of input k gives the preimage with input
    k's script code.  The requested label is a separate argument that is merely EQUAL to the label (as the int produced by range() in
    Transaction.sign is)."""
    name = 'legacy-anyindex-in%d-sign%d' % (n_in, k)
    TxT = RecordOf(Transaction, version=Bytes(4), version_int=Int(0, 2 ** 32 - 1), locktime=Int(0, 2 ** 32 - 1), witness_type=Const('legacy'), size=Const(None),
                   inputs=FixedList(_InRecLegacyAnyIndex, n_in), outputs=FixedList(_OutRec, 1))

    def requires(self, sign_id):
        labels = [x.index_n for x in self.inputs]
        distinct = True
        for a in range(len(labels)):
            for b in range(a + 1, len(labels)):
                distinct = distinct and labels[a] != labels[b]
        return distinct and sign_id == labels[k]

    def result_is(self, sign_id):
        return sighash.legacy_all_preimage(int.from_bytes(self.version, 'big'), _abstract_inputs(self), _abstract_outputs(self), self.locktime,
                                           k, self.inputs[k].locking_script)

    def pin_varstr(self, sign_id, result):
        return result == sighash.legacy_all_preimage(int.from_bytes(self.version, 'big'), _abstract_inputs(self), _abstract_outputs(self),
                                                     self.locktime, k, self.inputs[k].locking_script, sighash.varstr_as_observed)

    d = {'params': {'self': TxT, 'sign_id': Int(0, 2 ** 32 - 1)}, 'kwargs': {'hash_type': 1, 'witness_type': 'legacy'}, 'requires': requires,
         'result_is': result_is, 'pins': {'F-varstr-00': pin_varstr},
         'prepare': lambda self, sign_id: {'self': _real_tx(self, keep_index=True)},
         '__doc__': 'legacy SIGHASH_ALL preimage for the input labelled sign_id (input %d of %d), any labelling' % (k, n_in)}
    return contract('bitcoinlib.transactions.Transaction.raw', case=name, props=('C01',))(type(name, (), d))


# --- any NUMBER of inputs and outputs: the loops of Transaction.raw under inductive invariants ------------------------------------
from pyvc.api import Position, fold
from bitcoinlib.transactions import Output as _Output

_InElemLegacy = RecordOf(Input, prev_txid=Bytes(32), output_n=Bytes(4), sequence=Int(0, 2 ** 32 - 1), value=Int(0, MAX_MONEY),
                         script_type=Const('sig_pubkey'), witness_type=Const('legacy'), redeemscript=Bytes(max=10000),
                         locking_script=Bytes(max=10000, ne=b'\x00'), witnesses=Const([]), unlocking_script=Bytes(max=10000),
                         index_n=Position())
_OutElem = RecordOf(_Output, value=Int(0, MAX_MONEY), lock_script=Bytes(max=10000, ne=b'\x00'))
_TxAnyCount = RecordOf(Transaction, version=Bytes(4), version_int=Int(0, 2 ** 32 - 1), locktime=Int(0, 2 ** 32 - 1), witness_type=Const('legacy'), size=Const(None),
                       inputs=ListOf(_InElemLegacy), outputs=ListOf(_OutElem))


def _raw_in_fold(self, sign_id, upto):
    """the input part of Transaction.raw after `upto` inputs - the SAME step functions the specifications use (spec/wire.py, spec/sighash.py):
    whole-transaction serialisation when sign_id is None, else the legacy signature-hash form (script code = redeem script for P2SH multisig
    inputs, else the locking script)"""
    if sign_id is None:
        return fold(wire.tx_in_step, b'', self.inputs, upto, key='tx-in')
    code = sighash.code_redeem if _elem_script_type(self) == 'p2sh_multisig' else sighash.code_locking
    return fold(sighash.in_step_legacy(sign_id, wire.ser_string, code), b'', self.inputs, upto, key='legacy-in')


def _elem_script_type(self):
    return self.inputs.elem.fields['script_type'].v if not isinstance(self.inputs, list) else (self.inputs[0].script_type if self.inputs else 'sig_pubkey')


def _raw_head(self, sign_id, witness_type):
    # marker and flag (BIP144) only in the whole-transaction form of a segwit transaction
    return self.version[::-1] + (b'\x00\x01' if sign_id is None and witness_type == 'segwit' else b'') + wire.compact_size(len(self.inputs))


@loop('bitcoinlib.transactions.Transaction.raw', 0,
      defines={'r': lambda self, sign_id, witness_type, k: _raw_head(self, sign_id, witness_type) + _raw_in_fold(self, sign_id, k),
               'r_witness': lambda self, k: fold(wire.tx_wit_step, b'', self.inputs, k, key='tx-wit')})
def raw_inputs_inv(self, k):
    """after k inputs r is the version, (marker, flag,) the input count and the serialisation of the first k inputs; r_witness the witness
    fields of the first k inputs"""
    return 0 <= k and k <= len(self.inputs)


@loop('bitcoinlib.transactions.Transaction.raw', 1,
      defines={'r': lambda self, sign_id, witness_type, k: (_raw_head(self, sign_id, witness_type) + _raw_in_fold(self, sign_id, len(self.inputs))
                                                           + wire.compact_size(len(self.outputs)) + fold(sighash.out_step(wire.ser_string), b'', self.outputs, k, key='tx-out'))})
def raw_outputs_inv(self, k):
    return 0 <= k and k <= len(self.outputs)


@contract('bitcoinlib.transactions.Transaction.raw', case='legacy-any-count', props=('C01',))
class raw_legacy_any_count:
    """legacy SIGHASH_ALL preimage for a transaction with ANY number of inputs and outputs (loop invariants, no unrolling), P2PKH-style
    inputs, every signed index.  Precondition: no script is the single byte 00 (that case is the pinned finding F-varstr-00 and is
    covered, with its pin, by the per-count cases)."""
    params = {'self': _TxAnyCount, 'sign_id': Int(0, 2 ** 32 - 1)}
    kwargs = {'hash_type': 1, 'witness_type': 'legacy'}

    def requires(self, sign_id):
        return sign_id < len(self.inputs) and len(self.inputs) < 2 ** 32 and len(self.outputs) < 2 ** 32

    def result_is(self, sign_id):
        return sighash.legacy_all_preimage_rec(int.from_bytes(self.version, 'big'), self.inputs, self.outputs, self.locktime, sign_id)

    def prepare(self, sign_id):
        return {'self': _real_tx(self)}

    def sample(rng):
        from pyvc.fuzz import sample as _s
        n_in = rng.choice([1, 1, 2, 3, 5, 8, 13])
        tx = _s(_TxAnyCount, rng)
        tx.fields['inputs'] = [_s(_InElemLegacy, rng) for _ in range(n_in)]
        tx.fields['outputs'] = [_s(_OutElem, rng) for _ in range(rng.choice([0, 1, 2, 3, 7]))]
        return {'self': tx, 'sign_id': rng.randrange(n_in)}


_InElemLegacyMs = RecordOf(Input, prev_txid=Bytes(32), output_n=Bytes(4), sequence=Int(0, 2 ** 32 - 1), value=Int(0, MAX_MONEY),
                           script_type=Const('p2sh_multisig'), witness_type=Const('legacy'), redeemscript=Bytes(max=10000, ne=b'\x00'),
                           locking_script=Bytes(max=10000), witnesses=Const([]), unlocking_script=Bytes(max=10000), index_n=Position())
_TxAnyCountMs = RecordOf(Transaction, version=Bytes(4), version_int=Int(0, 2 ** 32 - 1), locktime=Int(0, 2 ** 32 - 1), witness_type=Const('legacy'), size=Const(None),
                         inputs=ListOf(_InElemLegacyMs), outputs=ListOf(_OutElem))


@contract('bitcoinlib.transactions.Transaction.raw', case='legacy-multisig-any-count', props=('C01',))
class raw_legacy_ms_any_count:
    """as legacy-any-count, for P2SH multisig inputs: the script code at the signed input is its redeem script"""
    params = {'self': _TxAnyCountMs, 'sign_id': Int(0, 2 ** 32 - 1)}
    kwargs = {'hash_type': 1, 'witness_type': 'legacy'}

    def requires(self, sign_id):
        return sign_id < len(self.inputs) and len(self.inputs) < 2 ** 32 and len(self.outputs) < 2 ** 32

    def result_is(self, sign_id):
        return sighash.legacy_all_preimage_rec(int.from_bytes(self.version, 'big'), self.inputs, self.outputs, self.locktime, sign_id,
                                               code=sighash.code_redeem)

    def prepare(self, sign_id):
        return {'self': _real_tx(self)}

    def sample(rng):
        from pyvc.fuzz import sample as _s
        n_in = rng.choice([1, 1, 2, 3, 5, 8])
        tx = _s(_TxAnyCountMs, rng)
        tx.fields['inputs'] = [_s(_InElemLegacyMs, rng) for _ in range(n_in)]
        tx.fields['outputs'] = [_s(_OutElem, rng) for _ in range(rng.choice([0, 1, 2, 3, 7]))]
        return {'self': tx, 'sign_id': rng.randrange(n_in)}


_InElemFull = RecordOf(Input, prev_txid=Bytes(32), output_n=Bytes(4), sequence=Int(0, 2 ** 32 - 1), value=Int(0, MAX_MONEY),
                       script_type=Const('sig_pubkey'), witness_type=Const('legacy'), redeemscript=Bytes(max=10000),
                       locking_script=Bytes(max=10000), witnesses=Const([]), unlocking_script=Bytes(max=10000, ne=b'\x00'), index_n=Position())
_TxAnyCountFull = RecordOf(Transaction, version=Bytes(4), version_int=Int(0, 2 ** 32 - 1), locktime=Int(0, 2 ** 32 - 1), witness_type=Const('legacy'), size=Const(1),
                           inputs=ListOf(_InElemFull), outputs=ListOf(_OutElem))


@contract('bitcoinlib.transactions.Transaction.raw', case='full-legacy-any-count', props=('C06',))
class raw_full_any_count:
    """Transaction.raw() of a legacy (non-witness) transaction with ANY number of inputs and outputs is the wire format: version, input count,
    inputs (outpoint, var_str unlocking script, sequence), output count, outputs (value, var_str script), lock time.  Loop invariants, no
    unrolling.  Preconditions: no script is the single byte 00 (pinned finding F-varstr-00, covered with its pin by the per-count cases); the
    cached size is already set (the size side effect of raw() is not part of this case)."""
    params = {'self': _TxAnyCountFull}
    kwargs = {'sign_id': None, 'hash_type': 1, 'witness_type': None}

    def requires(self):
        return len(self.inputs) < 2 ** 32 and len(self.outputs) < 2 ** 32

    def result_is(self):
        return wire.ser_tx_rec(int.from_bytes(self.version, 'big'), self.inputs, self.outputs, self.locktime)

    def prepare(self):
        t = _real_tx(self)
        for k, x in enumerate(self.fields['inputs']):
            t.inputs[k].unlocking_script = x.fields['unlocking_script']
        t.size = 1
        return {'self': t}

    def sample(rng):
        from pyvc.fuzz import sample as _s
        tx = _s(_TxAnyCountFull, rng)
        tx.fields['inputs'] = [_s(_InElemFull, rng) for _ in range(rng.choice([0, 1, 2, 3, 5, 9]))]
        tx.fields['outputs'] = [_s(_OutElem, rng) for _ in range(rng.choice([0, 1, 2, 3, 7]))]
        return {'self': tx}


_InElemWit = RecordOf(Input, prev_txid=Bytes(32), output_n=Bytes(4), sequence=Int(0, 2 ** 32 - 1), value=Int(0, MAX_MONEY),
                      script_type=Const('sig_pubkey'), witness_type=Const('segwit'), redeemscript=Bytes(max=10000),
                      locking_script=Bytes(max=10000), witnesses=FixedList(Bytes(max=252, ne=b'\x00'), 2), unlocking_script=Bytes(max=10000, ne=b'\x00'), index_n=Position())
_TxAnyCountWit = RecordOf(Transaction, version=Bytes(4), version_int=Int(0, 2 ** 32 - 1), locktime=Int(0, 2 ** 32 - 1), witness_type=Const('segwit'), size=Const(1),
                          inputs=ListOf(_InElemWit), outputs=ListOf(_OutElem))


@contract('bitcoinlib.transactions.Transaction.raw', case='full-segwit-any-count', props=('C06',))
class raw_full_segwit_any_count:
    """Transaction.raw() of a segwit transaction with ANY number of inputs and outputs is the BIP144 wire format: version, marker 00, flag 01,
    input count, inputs (outpoint, var_str unlocking script - empty for native segwit, the redeem-script push for P2SH-wrapped -, sequence),
    output count, outputs, then for every input its witness field (item count and var_str items; two items per input here, as in P2WPKH),
    lock time.  Loop invariants for both accumulators (r and r_witness), no unrolling.  Preconditions: no script or witness item is the single
    byte 00 (pinned finding F-varstr-00, covered with its pin by the per-count cases); the cached size is already set."""
    params = {'self': _TxAnyCountWit}
    kwargs = {'sign_id': None, 'hash_type': 1, 'witness_type': None}

    def requires(self):
        return len(self.inputs) < 2 ** 32 and len(self.outputs) < 2 ** 32

    def result_is(self):
        return wire.ser_tx_segwit_rec(int.from_bytes(self.version, 'big'), self.inputs, self.outputs, self.locktime)

    def prepare(self):
        t = _real_tx(self)
        for k, x in enumerate(self.fields['inputs']):
            t.inputs[k].unlocking_script = x.fields['unlocking_script']
            t.inputs[k].witnesses = list(x.fields['witnesses'])
        t.size = 1
        return {'self': t}

    def sample(rng):
        from pyvc.fuzz import sample as _s
        tx = _s(_TxAnyCountWit, rng)
        tx.fields['inputs'] = [_s(_InElemWit, rng) for _ in range(rng.choice([0, 1, 2, 3, 5, 9]))]
        tx.fields['outputs'] = [_s(_OutElem, rng) for _ in range(rng.choice([0, 1, 2, 3, 7]))]
        return {'self': tx}


_InElemSegwit = RecordOf(Input, prev_txid=Bytes(32), output_n=Bytes(4), sequence=Int(0, 2 ** 32 - 1), value=Int(1, MAX_MONEY),
                         script_type=Const('sig_pubkey'), witness_type=Const('segwit'), redeemscript=Bytes(max=10000, ne=b'\x00', min=1),
                         locking_script=Bytes(max=10000), witnesses=Const([]), unlocking_script=Const(b''), index_n=Position())
_TxAnyCountSegwit = RecordOf(Transaction, version=Bytes(4), version_int=Int(0, 2 ** 32 - 1), locktime=Int(0, 2 ** 32 - 1), witness_type=Const('segwit'),
                             inputs=ListOf(_InElemSegwit), outputs=ListOf(_OutElem))


@loop('bitcoinlib.transactions.Transaction.signature_segwit', 0,
      defines={'prevouts_serialized': lambda self, k: fold(sighash.prevouts_step, b'', self.inputs, k, key='bip143-prevouts'),
               'sequence_serialized': lambda self, k: fold(sighash.sequences_step, b'', self.inputs, k, key='bip143-sequences')})
def segwit_inputs_inv(self, k):
    """after k inputs the two accumulators are the concatenated outpoints / sequences of the first k inputs"""
    return 0 <= k and k <= len(self.inputs)


@loop('bitcoinlib.transactions.Transaction.signature_segwit', 1,
      defines={'outputs_serialized': lambda self, k: fold(sighash.out_step(wire.ser_string), b'', self.outputs, k, key='tx-out')})
def segwit_outputs_inv(self, k):
    return 0 <= k and k <= len(self.outputs)


@contract('bitcoinlib.transactions.Transaction.signature_segwit', case='any-count', props=('C01',))
class segwit_any_count:
    """BIP143 preimage for a transaction with ANY number of inputs and outputs (loop invariants, no unrolling), every hash type byte, every
    signed index.  Preconditions as in the per-count cases (script code non-empty and not the single byte 00, input value > 0) plus: no
    output script is the single byte 00 (pinned finding F-varstr-00, covered with its pin by the per-count cases)."""
    params = {'self': _TxAnyCountSegwit, 'sign_id': Int(0, 2 ** 32 - 1), 'hash_type': Int(0, 255)}

    def requires(self, sign_id, hash_type):
        return sign_id < len(self.inputs) and len(self.inputs) < 2 ** 32 and len(self.outputs) < 2 ** 32

    def result_is(self, sign_id, hash_type):
        return sighash.bip143_preimage_rec(int.from_bytes(self.version, 'big'), self.inputs, self.outputs, self.locktime, sign_id, hash_type)

    def prepare(self, sign_id, hash_type):
        return {'self': _real_tx(self)}

    def sample(rng):
        from pyvc.fuzz import sample as _s
        n_in = rng.choice([1, 1, 2, 3, 5, 8, 13])
        tx = _s(_TxAnyCountSegwit, rng)
        tx.fields['inputs'] = [_s(_InElemSegwit, rng) for _ in range(n_in)]
        tx.fields['outputs'] = [_s(_OutElem, rng) for _ in range(rng.choice([0, 1, 2, 3, 7, 14]))]
        return {'self': tx, 'sign_id': rng.randrange(n_in), 'hash_type': rng.choice([1, 1, 1, 2, 3, 0x81, 0x82, 0x83, rng.randrange(256)])}


LEGACY_ANYINDEX_CASES = [_legacy_anyindex_case(a, c)._contract.key for a in (1, 2, 3) for c in range(a)]


def _sighash_case(tx_witness, arg_witness):
    """Transaction.signature_hash dispatch: which preimage is hashed for which (transaction, requested) witness type"""
    name = 'dispatch-tx_%s-arg_%s' % (tx_witness, arg_witness)
    use_segwit = (arg_witness or tx_witness) in ('segwit', 'p2sh-segwit')
    TxT = RecordOf(Transaction, version=Bytes(4), version_int=Int(0, 2 ** 32 - 1), locktime=Int(0, 2 ** 32 - 1), witness_type=Const(tx_witness), size=Const(None),
                   inputs=FixedList(_InRec if use_segwit else _InRecLegacy, 1), outputs=FixedList(_OutRec, 1))

    def init(self):
        self.inputs[0].index_n = 0

    def requires(self):
        x = self.inputs[0]
        return len(x.redeemscript) > 0 and x.redeemscript != b'\x00' and x.locking_script != b'\x00' and self.outputs[0].lock_script != b'\x00'

    def result_is(self):
        x = self.inputs[0]
        v = int.from_bytes(self.version, 'big')
        if use_segwit:
            pre = sighash.bip143_preimage(v, _abstract_inputs(self), _abstract_outputs(self), self.locktime, 0, x.redeemscript, x.value, 1)
        else:
            pre = sighash.legacy_all_preimage(v, _abstract_inputs(self), _abstract_outputs(self), self.locktime, 0, x.locking_script)
        return sighash.dsha(pre)

    d = {'params': {'self': TxT}, 'kwargs': {'sign_id': 0, 'hash_type': 1, 'witness_type': arg_witness}, 'init': init, 'requires': requires,
         'result_is': result_is, 'prepare': lambda self: {'self': _real_tx(self)},
         '__doc__': 'signature_hash(0, SIGHASH_ALL, %r) on a %s transaction is the double-SHA256 of the %s preimage'
                    % (arg_witness, tx_witness, 'BIP143' if use_segwit else 'legacy')}
    return contract('bitcoinlib.transactions.Transaction.signature_hash', case=name, props=('C01', 'C02'))(type(name, (), d))


DISPATCH_CASES = [_sighash_case(a, b)._contract.key for a, b in [('segwit', None), ('segwit', 'segwit'), ('segwit', 'p2sh-segwit'),
                                                                 ('segwit', 'legacy'), ('legacy', None), ('legacy', 'legacy')]]


# ---------------------------------------------------------------------------------------------------
# C06: full serialisation Transaction.raw() (sign_id None) against spec.wire.ser_tx, bounded in the counts (unrolled), every
# field symbolic.  Witness items and scripts of any length.

def _full_case(n_in, n_out, segwit, n_wit):
    name = 'full-%s-in%d-out%d%s' % ('segwit' if segwit else 'legacy', n_in, n_out, ('-wit%d' % n_wit) if segwit else '')
    InT = RecordOf(Input, prev_txid=Bytes(32), output_n=Bytes(4), sequence=Int(0, 2 ** 32 - 1), script_type=Const('sig_pubkey'),
                   witness_type=Const('segwit' if segwit else 'legacy'), unlocking_script=Bytes(max=10000),
                   witnesses=FixedList(Bytes(max=10000), n_wit if segwit else 0), index_n=Int(0, 10))
    TxT = RecordOf(Transaction, version=Bytes(4), version_int=Int(0, 2 ** 32 - 1), locktime=Int(0, 2 ** 32 - 1), witness_type=Const('segwit' if segwit else 'legacy'), size=Const(1),
                   inputs=FixedList(InT, n_in), outputs=FixedList(_OutRec, n_out))

    def view(self):
        ins = [(x.prev_txid[::-1], int.from_bytes(x.output_n, 'big'), x.unlocking_script, x.sequence, x.witnesses) for x in self.inputs]
        return int.from_bytes(self.version, 'big'), ins, _abstract_outputs(self), self.locktime

    def result_is(self):
        v, ins, outs, lt = view(self)
        return wire.ser_tx(v, ins, outs, lt, segwit)

    def pin_varstr(self, result):
        v, ins, outs, lt = view(self)
        return result == wire.ser_tx(v, ins, outs, lt, segwit, sighash.varstr_as_observed)

    d = {'params': {'self': TxT}, 'kwargs': {'sign_id': None, 'witness_type': None}, 'result_is': result_is, 'pins': {'F-varstr-00': pin_varstr},
         'native_skip': True,
         '__doc__': 'Transaction.raw() of a %s transaction with %d inputs%s and %d outputs is the wire serialisation (BIP144 when segwit)'
                    % ('segwit' if segwit else 'legacy', n_in, (' with %d witness items each' % n_wit) if segwit else '', n_out)}
    return contract('bitcoinlib.transactions.Transaction.raw', case=name, props=('C06',))(type(name.replace('-', '_'), (), d))


FULL_CASES = ([_full_case(a, b, False, 0)._contract.key for a in (1, 2) for b in (1, 2)]
              + [_full_case(a, b, True, w)._contract.key for a in (1, 2) for b in (1, 2) for w in (1, 2)])


# ---------------------------------------------------------------------------------------------------
# C01: the script code / scripts Input.update_scripts derives from the keys (what signature_segwit / raw(sign_id) then
# put into the preimage), per input kind; keys symbolic, no signatures yet.

from bitcoinlib.keys import Key as _Key
from spec import script as _sps, bip32 as _b32

_KeyRec = RecordOf(_Key, public_byte=Bytes(33), compressed=Const(True), is_private=Const(False), _hash160=Const(None))


def _scripts_case(script_type, witness_type, nkeys, prior_lock=False):
    name = 'scripts-%s-%s-%dkeys%s' % (script_type, witness_type, nkeys, '-priorlock' if prior_lock else '')
    # prior_lock: the caller supplied a locking script (e.g. the scriptPubKey of the spent output, as add_input(locking_script=...) allows): ANY bytes
    InT = RecordOf(Input, script_type=Const(script_type), witness_type=Const(witness_type), keys=FixedList(_KeyRec, nkeys), signatures=Const([]),
                   public_hash=Const(b''), locking_script=Bytes(max=100) if prior_lock else Const(b''), unlocking_script=Const(b''), redeemscript=Const(b''), witnesses=Const([]),
                   sigs_required=Int(1, nkeys), strict=Const(True), address=Const('(address is the subject of C04)'), network=Const(None), encoding=Const(None), compressed=Const(True),
                   script=Const(None), locktime_cltv=Const(None), locktime_csv=Const(None))

    def requires(self):
        return all(k.public_byte[0] == 2 or k.public_byte[0] == 3 for k in self.keys)

    def ensures(self, result):
        pk = [k.public_byte for k in self.keys]
        if script_type == 'sig_pubkey':
            h = _b32.hash160(pk[0])
            code = b'\x76\xa9\x14' + h + b'\x88\xac'               # P2PKH script = BIP143 script code of P2WPKH
            ok = self.locking_script == code and self.public_hash == h
            if witness_type == 'p2sh-segwit':
                ok = ok and self.unlocking_script == b'\x16\x00\x14' + h          # push of the witness program 0014<hash>
            if witness_type == 'segwit':
                ok = ok and self.unlocking_script == b''
            return ok
        redeem = _sps.multisig_redeem(self.sigs_required, pk)
        if witness_type == 'legacy':
            return self.redeemscript == redeem and self.public_hash == _b32.hash160(redeem)
        import hashlib
        return self.redeemscript == redeem and self.public_hash == hashlib.sha256(redeem).digest()

    d = {'params': {'self': InT}, 'kwargs': {'hash_type': 1}, 'requires': requires, 'ensures': ensures, 'native_skip': True,
         'modifies_attrs': True,
         '__doc__': 'Input.update_scripts for a %s / %s input with %d key(s): the script code and key hash consensus expects for that input kind'
                    % (script_type, witness_type, nkeys)}
    return contract('bitcoinlib.transactions.Input.update_scripts', case=name, props=('C01', 'C10'))(type(name.replace('-', '_'), (), d))


SCRIPT_CODE_CASES = ([_scripts_case('sig_pubkey', w, 1)._contract.key for w in ('legacy', 'segwit', 'p2sh-segwit')]
                     + [_scripts_case('sig_pubkey', w, 1, prior_lock=True)._contract.key for w in ('legacy', 'segwit', 'p2sh-segwit')]
                     + [_scripts_case('p2sh_multisig', w, n)._contract.key for w in ('legacy', 'segwit', 'p2sh-segwit') for n in (2, 3)])


# ---------------------------------------------------------------------------------------------------
# C02: Transaction.verify - every input is verified under its OWN digest; bounded in the number of inputs (unrolled).

def _m_input_verify(ip, args, kwargs):
    from contracts import external
    inp, h = args[0], args[1]
    if isinstance(inp, Rec_) and 'ghost_id' in inp.attrs:
        return SBool(external.uf(ip.ctx, 'input_ok', [inp.attrs['ghost_id'], h], z3.BoolSort()))
    return NotImplemented


def _m_signature_hash(ip, args, kwargs):
    from pyvc import models
    tx = args[0]
    if isinstance(tx, Rec_) and tx.attrs.get('ghost_tx'):
        a = list(args[1:]) + [kwargs.get(k) for k in ('sign_id', 'hash_type', 'witness_type') if k in kwargs]
        a = [x if x is not None else 0 for x in a[:3]]
        wt = a[2] if len(a) > 2 else 0
        a[2:] = [{'legacy': 1, 'segwit': 2, 'p2sh-segwit': 3}.get(wt, 0) if isinstance(wt, str) else wt]
        return models.uf_bytes(ip.ctx, 'sighash', a, 32)
    return NotImplemented


from pyvc.values import Rec as Rec_


def _install_verify(reg):
    def wrap(fn, model):
        def m(ip, args, kwargs):
            r = model(ip, args, kwargs)
            if r is NotImplemented:
                return ip.call_pyfunc_body(fn, args, kwargs)
            return r
        return m
    reg.models[Input.verify] = wrap(Input.verify, _m_input_verify)
    reg.models[Transaction.signature_hash] = wrap(Transaction.signature_hash, _m_signature_hash)


INSTALLERS.append(_install_verify)


def _tx_verify_case(n):
    name = '%dinputs' % n
    InV = RecordOf(Input, index_n=Int(0, 100), hash_type=Int(1, 255), witness_type=Const('segwit'), ghost_id=Int(0, 10 ** 6), valid=Bool)   # valid: whatever an earlier verify() left behind
    TxT = RecordOf(Transaction, inputs=FixedList(InV, n), verified=Const(None), ghost_tx=Const(True))

    def ensures(self, result):
        from contracts.transactions import _spec_input_ok
        oks = [_spec_input_ok(self, x) for x in self.inputs]
        return result == all(oks)

    d = {'params': {'self': TxT}, 'ensures': ensures, 'native_skip': True,
         '__doc__': 'Transaction.verify over %d inputs: True exactly when every input verifies under the digest computed for ITS index, hash type and witness type' % n}
    return contract('bitcoinlib.transactions.Transaction.verify', case=name, props=('C02',))(type('txverify_%d' % n, (), d))


def _spec_input_ok(tx, inp):
    """abstract: input `inp` verifies under the digest of (inp.index_n, inp.hash_type, inp.witness_type)"""
    h = Transaction.signature_hash(tx, inp.index_n, inp.hash_type, inp.witness_type)
    return Input.verify(inp, h)


TX_VERIFY_CASES = [_tx_verify_case(n)._contract.key for n in (1, 2, 3)]


# any number of inputs: loop invariant "every input before k verified under its own digest"
_InVElem = RecordOf(Input, index_n=Position(), hash_type=Int(1, 255), witness_type=Const('segwit'), ghost_id=Int(0, 10 ** 6), valid=Bool)   # valid: whatever an earlier verify() left behind


@loop('bitcoinlib.transactions.Transaction.verify', 0, modifies=('self.verified',), havoc_types={'self.verified': Bool})
def tx_verify_inv(self, k):
    return 0 <= k and k <= len(self.inputs) and forall(0, k, lambda j: _spec_input_ok(self, self.inputs[j]))


@contract('bitcoinlib.transactions.Transaction.verify', case='any-count', props=('C02',))
class tx_verify_any_count:
    """Transaction.verify over ANY number of inputs (loop invariant): True exactly when every input verifies under the digest computed for ITS
    own index, hash type and witness type; the verified flag is set accordingly."""
    params = {'self': RecordOf(Transaction, inputs=ListOf(_InVElem), verified=Const(None), ghost_tx=Const(True))}
    native_skip = True

    def ensures(self, result):
        return result == forall(0, len(self.inputs), lambda j: _spec_input_ok(self, self.inputs[j])) and self.verified == result
