"""Lemma contracts on the specification functions themselves: the facts that are assumed whenever an @opaque spec
function is kept abstract at a call site are proved here on the function bodies, for every argument length up to the
stated maximum (all facts are vacuous beyond it)."""
from pyvc.api import contract, Bytes, Int
from spec import script as sp


@contract('spec.script.script_num_decode', case='facts', props=('C19', 'C18'))
class script_num_decode_facts:
    params = {'b': Bytes(max=9, split=True)}

    def ensures(b, result):
        return all(sp._num_facts(b, result))


@contract('spec.script.cast_to_bool', case='facts', props=('C19',))
class cast_to_bool_facts:
    params = {'b': Bytes(max=9, split=True)}

    def ensures(b, result):
        return all(sp._bool_facts(b, result))
