"""C13: contracts on the ECDSA glue in bitcoinlib/keys.py (Signature.create / __init__ / verify / parse_bytes).
The curve arithmetic itself is third-party (fastecdsa) and enters through the assumed models of contracts/external.py;
what is verified is everything the library adds around it: nonce derivation data-flow, low-S normalisation, range
checks, which digest / key / (r, s) reach the verifier."""
import hashlib

from pyvc.api import contract, Int, Bytes, Bool, Str, RecordOf, Const, implies
from bitcoinlib.keys import Signature, Key, HDKey, BKeyError
from bitcoinlib.config.secp256k1 import secp256k1_n as N, secp256k1_p as P, secp256k1_a as A, secp256k1_b as B, \
    secp256k1_Gx as GX, secp256k1_Gy as GY
from fastecdsa import _ecdsa
from fastecdsa.util import RFC6979
from fastecdsa.curve import secp256k1 as fcurve

HALF = (N - 1) // 2


def _sign_spec(z_hex, d, k):
    """standard ECDSA (r, s) with the low-S representative"""
    r0, s0 = _ecdsa.sign(z_hex, str(d), str(k), str(P), str(A), str(B), str(N), str(GX), str(GY))
    r0 = int(r0)
    s0 = int(s0)
    return r0, (s0 if s0 <= HALF else N - s0)


_KeyT = RecordOf(Key, secret=Int(1, N - 1), x=Int(0, P - 1), y=Int(0, P - 1), is_private=Const(True), compressed=Const(True),
                 private_byte=Const(None), private_hex=Const(None), _wif=Const(None), public_byte=Const(None), public_hex=Const(None))


def _real_key(private):
    return {'private': private if isinstance(private, Key) else Key(private.fields['secret'])}


@contract('bitcoinlib.keys.Signature.create', case='rfc6979', props=('C13',))
class create_rfc6979:
    """Without an explicit nonce the signature is the standard ECDSA signature of (digest, secret) under the RFC 6979
    nonce of that same digest and secret, with s replaced by n - s exactly when s > (n-1)/2."""
    params = {'txid': Bytes(32), 'private': _KeyT}
    prepare = _real_key

    def requires(txid, private):
        return fcurve.is_point_on_curve((private.x, private.y))

    def ensures(txid, private, result):
        z = txid.hex()
        k = RFC6979(z, private.secret, N, hashlib.sha256).gen_nonce()
        r, s = _sign_spec(z, private.secret, k)
        return result.r == r and result.s == s and 1 <= result.s <= HALF and 1 <= result.r < N and result.k == k


@contract('bitcoinlib.keys.Signature.create', case='explicit-k', props=('C13',))
class create_explicit_k:
    """A supplied nonce is used unchanged; low-S normalisation as above."""
    params = {'txid': Bytes(32), 'private': _KeyT, 'k': Int(1, N - 1)}
    prepare = _real_key

    def requires(txid, private, k):
        return fcurve.is_point_on_curve((private.x, private.y))

    def ensures(txid, private, k, result):
        r, s = _sign_spec(txid.hex(), private.secret, k)
        return result.r == r and result.s == s and 1 <= result.s <= HALF

    def sample(rng):
        # nonces for which the raw s is just above (n-1)/2 are astronomically rare at random: construct them.
        # s = k^-1 (z + r d) mod n  =>  z = (s k - r d) mod n for a chosen s
        from bitcoinlib.keys import ec_point
        d = rng.randrange(1, N)
        k = rng.randrange(1, N)
        r = ec_point(k).x % N if hasattr(ec_point(k), 'x') else ec_point(k)[0] % N
        s = rng.choice([HALF + 1, HALF + 2, HALF, 2 ** 255, 2 ** 255 - 1, rng.randrange(1, N)])
        z = (s * k - r * d) % N
        return {'txid': z.to_bytes(32, 'big'), 'private': Key(d), 'k': k}


@contract('bitcoinlib.keys.Signature.__init__', props=('C13',))
class sig_init:
    """(r, s) outside [1, n-1] is refused; otherwise the object carries exactly r and s."""
    params = {'self': RecordOf(Signature), 'r': Int, 's': Int}
    raises_iff = {BKeyError: lambda r, s: not (1 <= r and r < N and 1 <= s and s < N)}

    def build(self, r, s):
        return (lambda: Signature(r, s)), [], {}

    def ensures(self, r, s, result):
        return True if result is not None and not hasattr(result, 'r') else (self if result is None else result).r == r and \
            (self if result is None else result).s == s


def _verify_args(self, txid):
    return (str(self.r), str(self.s), txid.hex(), str(self.x), str(self.y), str(P), str(A), str(B), str(N), str(GX), str(GY))


_SigT = RecordOf(Signature, r=Int(1, N - 1), s=Int(1, N - 1), x=Int(0, P - 1), y=Int(0, P - 1), _txid=Str(64),
                 _public_key=RecordOf(Key, is_private=Const(False), public_byte=Bytes(33)), secret=Const(None), k=Const(None))


@contract('bitcoinlib.keys.Signature.verify', case='digest-given', props=('C13', 'C02'))
class sig_verify:
    """verify(digest) is exactly ECDSA verification of (r, s) against the digest *passed in* and the stored public point -
    whatever digest the object remembered from signing or from an earlier verification."""
    params = {'self': _SigT, 'txid': Bytes(32)}

    def ensures(self, txid, result):
        return result == _ecdsa.verify(*_verify_args(self, txid))

    def prepare(self, txid):
        if isinstance(self, Signature):
            return {'self': self}
        f = self.fields
        sig = Signature(f['r'], f['s'], txid=f['_txid'])
        sig.x, sig.y = f['x'], f['y']
        sig._public_key = object()
        return {'self': sig}

    def sample(rng):
        # a genuinely valid signature that already remembers the digest it was made for; then ask about another digest
        d = rng.randrange(1, N)
        key = Key(d)
        z1 = bytes(rng.getrandbits(8) for _ in range(32))
        sig = Signature.create(z1, key)
        z2 = z1 if rng.random() < 0.3 else bytes(rng.getrandbits(8) for _ in range(32))
        return {'self': sig, 'txid': z2}


@contract('bitcoinlib.keys.verify', case='signature-object', props=('C13', 'C02'))
class verify_wrapper:
    """keys.verify(digest, Signature object) adds nothing to and removes nothing from ECDSA verification of the passed digest."""
    params = {'signature': _SigT, 'txid': Bytes(32)}

    def ensures(signature, txid, result):
        return result == _ecdsa.verify(*_verify_args(signature, txid))

    def prepare(signature, txid):
        return {'signature': sig_verify.prepare(signature, txid)['self']}

    def sample(rng):
        e = sig_verify.sample(rng)
        return {'signature': e['self'], 'txid': e['txid']}


@contract('bitcoinlib.keys.Signature.parse_bytes', case='der', props=('C13',))
class parse_der:
    """Parsing the DER encoding of (r, s) followed by a hash-type byte gives back r, s and the hash type."""
    params = {'r': Int(1, N - 1), 's': Int(1, N - 1), 'ht': Int(0, 255)}

    def call(r, s, ht):
        from bitcoinlib.encoding import der_encode_sig
        return {'signature': der_encode_sig(r, s) + bytes([ht])}

    def ensures(r, s, ht, result):
        return result.r == r and result.s == s and result.hash_type == ht


@contract('bitcoinlib.keys.Signature.parse_bytes', case='raw64', props=('C13',))
class parse_raw:
    """A 64-byte r||s string parses to exactly that r and s; values outside [1, n-1] are refused."""
    params = {'signature': Bytes(64)}
    raises_iff = {BKeyError: lambda signature: not (1 <= int.from_bytes(signature[:32], 'big') < N and 1 <= int.from_bytes(signature[32:], 'big') < N)}

    def ensures(signature, result):
        return result.r == int.from_bytes(signature[:32], 'big') and result.s == int.from_bytes(signature[32:], 'big')


def _der_int(v):
    b = v.to_bytes(max((v.bit_length() + 7) // 8, 1), 'big')
    if b[0] & 0x80:
        b = b'\x00' + b
    return b'\x02' + bytes([len(b)]) + b


def _der_sig(r, s, hash_type=1):
    body = _der_int(r) + _der_int(s)
    return b'\x30' + bytes([len(body)]) + body + bytes([hash_type])


@contract('bitcoinlib.encoding.der_encode_sig', case='strict-der-native', props=('C13',))
class der_encode_sig_native:
    """The DER encoder the library hands every produced signature to (third-party DEREncoder / ecdsa.der, outside the modelled subset, hence native
    evaluation only - bounded, not proved): for 1 <= r, s < n the result is exactly the strict-DER (BIP66) encoding 30 len 02 len r 02 len s with
    minimal big-endian integers (a leading zero byte only when the top bit is set), as built by the independent encoder above; and
    convert_der_sig maps it back to r || s as 2 x 32 bytes."""
    params = {'r': Int(1, N - 1), 's': Int(1, N - 1)}
    native_only = True
    bounded = 'r, s random in [1, n-1] plus widths that move the sign byte / leading-zero boundary (top bit set or clear, 1..32 significant bytes)'

    def build(r, s):
        from bitcoinlib.encoding import der_encode_sig, convert_der_sig

        def run():
            d = der_encode_sig(r, s)
            return (bytes(d), convert_der_sig(d, as_hex=False))
        return run, [], {}

    def ensures(r, s, result):
        return result == (_der_sig(r, s)[:-1], r.to_bytes(32, 'big') + s.to_bytes(32, 'big'))

    def sample(rng):
        def pick():
            k = rng.random()
            if k < 0.4:
                return rng.randrange(1, N)
            bits = rng.choice([1, 7, 8, 9, 15, 16, 127, 128, 129, 247, 248, 249, 255, 256])
            return max(1, min(N - 1, rng.randrange(2 ** (bits - 1), 2 ** bits)))
        return {'r': pick(), 's': pick()}


@contract('bitcoinlib.keys.Signature.parse_bytes', case='der-native', props=('C13',))
class parse_der_native:
    """DER + hash type signatures (native evaluation only: the DER decoder is third-party code outside the modelled subset): a well-formed
    encoding of (r, s) with 1 <= r, s < n parses to exactly that r, s and hash type; encodings of r or s that are 0, >= n, or wider than 256
    bits are refused - never re-interpreted as some other pair."""
    params = {'r': Int(0, 2 ** 300), 's': Int(0, 2 ** 300), 'hash_type': Int(1, 0x83)}
    native_only = True
    bounded = 'r, s drawn from {valid range, 0, n, n + small, 2^256 + valid, valid + (valid << 256)}; DER built by an independent encoder'

    def build(r, s, hash_type):
        from bitcoinlib.keys import Signature

        def run():
            raw = _der_sig(r, s, hash_type)
            if len(raw) <= 64:
                return 'short'          # Signature.parse_bytes only takes DER input longer than 64 bytes (shorter valid encodings are rare; not part of this case)
            try:
                sg = Signature.parse_bytes(raw)
                return (sg.r, sg.s, sg.hash_type)
            except Exception as e:
                return 'refused'
        return run, [], {}

    def ensures(r, s, hash_type, result):
        if result == 'short':
            return True
        if 1 <= r < N and 1 <= s < N:
            return result == (r, s, hash_type)
        return result == 'refused'

    def sample(rng):
        def pick():
            k = rng.random()
            good = rng.randrange(2 ** 200, N)
            if k < 0.5:
                return good
            return rng.choice([0, N, N + rng.randrange(1, 1000), 2 ** 256 + good, good + (rng.randrange(1, N) << 256), good + (good << 256), 2 ** 256 - 1])
        r, s = pick(), pick()
        if rng.random() < 0.3:
            r = rng.randrange(2 ** 200, N)
            s = rng.randrange(2 ** 200, N) + (r << 256)        # high part of s only sets bits that r has
        return {'r': r, 's': s, 'hash_type': rng.choice([1, 1, 2, 3, 0x81])}


@contract('bitcoinlib.keys.verify', case='forged-for-offcurve-key-native', props=('C13',))
class verify_offcurve_forgery:
    """a signature constructed WITHOUT any private key for a public key that is not a point of the curve - the pair (0, 0), which point
    arithmetic treats as neutral, or (1, 2), which lies on y^2 = x^3 + 3 - is never accepted, through verify() and Signature.verify(), with the
    key given as a Key object (standard ECDSA refuses such keys before anything else)"""
    params = {'z': Int(0, N - 1), 't': Int(1, N - 1), 'which': Int(0, 3)}
    native_only = True
    bounded = 'random digests / multipliers; two off-curve keys; key passed as Key object'

    def build(z, t, which):
        from spec import ec as _ec
        from bitcoinlib.keys import verify as _verify

        def run():
            if which % 2 == 0:
                # Q = (0, 0): u1*G + u2*Q = u1*G, so any (r, s) with r = ((z/s)*G).x verifies arithmetically
                q, s = (0, 0), t
                r = _ec.mul_g(z * pow(s, -1, N) % N)[0] % N if z else 0
                digest = z
            else:
                # Q = (1, 2), digest 0: r = (t*Q).x, s = r/t (the affine formulas do not involve the curve constant b)
                q = (1, 2)
                pt = _ec.mul(t, q)
                r = pt[0] % N if pt else 0
                s = r * pow(t, -1, N) % N
                digest = 0
            if not (0 < r < N and 0 < s < N):
                return 'not constructible'
            try:
                key = Key('04' + '%064x%064x' % q)
            except Exception:
                return 'key refused'
            try:
                sig = Signature(r, s)
                if which < 2:
                    return bool(_verify(digest.to_bytes(32, 'big'), sig, key))
                return bool(sig.verify(digest.to_bytes(32, 'big'), key))
            except Exception:
                return 'refused'
        return run, [], {}

    def ensures(z, t, which, result):
        return result is not True
