"""ASSUMED contracts of third-party code (DESIGN §2.5, §2.7): fastecdsa, os.urandom / SystemRandom.  Each is a model
used at call sites; none of it is verified.  Results are uninterpreted functions of exactly the arguments the real
call receives, so the verified glue code is checked for *what it passes and what it does with the answer*."""
import z3

from pyvc.values import *
from pyvc import ops, models
from pyvc.ops import wrap_int, wrap_bool, int_term, pyraise
from pyvc.ctx import Unsupported

N = 0xFFFFFFFFFFFFFFFFFFFFFFFFFFFFFFFEBAAEDCE6AF48A03BBFD25E8CD0364141
TRUSTED = []


def _norm(v):
    """hex strings are identified with the bytes they denote; decimal strings with their integer"""
    if isinstance(v, SStr) and getattr(v, 'hex_src', None) is not None:
        return v.hex_src
    if isinstance(v, str):
        if v.lstrip('-').isdigit() and not (len(v) == 64):
            return int(v)
        try:
            if len(v) % 2 == 0 and v == v.lower():
                return bytes.fromhex(v)
        except ValueError:
            pass
    return v


def uf(ctx, name, args, sort):
    sig, sorts, terms = models.uf_args([_norm(a) for a in args])
    f = z3.Function('%s<%s>' % (name, sig), *(sorts + [sort]))
    ctx.ufs.add(name)
    return f(*terms)


def m_ecdsa_sign(ip, args, kwargs):
    """fastecdsa._ecdsa.sign(z_hex, d, k, curve...) -> (r, s) decimal strings; ASSUMED: standard ECDSA, 1 <= r, s < n"""
    ctx = ip.ctx
    z, d, k = args[0], args[1], args[2]
    r = uf(ctx, 'ecdsa_sign_r', [z, d, k], z3.IntSort())
    s = uf(ctx, 'ecdsa_sign_s', [z, d, k], z3.IntSort())
    ctx.fact(z3.And(r >= 1, r < N, s >= 1, s < N))
    ctx.ghost.setdefault('ecdsa_sign_calls', []).append({'z': z, 'd': d, 'k': k})
    return (models.SDecStr(r), models.SDecStr(s))


def m_ecdsa_verify(ip, args, kwargs):
    """fastecdsa._ecdsa.verify(r, s, z_hex, qx, qy, curve...) -> bool; ASSUMED: standard ECDSA verification"""
    ctx = ip.ctx
    r, s, z, x, y = args[:5]
    ctx.ghost.setdefault('ecdsa_verify_calls', []).append({'r': r, 's': s, 'z': z, 'x': x, 'y': y})
    return SBool(uf(ctx, 'ecdsa_verify', [r, s, z, x, y], z3.BoolSort()))


class RFCObj(Sym):
    pytype = object

    def __init__(self, z, d):
        self.z, self.d = z, d


def m_rfc6979(ip, args, kwargs):
    return RFCObj(args[0], args[1])


def rfc_method(ip, obj, name, args, kwargs):
    if name == 'gen_nonce':
        k = uf(ip.ctx, 'rfc6979_nonce', [obj.z, obj.d], z3.IntSort())
        ip.ctx.fact(z3.And(k >= 1, k < N))
        return SInt(k)
    raise Unsupported('RFC6979.%s' % name)


def m_on_curve(ip, args, kwargs):
    x, y = args[0]
    return wrap_bool(uf(ip.ctx, 'on_curve', [x, y], z3.BoolSort()))


def m_der_encode(ip, args, kwargs):
    """DEREncoder.encode_signature(r, s): ASSUMED strict DER of (r, s); length 8..72"""
    ctx = ip.ctx
    r, s = args
    app = uf(ctx, 'der_encode', [r, s], IntSeq)
    ln = uf(ctx, 'der_encode.len', [r, s], z3.IntSort())
    ctx.fact(z3.And(ln >= 8, ln <= 72))
    ctx.couple(app, ln)
    return SBytes(seq=SeqPart(app, ln))


def m_der_decode(ip, args, kwargs):
    """DEREncoder.decode_signature(b): ASSUMED inverse of encode_signature; raises on anything that is not strict DER"""
    ctx = ip.ctx
    b = ops.as_sseq(args[0])
    t = z3.simplify(b.seq_term())
    if z3.is_app(t) and t.decl().name().startswith('der_encode<'):
        return (wrap_int(t.arg(0)), wrap_int(t.arg(1)))
    ok = uf(ctx, 'der_is_strict', [b], z3.BoolSort())
    if not ctx.branch(ok):
        from fastecdsa.encoding.der import InvalidDerSignature
        pyraise(InvalidDerSignature, 'invalid DER')
    r = uf(ctx, 'der_decode_r', [b], z3.IntSort())
    s = uf(ctx, 'der_decode_s', [b], z3.IntSort())
    ctx.fact(z3.And(r >= 0, s >= 0))
    return (SInt(r), SInt(s))


class EntropyObj(Sym):
    pytype = object


def m_systemrandom(ip, args, kwargs):
    return EntropyObj()


def entropy_method(ip, obj, name, args, kwargs):
    ctx = ip.ctx
    if name == 'randint':
        v = ctx.fresh_int('entropy_randint')
        ctx.fact(z3.And(v >= int_term(args[0]), v <= int_term(args[1])))
        ctx.ghost['entropy_draws'] = ctx.ghost.get('entropy_draws', 0) + 1
        return SInt(v)
    raise Unsupported('SystemRandom.%s' % name)


def m_urandom(ip, args, kwargs):
    ctx = ip.ctx
    n = args[0]
    if not isinstance(n, int):
        raise Unsupported('os.urandom(symbolic)')
    ctx.ghost['entropy_draws'] = ctx.ghost.get('entropy_draws', 0) + 1
    items = []
    for i in range(n):
        c = ctx.fresh_int('urandom%d[%d]' % (ctx.ghost['entropy_draws'], i))
        ctx.byte_fact(c)
        items.append(c)
    return SBytes(items=items)


def install(reg):
    import os
    import random
    M = reg.models
    try:
        from fastecdsa import _ecdsa
        from fastecdsa.util import RFC6979
        from fastecdsa.curve import secp256k1 as fcurve
        from fastecdsa.encoding.der import DEREncoder
        M[_ecdsa.sign] = m_ecdsa_sign
        M[_ecdsa.verify] = m_ecdsa_verify
        M[RFC6979] = m_rfc6979
        M[fcurve.is_point_on_curve] = m_on_curve
        M[DEREncoder.encode_signature] = m_der_encode
        M[DEREncoder.decode_signature] = m_der_decode
    except ImportError:
        pass
    M[random.SystemRandom] = m_systemrandom
    M[os.urandom] = m_urandom
    reg.sym_methods[RFCObj] = rfc_method
    reg.sym_methods[EntropyObj] = entropy_method
    install_ec(reg)
    install_path(reg)
    install_helpers(reg)
    install_amounts(reg)


TRUSTED = ['fastecdsa._ecdsa.sign / verify implement standard secp256k1 ECDSA (uninterpreted: ecdsa_sign_r/s, ecdsa_verify)',
           'fastecdsa.util.RFC6979.gen_nonce is the RFC 6979 nonce of (digest, secret) in [1, n-1] (uninterpreted)',
           'fastecdsa DEREncoder encode/decode are strict DER and mutually inverse (uninterpreted)',
           'fastecdsa secp256k1.is_point_on_curve is the curve-membership predicate (uninterpreted)',
           'random.SystemRandom / os.urandom return fresh, unconstrained values on every call']


# ---------------------------------------------------------------------------------------------------
# secp256k1 group operations: spec.ec.* natively, uninterpreted functions here.  fastecdsa's point classes are
# modelled by the same functions, so code and specification are compared modulo "whatever the group law is".

PRIME = 2 ** 256 - 2 ** 32 - 977


class PointObj(Sym):
    """fastecdsa.point.Point / result of keys.ec_point"""
    pytype = object

    def __init__(self, x, y):
        self.x, self.y = x, y


def _pt_facts(ctx, x, y):
    ctx.fact(z3.And(x >= 0, x < PRIME, y >= 0, y < PRIME))


def sym_mul_g(ctx, k):
    x = uf(ctx, 'ec_mulG_x', [k], z3.IntSort())
    y = uf(ctx, 'ec_mulG_y', [k], z3.IntSort())
    _pt_facts(ctx, x, y)
    return wrap_int(x), wrap_int(y)


def sym_add(ctx, p1, p2):
    a = [p1[0], p1[1], p2[0], p2[1]]
    x = uf(ctx, 'ec_add_x', a, z3.IntSort())
    y = uf(ctx, 'ec_add_y', a, z3.IntSort())
    _pt_facts(ctx, x, y)
    return wrap_int(x), wrap_int(y)


def m_spec_mul_g(ip, args, kwargs):
    if isinstance(args[0], int):
        from spec import ec
        return ec.mul_g(args[0])
    return sym_mul_g(ip.ctx, args[0])


def m_spec_on_curve(ip, args, kwargs):
    from pyvc.values import is_concrete
    if is_concrete(args):
        from spec import ec
        return ec.on_curve(*args)
    x, y = args[0]
    return wrap_bool(uf(ip.ctx, 'on_curve', [x, y], z3.BoolSort()))


def m_spec_add(ip, args, kwargs):
    from pyvc.values import is_concrete
    if is_concrete(args):
        from spec import ec
        return ec.add(*args)
    return sym_add(ip.ctx, args[0], args[1])


def m_get_public_key(ip, args, kwargs):
    """fastecdsa.keys.get_public_key(d, curve): ASSUMED d*G"""
    x, y = sym_mul_g(ip.ctx, args[0])
    return PointObj(x, y)


def m_point_ctor(ip, args, kwargs):
    return PointObj(args[0], args[1])


def point_attr(ip, obj, name):
    if name in ('x', 'y'):
        return getattr(obj, name)
    raise Unsupported('Point.%s' % name)


def point_binop(ip, op, a, b):
    if op == 'Add' and isinstance(a, PointObj) and isinstance(b, PointObj):
        x, y = sym_add(ip.ctx, (a.x, a.y), (b.x, b.y))
        return PointObj(x, y)
    raise Unsupported('point operation %s' % op)


def m_hmac_new(ip, args, kwargs):
    import hashlib
    key, msg, dig = args[0], args[1] if len(args) > 1 else kwargs.get('msg'), args[2] if len(args) > 2 else kwargs.get('digestmod')
    if dig is not hashlib.sha512:
        raise Unsupported('hmac with digest %r' % (dig,))
    return HmacObj(key, msg)


class HmacObj(Sym):
    pytype = object

    def __init__(self, key, msg):
        self.key, self.msg = key, msg


def hmac_method(ip, obj, name, args, kwargs):
    if name == 'digest':
        return models.uf_bytes(ip.ctx, 'hmac_sha512', [obj.key, obj.msg], 64)
    raise Unsupported('hmac.%s' % name)


def install_ec(reg):
    import hmac
    from spec import ec
    M = reg.models
    M[ec.mul_g] = m_spec_mul_g
    M[ec.add] = m_spec_add
    M[ec.on_curve] = m_spec_on_curve
    M[hmac.new] = m_hmac_new
    try:
        from fastecdsa import keys as fkeys, point as fpoint
        M[fkeys.get_public_key] = m_get_public_key
        M[fpoint.Point] = m_point_ctor
    except ImportError:
        pass
    reg.sym_methods[HmacObj] = hmac_method
    reg.sym_attrs[PointObj] = point_attr
    reg.sym_binops.append(point_binop)


TRUSTED += ['secp256k1 group operations (k*G, point addition) are uninterpreted; fastecdsa.keys.get_public_key / Point.__add__ are assumed '
            'to compute them (spec/ec.py is the native reference used in replays)',
            'hmac.new(key, msg, sha512).digest() is an uninterpreted 64-byte function of (key, msg)']


# ---------------------------------------------------------------------------------------------------
# derivation path items: str(number) + marker, with the number symbolic

class SPathItem(Sym):
    """the text  str(n) + marker  (marker one of '', "'", h, H, p, P) for a symbolic non-negative n"""
    pytype = str

    def __init__(self, n, marker):
        self.n, self.marker = n, marker


def path_item(n, marker):
    """native: the path item text.  Under the verifier (model below): an SPathItem."""
    return str(n) + marker


def m_path_item(ip, args, kwargs):
    n, marker = args
    if isinstance(n, int):
        return str(n) + marker
    return SPathItem(int_term(n), marker)


def pathitem_getitem(ip, obj, idx):
    if idx == -1:
        if obj.marker:
            return obj.marker
        return SStr(items=[z3.simplify(48 + obj.n % 10)])       # last decimal digit
    if isinstance(idx, slice) and idx.start is None and idx.stop == -1 and idx.step is None and obj.marker:
        return models.SDecStr(obj.n)
    raise Unsupported('path item subscript %r' % (idx,))


def _numtext(v):
    """(number term, marker) of a numeral-like text value, or None"""
    if isinstance(v, SPathItem):
        return v.n, v.marker
    if isinstance(v, models.SDecStr):
        return v.t, ''
    if isinstance(v, str):
        m = ''
        if v[-1:] in ("'", 'h', 'H', 'p', 'P'):
            v, m = v[:-1], v[-1:]
        if v.isdigit():
            return z3.IntVal(int(v)), m
    return None


def numtext_eq(ctx, a, b):
    if not isinstance(a, (SPathItem, models.SDecStr)) and not isinstance(b, (SPathItem, models.SDecStr)):
        return NotImplemented
    x, y = _numtext(a), _numtext(b)
    if x is None or y is None:
        if isinstance(a, str) or isinstance(b, str):
            return False          # a numeral (plus marker) never equals a text that is not one
        return NotImplemented
    if x[1] != y[1]:
        return False
    return z3.simplify(x[0] == y[0])


def decstr_method(ip, obj, name, args, kwargs):
    if name == 'isdigit':
        return wrap_bool(obj.t >= 0)
    raise Unsupported('str.%s on str(<symbolic int>)' % name)


def decstr_getitem(ip, obj, idx):
    if isinstance(idx, slice) and idx.start == -1 and idx.stop is None:
        return SStr(items=[z3.simplify(48 + obj.t % 10)])
    if idx == -1:
        return SStr(items=[z3.simplify(48 + obj.t % 10)])
    raise Unsupported('subscript %r on str(<symbolic int>)' % (idx,))


def numtext_concat(ip, op, a, b):
    if op == 'Add' and isinstance(a, models.SDecStr) and isinstance(b, str):
        if b == '':
            return a
        if b in ("'", 'h', 'H', 'p', 'P'):
            return SPathItem(a.t, b)
    raise Unsupported('text operation on numerals')


def install_path(reg):
    reg.sym_eq.append(numtext_eq)
    reg.sym_methods[models.SDecStr] = decstr_method
    reg.sym_getitem[models.SDecStr] = decstr_getitem
    reg.sym_binops.append(numtext_concat)
    reg.models[path_item] = m_path_item
    reg.sym_getitem[SPathItem] = pathitem_getitem
    reg.sym_int[SPathItem] = lambda ip, v: (wrap_int(v.n) if not v.marker else pyraise(ValueError, 'invalid literal for int()'))
    reg.sym_truth[SPathItem] = lambda ip, v: True


# ---------------------------------------------------------------------------------------------------
# Assumed models of helpers that stand between the verified function and the property (each listed as trusted):

def m_scrypt_hash(ip, args, kwargs):
    """encoding.scrypt_hash(password, salt, key_len, N, r, p): ASSUMED to be scrypt - an uninterpreted function of all arguments"""
    from pyvc.values import is_concrete
    import bitcoinlib.encoding as enc
    if is_concrete(args) and is_concrete(kwargs):
        return enc.scrypt_hash(*args, **kwargs)
    names = ['password', 'salt', 'key_len', 'N', 'r', 'p']
    vals = dict(zip(names, args))
    vals.update(kwargs)
    key_len = vals.get('key_len', 64)
    return models.uf_bytes(ip.ctx, 'scrypt', [vals['password'], vals['salt'], key_len, vals.get('N', 16384), vals.get('r', 8), vals.get('p', 1)], key_len)


def m_normalize(ip, args, kwargs):
    import unicodedata
    from pyvc.values import is_concrete
    if is_concrete(args):
        return unicodedata.normalize(*args)
    form, s = args
    app = uf(ip.ctx, 'unicode_' + form, [s], IntSeq)
    ln = uf(ip.ctx, 'unicode_%s.len' % form, [s], z3.IntSort())
    ip.ctx.fact(ln >= 0)
    return SStr(seq=SeqPart(app, ln))


def m_to_bytes(ip, args, kwargs):
    """encoding.to_bytes on a *bytes* value: ASSUMED identity.  (The real function returns bytes.fromhex(text) when the
    bytes happen to be ASCII hex digits of even length; key material, hashes and salts are assumed not to look like that.)"""
    import bitcoinlib.encoding as enc
    from pyvc.values import is_concrete
    if is_concrete(args) and is_concrete(kwargs):
        return enc.to_bytes(*args, **kwargs)
    if isinstance(args[0], SBytes):
        return args[0]
    raise Unsupported('to_bytes(%r)' % (args[0],))


def m_base58encode(ip, args, kwargs):
    """encoding.base58encode(b): uninterpreted string function of the bytes (its own contract belongs to C11)"""
    import bitcoinlib.encoding as enc
    from pyvc.values import is_concrete
    if is_concrete(args):
        return enc.base58encode(*args)
    app = uf(ip.ctx, 'base58encode', [args[0]], IntSeq)
    ln = uf(ip.ctx, 'base58encode.len', [args[0]], z3.IntSort())
    ip.ctx.fact(ln >= 0)
    return SStr(seq=SeqPart(app, ln))


def install_helpers(reg):
    import unicodedata
    import bitcoinlib.encoding as enc
    reg.models[enc.scrypt_hash] = m_scrypt_hash
    reg.models[unicodedata.normalize] = m_normalize
    reg.helper_models = {'to_bytes': (enc.to_bytes, m_to_bytes), 'base58encode': (enc.base58encode, m_base58encode)}
    reg.address_models = {'pubkeyhash_to_addr': (enc.pubkeyhash_to_addr, m_pubkeyhash_to_addr)}
    reg.models[pow] = m_modpow


# ---------------------------------------------------------------------------------------------------
# amounts as text: '<decimal numeral> <unit>' with a symbolic numerator

class SAmountText(Sym):
    """the text  '<num / 10^k as a decimal numeral> <unit>'  for a symbolic non-negative integer num"""
    pytype = str

    def __init__(self, num, k, unit):
        self.num, self.k, self.unit = num, k, unit


class SDecimalNum(Sym):
    pytype = str

    def __init__(self, num, k):
        self.num, self.k = num, k


def amount_text(num, k, unit):
    """native: exact decimal spelling of num / 10^k followed by the unit"""
    if k == 0:
        s = str(num)
    else:
        s = '%d.%s' % (num // 10 ** k, str(num % 10 ** k).rjust(k, '0'))
    return (s + ' ' + unit) if unit else s


def m_amount_text(ip, args, kwargs):
    num, k, unit = args
    if isinstance(num, int):
        return amount_text(num, k, unit)
    return SAmountText(int_term(num), k, unit)


def amount_method(ip, obj, name, args, kwargs):
    if name == 'split' and not args:
        return [SDecimalNum(obj.num, obj.k)] + ([obj.unit] if obj.unit else [])
    raise Unsupported('str.%s on an amount text' % name)


def install_amounts(reg):
    from pyvc import floats
    reg.models[amount_text] = m_amount_text
    reg.sym_methods[SAmountText] = amount_method
    reg.sym_float[SDecimalNum] = lambda ip, v: floats.from_decimal(ip, v.num, v.k)


def m_pubkeyhash_to_addr(ip, args, kwargs):
    """encoding.pubkeyhash_to_addr(hash, prefix, encoding, witver): uninterpreted text function of its arguments.  Its parts are
    under contract elsewhere (bech32 regrouping / checksum: C11 proofs; Base58Check: C11 bounded check)."""
    import bitcoinlib.encoding as enc
    from pyvc.values import is_concrete
    if is_concrete(args) and is_concrete(kwargs):
        return enc.pubkeyhash_to_addr(*args, **kwargs)
    names = ['pubkeyhash', 'prefix', 'encoding', 'witver']
    v = dict(zip(names, args))
    v.update(kwargs)
    prefix = v.get('prefix')
    if isinstance(prefix, str):
        prefix = prefix.encode()
    enc_tag = {'base58': 58, 'bech32': 32}.get(v.get('encoding', 'base58'), 0)
    a = [v['pubkeyhash'], prefix if prefix is not None else b'', enc_tag, v.get('witver', 0)]
    app = uf(ip.ctx, 'address_text', a, IntSeq)
    ln = uf(ip.ctx, 'address_text.len', a, z3.IntSort())
    ip.ctx.fact(ln >= 0)
    return SStr(seq=SeqPart(app, ln))


def m_modpow(ip, args, kwargs):
    """pow(a, e, m) with symbolic base: uninterpreted; result in [0, m)"""
    from pyvc.values import is_concrete
    if is_concrete(args):
        return pow(*args)
    if len(args) == 3 and isinstance(args[1], int) and isinstance(args[2], int):
        # pow(a, e, m) == pow(a mod m, e, m): the base is reduced first so that equal residues give the same term
        base = z3.simplify(int_term(args[0]))
        if not (z3.is_app_of(base, z3.Z3_OP_MOD) and z3.is_int_value(base.arg(1)) and base.arg(1).as_long() == args[2]):
            iv = ops.interval(ip.ctx, base)
            if iv is None or iv[0] < 0 or iv[1] >= args[2]:
                base = base % args[2]
        r = uf(ip.ctx, 'modpow_%d_%d' % (args[1] % 10 ** 9, args[2] % 10 ** 9), [wrap_int(base)], z3.IntSort())
        ip.ctx.fact(z3.And(r >= 0, r < args[2]))
        ip.ctx.var_bounds[str(r)] = (0, args[2] - 1)
        return wrap_int(r)
    raise Unsupported('pow with symbolic exponent or modulus')
