"""C03: BIP32 derivation in bitcoinlib/keys.py (HDKey.child_private / child_public / _key_derivation / fingerprint /
from_seed) against spec/bip32.py.  HMAC-SHA512, hash160 and the secp256k1 group operations are uninterpreted."""
import z3
from pyvc.api import contract, Int, Bytes, Bool, Str, RecordOf, Const, implies, INSTALLERS
from pyvc.values import Rec
from bitcoinlib.keys import HDKey, Key, BKeyError
from bitcoinlib.networks import Network
from spec import bip32, ec

N = ec.N
_NET = Network('bitcoin')


def _hdkey_ctor(ip, args, kwargs):
    """ASSUMED contract of HDKey(key=<32-byte secret | 33-byte compressed public key>, chain=..., depth=..., ...) as it is
    called at the end of the derivation functions: the object records the arguments it was given, a 32-byte key is a
    private key whose public form is the compressed serialisation of secret*G, a 33-byte key with is_private=False is a
    public key.  (HDKey.__init__ / Key.__init__ themselves are the subject of C04 / C12.)"""
    from pyvc import ops
    from pyvc.models import int_from_bytes
    r = Rec(HDKey)
    r.attrs['__ctor_args__'] = dict(kwargs)
    for k, v in kwargs.items():
        r.attrs[k] = v
    key = kwargs.get('key')
    if key is None and args:
        key = args[0]          # HDKey(import_key): raw 32-byte secret or 33-byte public key
        r.attrs['key'] = key
    r.attrs.setdefault('compressed', True)
    r.attrs['_hash160'] = None
    r.attrs.setdefault('key_type', 'bip32')
    if kwargs.get('is_private', True) and ops.seq_len(key) == 32:
        sec = int_from_bytes(ip, [key, 'big'], {})
        r.attrs.update(is_private=True, secret=sec, private_byte=key,
                       public_byte=ip.call(bip32.ser_p, [ip.call(ec.mul_g, [sec])]))
    elif ops.seq_len(key) == 33:
        r.attrs.update(is_private=False, public_byte=key, secret=None, private_byte=None)
        x = int_from_bytes(ip, [ops.seq_slice(ip.ctx, key, 1, None, None), 'big'], {})
        from contracts import external
        y = ops.wrap_int(external.uf(ip.ctx, 'decompress_y', [key], z3.IntSort()))
        r.attrs.update(x=x, y=y)
    if isinstance(r.attrs.get('network'), str):
        r.attrs['network'] = Network(r.attrs['network'])
    return r


def _install(reg):
    reg.ctor_models[HDKey] = _hdkey_ctor


INSTALLERS.append(_install)

_common = dict(chain=Bytes(32), depth=Int(0, 254), network=Const(_NET), witness_type=Const('segwit'), multisig=Const(False),
               encoding=Const('bech32'), compressed=Const(True), _hash160=Const(None), key_type=Const('bip32'))
_PrivT = RecordOf(HDKey, secret=Int(1, N - 1), private_byte=Bytes(32), public_byte=Bytes(33), is_private=Const(True), **_common)
_PubT = RecordOf(HDKey, x=Int(0, ec.P - 1), y=Int(0, ec.P - 1), public_byte=Bytes(33), is_private=Const(False), **_common)


def _real_priv(self):
    f = self.fields
    return HDKey(key=f['secret'].to_bytes(32, 'big'), chain=f['chain'], depth=f['depth'], network='bitcoin')


def _child_tuple(k):
    """what a derived key object is: (key material, chain code, depth, parent fingerprint, child number)"""
    key = k.key if getattr(k, '__ctor_args__', None) is not None else (k.private_byte if k.is_private else k.public_byte)
    return key, k.chain, k.depth, k.parent_fingerprint, (k.child_index)


@contract('bitcoinlib.keys.HDKey.child_private', props=('C03', 'C09'))
class child_private:
    """CKDpriv: key, chain code, depth, parent fingerprint and child number are those of BIP32; an index >= 2^31 is a
    hardened index whether it is spelled with the flag or as a number; invalid indices (I_L >= n, key 0) are refused."""
    params = {'self': _PrivT, 'index': Int(0, 2 ** 32 - 1), 'hardened': Bool}

    def init(self):
        # representation invariant of a private HDKey: both byte forms are the serialisations of the one secret
        self.private_byte = bip32.ser256(self.secret)
        self.public_byte = bip32.ser_p(ec.mul_g(self.secret))

    def prepare(self, index, hardened):
        return {'self': _real_priv(self)}

    raises_iff = {BKeyError: lambda self, index, hardened:
                  bip32.ckd_priv(self.secret, self.chain, (index | 0x80000000) if hardened else index) is None}

    def ensures(self, index, hardened, result):
        i = (index | 0x80000000) if hardened else index
        k, c = bip32.ckd_priv(self.secret, self.chain, i)
        return _child_tuple(result) == (bip32.ser256(k), c, self.depth + 1, bip32.fingerprint(bip32.ser_p(ec.mul_g(self.secret))), i)


@contract('bitcoinlib.keys.HDKey.child_public', props=('C03', 'C09'))
class child_public:
    """CKDpub; a hardened index (>= 2^31) can never be derived from a public key: it raises."""
    params = {'self': _PubT, 'index': Int(0, 2 ** 32 - 1)}

    def init(self):
        self.public_byte = bip32.ser_p((self.x, self.y))

    def requires(self, index):
        # a public key object holds a curve point; ASSUMED AWAY: I_L*G + K_par is the point at infinity (probability 2^-256,
        # no witness can be constructed) - BIP32 calls that child invalid, the library does not look
        il = int.from_bytes(bip32.hmac512(self.chain, self.public_byte + bip32.ser32(index & 0xffffffff))[:32], 'big')
        return ec.on_curve((self.x, self.y)) and ec.add(ec.mul_g(il), (self.x, self.y)) != ec.INF

    def prepare(self, index):
        f = self.fields
        return {'self': HDKey(key=f['public_byte'], chain=f['chain'], depth=f['depth'], network='bitcoin', is_private=False)}

    raises_iff = {BKeyError: lambda self, index: bip32.ckd_pub((self.x, self.y), self.chain, index) is None}

    def ensures(self, index, result):
        pt, c = bip32.ckd_pub((self.x, self.y), self.chain, index)
        return _child_tuple(result) == (bip32.ser_p(pt), c, self.depth + 1, bip32.fingerprint(bip32.ser_p((self.x, self.y))), index)

    def sample(rng):
        d = rng.randrange(1, N)
        k = HDKey(key=d.to_bytes(32, 'big'), chain=bytes(rng.getrandbits(8) for _ in range(32)), depth=rng.randint(0, 5), network='bitcoin').public()
        return {'self': k, 'index': rng.choice([0, 1, 2 ** 31 - 1, 2 ** 31, 2 ** 31 + 1, 2 ** 32 - 1, rng.randrange(0, 2 ** 31)])}


# ---------------------------------------------------------------------------------------------------
from contracts.external import path_item

MARKERS = ['', "'", 'h', 'H', 'p', 'P']


def _step(key_state, n, marker):
    """one path item applied to (kind, k_or_point, chain, depth): BIP32 child, or None when it must be refused.
    An item is hardened if it carries a marker or its number is >= 2^31."""
    kind, k, c, depth = key_state
    hardened = marker != '' or n >= bip32.HARD
    i = (n | 0x80000000) if hardened else n
    if kind == 'private':
        r = bip32.ckd_priv(k, c, i)
        if r is None:
            return None
        return ('private', r[0], r[1], depth + 1, i)
    if hardened:
        return None                      # a hardened child of a public key does not exist
    r = bip32.ckd_pub(k, c, i)
    if r is None:
        return None
    return ('public', r[0], r[1], depth + 1, i)


def _path_contract(L, private, markers):
    name = 'path%d-%s-%s' % (L, 'priv' if private else 'pub', '_'.join(m or 'none' for m in markers))
    params = {'self': _PrivT if private else _PubT}
    for j in range(L):
        params['n%d' % j] = Int(0, 2 ** 32 - 1)

    def call(**kw):
        return {'path': [path_item(kw['n%d' % j], markers[j]) for j in range(L)]}

    return name, params, call


def _mk_path(L, private, markers):
    name, params, _ = _path_contract(L, private, markers)
    ns = ['n%d' % j for j in range(L)]

    def spec(self, nums):
        st = ('private', self.secret, self.chain, self.depth) if private else ('public', (self.x, self.y), self.chain, self.depth)
        last = None
        for n, m in zip(nums, markers):
            r = _step(st, n, m)
            if r is None:
                return None
            st = r[:4]
            last = r
        return last

    if L == 1:
        def call(self, n0):
            return {'path': [path_item(n0, markers[0])]}

        def must_raise(self, n0):
            return spec(self, [n0]) is None

        def ensures(self, n0, result):
            r = spec(self, [n0])
            key = bip32.ser256(r[1]) if r[0] == 'private' else bip32.ser_p(r[1])
            return _child_tuple(result)[0] == key and result.chain == r[2] and result.depth == r[3] and result.child_index == r[4]
    else:
        def call(self, n0, n1):
            return {'path': [path_item(n0, markers[0]), path_item(n1, markers[1])]}

        def must_raise(self, n0, n1):
            return spec(self, [n0, n1]) is None

        def ensures(self, n0, n1, result):
            r = spec(self, [n0, n1])
            key = bip32.ser256(r[1]) if r[0] == 'private' else bip32.ser_p(r[1])
            return _child_tuple(result)[0] == key and result.chain == r[2] and result.depth == r[3] and result.child_index == r[4]

    d = {'params': params, 'call': call, 'ensures': ensures, 'raises_iff': {BKeyError: must_raise},
         'prepare': (lambda self, **kw: {'self': _real_priv(self)}) if private else
                    (lambda self, **kw: {'self': HDKey(key=self.fields['public_byte'], chain=self.fields['chain'], depth=self.fields['depth'], network='bitcoin', is_private=False)}),
         'bounded': None if L == 1 else 'two-item paths, random numbers and keys', 'native_only': L > 1,
         '__doc__': 'subkey_for_path over a %d-item path (%s parent, markers %r): each item is the BIP32 child, hardened iff marked or >= 2^31; '
                    'a hardened item under a public key raises' % (L, 'private' if private else 'public', markers)}
    if private:
        d['init'] = child_private.__dict__['init']
    else:
        d['init'] = child_public.__dict__['init']
        if L == 1:
            # as for child_public: the point-at-infinity child (probability 2^-256) is assumed away
            d['requires'] = lambda self, n0: child_public.__dict__['requires'](self, n0)
        else:
            d['requires'] = lambda self: ec.on_curve((self.x, self.y))
    cls = type(name, (), d)
    return contract('bitcoinlib.keys.HDKey.subkey_for_path', case=name, props=('C03', 'C09'))(cls)


def _req_M(self, n0):
    # as for child_public: the point-at-infinity child (probability 2^-256) is assumed away
    il = int.from_bytes(bip32.hmac512(self.chain, self.public_byte + bip32.ser32(n0 & 0xffffffff))[:32], 'big')
    pt = ec.mul_g(self.secret)
    # no point of secp256k1 has x = 0 (7 is not a square mod p) or y = 0 (the group has odd prime order): stated, not derived
    return ec.add(ec.mul_g(il), pt) != ec.INF and pt[0] != 0 and pt[1] != 0


def _mk_path_M(marker):
    """'M/<item>' on a PRIVATE key: the first step is a public derivation from the key's public point, so a hardened item must be refused"""
    name = 'path1-privM-%s' % (marker or 'none')

    def spec(self, n0):
        st = ('public', ec.mul_g(self.secret), self.chain, self.depth)
        return _step(st, n0, marker)

    def call(self, n0):
        return {'path': ['M', path_item(n0, marker)]}

    def init_M(self):
        # representation invariant of a private HDKey: byte forms and public point all belong to the one secret
        self.private_byte = bip32.ser256(self.secret)
        pt = ec.mul_g(self.secret)
        self.public_byte = bip32.ser_p(pt)
        self._x, self._y = pt
        self.x_hex = None
        self.y_hex = None

    def must_raise(self, n0):
        return spec(self, n0) is None

    def ensures(self, n0, result):
        r = spec(self, n0)
        return _child_tuple(result)[0] == bip32.ser_p(r[1]) and result.chain == r[2] and result.depth == r[3] and result.child_index == r[4]

    d = {'params': {'self': _PrivT, 'n0': Int(0, 2 ** 32 - 1)}, 'call': call, 'ensures': ensures, 'raises_iff': {BKeyError: must_raise},
         'init': init_M, 'prepare': lambda self, **kw: {'self': _real_priv(self)},
         'requires': _req_M if marker == '' else None,
         '__doc__': "subkey_for_path(['M', item]) on a private key (marker %r): the public child of the key's public point; a hardened item raises" % marker}
    return contract('bitcoinlib.keys.HDKey.subkey_for_path', case=name, props=('C03', 'C09'))(type(name, (), d))


PATH_CASES = []
for _m in MARKERS:
    PATH_CASES.append(_mk_path_M(_m)._contract.key)
for _m in MARKERS:
    PATH_CASES.append(_mk_path(1, True, [_m])._contract.key)
    PATH_CASES.append(_mk_path(1, False, [_m])._contract.key)
for _ms in [['', ''], ["'", ''], ['', 'h']]:
    PATH_CASES.append(_mk_path(2, True, _ms)._contract.key)


@contract('bitcoinlib.keys.HDKey.public_master', case='hardened-path-native', props=('C03', 'C09'))
class public_master_native:
    """HDKey.public_master / public_master_multisig ask for m/purpose'/coin'/account' (three or four hardened steps): on a private key the result is that
    BIP32 key (independent derivation: HMAC-SHA512 + pure-Python curve), as public key unless as_private; on a public-only key the request fails -
    a hardened child cannot be derived from a public parent (native evaluation only)"""
    params = {'seed': Int(0, 2 ** 128 - 1), 'account': Int(0, 5), 'shape': Int(0, 10 ** 6)}
    native_only = True
    bounded = 'random seeds, accounts 0..5, legacy / segwit / p2sh-segwit, plain and multisig, private and public-only parents'

    def build(seed, account, shape):
        from bounded.c09_wallet import derive as _derive
        wt = ['legacy', 'segwit', 'p2sh-segwit'][shape % 3]
        public_only = (shape // 3) % 2 == 1
        multisig = (shape // 6) % 2 == 1
        as_private = (shape // 12) % 2 == 1
        sd = seed.to_bytes(16, 'big')

        def run():
            k = HDKey.from_seed(sd, network='bitcoin', witness_type=wt, multisig=multisig)
            if public_only:
                k = k.public()
            purpose = 48 if multisig and wt != 'legacy' else 45 if multisig else {'legacy': 44, 'segwit': 84, 'p2sh-segwit': 49}[wt]
            H = 0x80000000
            path = [purpose + H] if purpose == 45 else [purpose + H, H, account + H] + ([(2 if wt == 'segwit' else 1) + H] if purpose == 48 else [])
            try:
                r = k.public_master_multisig(account_id=account, as_private=as_private) if multisig else k.public_master(account_id=account, as_private=as_private)
            except BKeyError:
                return ('refused', public_only, None, None)
            kk, cc = _derive(sd, path)
            pt = ec.mul_g(kk)
            return ('key', public_only, (r.public_byte, r.chain, r.depth, r.is_private, r.secret if r.is_private else None),
                    (bip32.ser_p(pt), cc, len(path), as_private, kk if as_private else None))
        return run, [], {}

    def ensures(seed, account, shape, result):
        kind, public_only, got, want = result
        if public_only:
            return kind == 'refused'
        return kind == 'key' and got == want
