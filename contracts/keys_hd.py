"""C03: BIP32 derivation in bitcoinlib/keys.py (HDKey.child_private / child_public / _key_derivation / fingerprint /
from_seed) against spec/bip32.py.  HMAC-SHA512, hash160 and the secp256k1 group operations are uninterpreted."""
import z3
from pyvc.api import contract, Int, Bytes, Bool, Str, RecordOf, Const, implies, INSTALLERS
from pyvc.values import Rec
from bitcoinlib.keys import HDKey, Key, BKeyError
from bitcoinlib.networks import Network
from spec import bip32, ec

N = ec.N
_NET = Network('bitcoin')


def _hdkey_ctor(ip, args, kwargs):
    """ASSUMED contract of HDKey(...) when called with derived key material at the end of a derivation function: the new
    object records exactly the arguments it was given (HDKey.__init__ itself is under contract for C04 / C12)."""
    r = Rec(HDKey)
    r.attrs['__ctor_args__'] = dict(kwargs)
    for k, v in kwargs.items():
        r.attrs[k] = v
    return r


def _install(reg):
    reg.ctor_models[HDKey] = _hdkey_ctor


INSTALLERS.append(_install)

_common = dict(chain=Bytes(32), depth=Int(0, 254), network=Const(_NET), witness_type=Const('segwit'), multisig=Const(False),
               encoding=Const('bech32'), compressed=Const(True), _hash160=Const(None), key_type=Const('bip32'))
_PrivT = RecordOf(HDKey, secret=Int(1, N - 1), private_byte=Bytes(32), public_byte=Bytes(33), is_private=Const(True), **_common)
_PubT = RecordOf(HDKey, x=Int(0, ec.P - 1), y=Int(0, ec.P - 1), public_byte=Bytes(33), is_private=Const(False), **_common)


def _real_priv(self):
    f = self.fields
    return HDKey(key=f['secret'].to_bytes(32, 'big'), chain=f['chain'], depth=f['depth'], network='bitcoin')


def _child_tuple(k):
    """what a derived key object is: (key material, chain code, depth, parent fingerprint, child number)"""
    key = k.key if getattr(k, '__ctor_args__', None) is not None else (k.private_byte if k.is_private else k.public_byte)
    return key, k.chain, k.depth, k.parent_fingerprint, (k.child_index)


@contract('bitcoinlib.keys.HDKey.child_private', props=('C03', 'C09'))
class child_private:
    """CKDpriv: key, chain code, depth, parent fingerprint and child number are those of BIP32; an index >= 2^31 is a
    hardened index whether it is spelled with the flag or as a number; invalid indices (I_L >= n, key 0) are refused."""
    params = {'self': _PrivT, 'index': Int(0, 2 ** 32 - 1), 'hardened': Bool}

    def init(self):
        # representation invariant of a private HDKey: both byte forms are the serialisations of the one secret
        self.private_byte = bip32.ser256(self.secret)
        self.public_byte = bip32.ser_p(ec.mul_g(self.secret))

    def prepare(self, index, hardened):
        return {'self': _real_priv(self)}

    raises_iff = {BKeyError: lambda self, index, hardened:
                  bip32.ckd_priv(self.secret, self.chain, (index | 0x80000000) if hardened else index) is None}

    def ensures(self, index, hardened, result):
        i = (index | 0x80000000) if hardened else index
        k, c = bip32.ckd_priv(self.secret, self.chain, i)
        return _child_tuple(result) == (bip32.ser256(k), c, self.depth + 1, bip32.fingerprint(bip32.ser_p(ec.mul_g(self.secret))), i)


@contract('bitcoinlib.keys.HDKey.child_public', props=('C03', 'C09'))
class child_public:
    """CKDpub; a hardened index (>= 2^31) can never be derived from a public key: it raises."""
    params = {'self': _PubT, 'index': Int(0, 2 ** 32 - 1)}

    def init(self):
        self.public_byte = bip32.ser_p((self.x, self.y))

    def requires(self, index):
        # a public key object holds a curve point; ASSUMED AWAY: I_L*G + K_par is the point at infinity (probability 2^-256,
        # no witness can be constructed) - BIP32 calls that child invalid, the library does not look
        il = int.from_bytes(bip32.hmac512(self.chain, self.public_byte + bip32.ser32(index & 0xffffffff))[:32], 'big')
        return ec.on_curve((self.x, self.y)) and ec.add(ec.mul_g(il), (self.x, self.y)) != ec.INF

    def prepare(self, index):
        f = self.fields
        return {'self': HDKey(key=f['public_byte'], chain=f['chain'], depth=f['depth'], network='bitcoin', is_private=False)}

    raises_iff = {BKeyError: lambda self, index: bip32.ckd_pub((self.x, self.y), self.chain, index) is None}

    def ensures(self, index, result):
        pt, c = bip32.ckd_pub((self.x, self.y), self.chain, index)
        return _child_tuple(result) == (bip32.ser_p(pt), c, self.depth + 1, bip32.fingerprint(bip32.ser_p((self.x, self.y))), index)

    def sample(rng):
        d = rng.randrange(1, N)
        k = HDKey(key=d.to_bytes(32, 'big'), chain=bytes(rng.getrandbits(8) for _ in range(32)), depth=rng.randint(0, 5), network='bitcoin').public()
        return {'self': k, 'index': rng.choice([0, 1, 2 ** 31 - 1, 2 ** 31, 2 ** 31 + 1, 2 ** 32 - 1, rng.randrange(0, 2 ** 31)])}
