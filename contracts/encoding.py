"""Contracts on bitcoinlib/encoding.py (wire primitives)."""
from pyvc.api import contract, Int, Bytes, Bool, implies
from spec import wire
from bitcoinlib.encoding import EncodingError


@contract('bitcoinlib.encoding.int_to_varbyteint', props=('C18', 'C01', 'C06'))
class int_to_varbyteint:
    """CompactSize encoder equals the protocol definition (shortest form) on all of 0..2^64-1."""
    params = {'inp': Int}

    def requires(inp):
        return 0 <= inp < 2 ** 64

    def result_is(inp):
        return wire.compact_size(inp)


@contract('bitcoinlib.encoding.varbyteint_to_int', props=('C18', 'C06'))
class varbyteint_to_int:
    """Decoding the shortest-form CompactSize of n (followed by anything) gives (n, encoded length)."""
    params = {'n': Int, 'rest': Bytes}

    def requires(n, rest):
        return 0 <= n < 2 ** 64

    def call(n, rest):
        return {'byteint': wire.compact_size(n) + rest}

    def result_is(n, rest):
        return (n, wire.compact_size_len(n))


@contract('bitcoinlib.encoding.varstr', props=('C18', 'C01', 'C06'))
class varstr:
    """var_str: CompactSize length prefix followed by the data, for every byte string."""
    params = {'string': Bytes}
    use_opaque = False          # this contract is the one that establishes what ser_string is for the callers

    def requires(string):
        return len(string) < 2 ** 64

    def result_is(string):
        return wire.ser_string(string)

    def effective(string):
        # what callers may rely on while F-varstr-00 is open: the specified result, except for the pinned input
        return string if string == b'\0' else wire.ser_string(string)

    pins = {
        # the library's special case: a single zero byte is returned unchanged
        'F-varstr-00': lambda string, result: string == b'\0' and result == b'\0',
    }


def _stream(pre, n, rest):
    import io
    s = io.BytesIO(pre + wire.compact_size(n) + rest)
    s.seek(len(pre))
    return s


@contract('bitcoinlib.encoding.read_varbyteint', props=('C18', 'C06'))
class read_varbyteint:
    """Reading a CompactSize at any stream position returns its value and advances by exactly its length."""
    params = {'pre': Bytes, 'n': Int, 'rest': Bytes}

    def requires(pre, n, rest):
        return 0 <= n < 2 ** 64

    def call(pre, n, rest):
        return {'s': _stream(pre, n, rest)}

    def ensures(pre, n, rest, result, call_args):
        return result == n and call_args['s'].tell() == len(pre) + wire.compact_size_len(n)


@contract('bitcoinlib.encoding.read_varbyteint_return', props=('C18', 'C06'))
class read_varbyteint_return:
    """As read_varbyteint, and the consumed bytes are handed back unchanged."""
    params = {'pre': Bytes, 'n': Int, 'rest': Bytes}

    def requires(pre, n, rest):
        return 0 <= n < 2 ** 64

    def call(pre, n, rest):
        return {'s': _stream(pre, n, rest)}

    def ensures(pre, n, rest, result, call_args):
        return result == (n, wire.compact_size(n)) and call_args['s'].tell() == len(pre) + wire.compact_size_len(n)
