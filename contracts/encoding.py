"""Contracts on bitcoinlib/encoding.py (wire primitives)."""
from pyvc.api import contract, Int, Bytes, Bool, implies
from spec import wire
from bitcoinlib.encoding import EncodingError


@contract('bitcoinlib.encoding.int_to_varbyteint', props=('C18', 'C01', 'C06'))
class int_to_varbyteint:
    """CompactSize encoder equals the protocol definition (shortest form) on all of 0..2^64-1."""
    params = {'inp': Int}

    def requires(inp):
        return 0 <= inp < 2 ** 64

    def result_is(inp):
        return wire.compact_size(inp)


@contract('bitcoinlib.encoding.int_to_varbyteint', case='out-of-range', props=('C18',))
class int_to_varbyteint_out_of_range:
    """Outside 0..2^64-1 there is no CompactSize: the encoder refuses (OverflowError from int.to_bytes) instead of returning bytes that would decode to
    another value - for every negative integer and every integer >= 2^64."""
    params = {'inp': Int}

    def requires(inp):
        return inp < 0 or inp >= 2 ** 64

    raises_iff = {OverflowError: lambda inp: True}


@contract('bitcoinlib.encoding.varbyteint_to_int', props=('C18', 'C06'))
class varbyteint_to_int:
    """Decoding the shortest-form CompactSize of n (followed by anything) gives (n, encoded length)."""
    params = {'n': Int, 'rest': Bytes}

    def requires(n, rest):
        return 0 <= n < 2 ** 64

    def call(n, rest):
        return {'byteint': wire.compact_size(n) + rest}

    def result_is(n, rest):
        return (n, wire.compact_size_len(n))


def _vbi_form_case(first, size):
    """Every encoding a peer can send, not only the shortest one: marker 0xfd/0xfe/0xff followed by ANY 2/4/8 payload bytes (and anything after
    them) decodes to the little-endian value of exactly those payload bytes and reports 1 + size bytes consumed - the protocol definition of the
    three long forms, which the canonical-input contract above reaches only for payloads the shortest-form encoder produces."""
    name = 'form-%02x' % first

    def call(payload, rest):
        return {'byteint': bytes([first]) + payload + rest}

    def result_is(payload, rest):
        return (wire.from_le(payload), 1 + size)

    d = {'params': {'payload': Bytes(size), 'rest': Bytes}, 'call': call, 'result_is': result_is,
         '__doc__': 'varbyteint_to_int on marker 0x%02x + any %d payload bytes (+ anything): little-endian value of the payload, %d bytes consumed' % (first, size, 1 + size)}
    return contract('bitcoinlib.encoding.varbyteint_to_int', case=name, props=('C18', 'C06'))(type('vbi_form_%02x' % first, (), d))


VARBYTEINT_FORM_CASES = [_vbi_form_case(f, n)._contract.key for f, n in ((0xfd, 2), (0xfe, 4), (0xff, 8))]


@contract('bitcoinlib.encoding.varbyteint_to_int', case='single-byte', props=('C18', 'C06'))
class varbyteint_to_int_single:
    """A first byte below 0xfd is the value itself, one byte consumed, whatever follows."""
    params = {'first': Int(0, 252), 'rest': Bytes}

    def call(first, rest):
        return {'byteint': bytes([first]) + rest}

    def result_is(first, rest):
        return (first, 1)


@contract('bitcoinlib.encoding.varstr', props=('C18', 'C01', 'C06'))
class varstr:
    """var_str: CompactSize length prefix followed by the data, for every byte string."""
    params = {'string': Bytes}
    use_opaque = False          # this contract is the one that establishes what ser_string is for the callers

    def requires(string):
        return len(string) < 2 ** 64

    def result_is(string):
        return wire.ser_string(string)

    def effective(string):
        # what callers may rely on while F-varstr-00 is open: the specified result, except for the pinned input
        return string if string == b'\0' else wire.ser_string(string)

    pins = {
        # the library's special case: a single zero byte is returned unchanged
        'F-varstr-00': lambda string, result: string == b'\0' and result == b'\0',
    }


def _stream(pre, n, rest):
    import io
    s = io.BytesIO(pre + wire.compact_size(n) + rest)
    s.seek(len(pre))
    return s


@contract('bitcoinlib.encoding.read_varbyteint', props=('C18', 'C06'))
class read_varbyteint:
    """Reading a CompactSize at any stream position returns its value and advances by exactly its length."""
    params = {'pre': Bytes, 'n': Int, 'rest': Bytes}

    def requires(pre, n, rest):
        return 0 <= n < 2 ** 64

    def call(pre, n, rest):
        return {'s': _stream(pre, n, rest)}

    def ensures(pre, n, rest, result, call_args):
        return result == n and call_args['s'].tell() == len(pre) + wire.compact_size_len(n)


@contract('bitcoinlib.encoding.read_varbyteint_return', props=('C18', 'C06'))
class read_varbyteint_return:
    """As read_varbyteint, and the consumed bytes are handed back unchanged."""
    params = {'pre': Bytes, 'n': Int, 'rest': Bytes}

    def requires(pre, n, rest):
        return 0 <= n < 2 ** 64

    def call(pre, n, rest):
        return {'s': _stream(pre, n, rest)}

    def ensures(pre, n, rest, result, call_args):
        return result == (n, wire.compact_size(n)) and call_args['s'].tell() == len(pre) + wire.compact_size_len(n)


def _stream_raw(pre, enc, rest):
    import io
    s = io.BytesIO(pre + enc + rest)
    s.seek(len(pre))
    return s


def _reader_form_case(fname, first, size):
    """The stream readers on every payload of each long form (not only shortest-form input): value = little-endian payload, position advanced by
    exactly 1 + size, and (`_return`) the consumed bytes handed back unchanged - what Transaction.parse / Script.parse rely on to stay aligned
    and to reproduce the original bytes when a peer used a non-shortest CompactSize."""
    name = 'form-%02x' % first
    with_bytes = fname.endswith('_return')

    def call(pre, payload, rest):
        return {'s': _stream_raw(pre, bytes([first]) + payload, rest)}

    def ensures(pre, payload, rest, result, call_args):
        want = (wire.from_le(payload), bytes([first]) + payload) if with_bytes else wire.from_le(payload)
        return result == want and call_args['s'].tell() == len(pre) + 1 + size

    d = {'params': {'pre': Bytes, 'payload': Bytes(size), 'rest': Bytes}, 'call': call, 'ensures': ensures,
         '__doc__': '%s at any stream position on marker 0x%02x + any %d payload bytes: little-endian value, advances by %d%s' % (
             fname, first, size, 1 + size, ', consumed bytes returned unchanged' if with_bytes else '')}
    return contract('bitcoinlib.encoding.' + fname, case=name, props=('C18', 'C06'))(type('%s_form_%02x' % (fname, first), (), d))


READER_FORM_CASES = [_reader_form_case(fn, f, n)._contract.key for fn in ('read_varbyteint', 'read_varbyteint_return') for f, n in ((0xfd, 2), (0xfe, 4), (0xff, 8))]


# ---------------------------------------------------------------------------------------------------
# C11: bech32 regrouping (convertbits).  The property clause "decoding followed by re-encoding returns the identical
# string" at the level of 5-bit symbols: whatever 5->8 accepts re-encodes (8->5) to exactly the symbols it was given,
# and it refuses exactly the non-canonical paddings (BIP173: at most 4 padding bits, all zero).

from pyvc.api import FixedList
from bitcoinlib.encoding import convertbits as _convertbits


def _cb_decode_case(nsym, native=False):
    name = '5to8-%dsymbols' % nsym + ('-native' if native else '')
    leftover = (5 * nsym) % 8

    def bad_padding(data):
        return leftover >= 5 or (data[nsym - 1] & ((1 << leftover) - 1)) != 0

    def ensures(data, result):
        return len(result) == (5 * nsym) // 8 and _convertbits(result, 8, 5, True) == data

    d = {'params': {'data': FixedList(Int(0, 31), nsym)}, 'kwargs': {'frombits': 5, 'tobits': 8, 'pad': False},
         'raises_iff': {EncodingError: bad_padding}, 'ensures': ensures, 'native_only': native,
         'bounded': 'random symbol lists' if native else None,
         '__doc__': 'convertbits(5->8, pad=False) on %d symbols: refuses exactly the non-canonical paddings; otherwise re-encoding gives the same symbols' % nsym}
    return contract('bitcoinlib.encoding.convertbits', case=name, props=('C11',))(type('cb_' + name.replace('-', '_'), (), d))


def _cb_encode_case(nbytes, native=False):
    name = '8to5-%dbytes' % nbytes + ('-native' if native else '')

    def ensures(data, result):
        return len(result) == (8 * nbytes + 4) // 5 and all(0 <= x and x <= 31 for x in result) and _convertbits(result, 5, 8, False) == data

    d = {'params': {'data': FixedList(Int(0, 255), nbytes)}, 'kwargs': {'frombits': 8, 'tobits': 5, 'pad': True}, 'ensures': ensures,
         'native_only': native, 'bounded': 'random byte lists' if native else None,
         '__doc__': 'convertbits(8->5, pad=True) on %d bytes: 5-bit symbols that decode back to the same bytes' % nbytes}
    return contract('bitcoinlib.encoding.convertbits', case=name, props=('C11', 'C04'))(type('cb_' + name.replace('-', '_'), (), d))


CONVERTBITS_CASES = ([_cb_decode_case(n)._contract.key for n in (4, 5, 7, 8, 32, 33, 52, 64)] + [_cb_encode_case(n)._contract.key for n in (2, 3, 5, 20, 32, 40)])


# bech32 checksum function against the BIP173 reference (generator constants, shifting, folding), for value lists of
# the lengths that occur for addresses (hrp 'bc'/'tb'/'ltc'... expanded + data + checksum).

from spec import bech32 as _b32


def _polymod_case(n):
    name = '%dvalues' % n

    def result_is(values):
        return _b32.polymod(values)

    d = {'params': {'values': FixedList(Int(0, 31), n)}, 'result_is': result_is, 'bounds': {'merge_ifexp': True},
         '__doc__': '_bech32_polymod equals the BIP173 reference polymod on every list of %d 5-bit values' % n}
    return contract('bitcoinlib.encoding._bech32_polymod', case=name, props=('C11', 'C04'))(type('polymod_%d' % n, (), d))


POLYMOD_CASES = [_polymod_case(n)._contract.key for n in (1, 8, 44, 64, 90)]
