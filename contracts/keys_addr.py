"""C04: private key -> public point -> address; refusal of non-keys."""
import hashlib
import z3
from pyvc.api import contract, Int, Bytes, Bool, Str, RecordOf, Const, INSTALLERS
from bitcoinlib.keys import Key, HDKey, Address, BKeyError
from bitcoinlib.networks import Network, NETWORK_DEFINITIONS
import bitcoinlib.encoding as enc
from spec import bip32, ec, base58 as b58, bech32 as b32

N, P = ec.N, ec.P


def _install(reg):
    for name, (fn, model) in getattr(reg, 'helper_models', {}).items():
        reg.models[fn] = model
    for name, (fn, model) in getattr(reg, 'address_models', {}).items():
        reg.models[fn] = model


INSTALLERS.append(_install)


@contract('bitcoinlib.keys.Key.__init__', case='integer-secret', props=('C04', 'C12'))
class key_from_int:
    """Key(<integer>): a scalar outside [1, n-1] is refused; otherwise the object holds that secret, the point secret*G, and
    compressed / uncompressed encodings of that one point (parity prefix = y mod 2, 32-byte big-endian coordinates)."""
    params = {'self': RecordOf(Key), 'import_key': Int(1, 2 ** 256 - 1), 'compressed': Bool}      # Key(0) means 'no key given': a new random key
    kwargs = {'network': 'bitcoin'}
    raises_iff = {BKeyError: lambda import_key: not (1 <= import_key and import_key < N)}
    pins = {'F-C04-scalar-range': lambda self, import_key, result: import_key >= N and (self if result is None else result).secret == import_key}

    def build(self, import_key, compressed):
        return (lambda: Key(import_key, network='bitcoin', compressed=compressed)), [], {}

    def ensures(self, import_key, compressed, result):
        k = self if result is None else result
        x, y = ec.mul_g(import_key)
        return (1 <= import_key and import_key < N and k.secret == import_key and k.private_byte == bip32.ser256(import_key)
                and k.public_compressed_byte == bip32.ser_p((x, y)) and k.public_uncompressed_byte == b'\x04' + bip32.ser256(x) + bip32.ser256(y)
                and k.public_byte == (k.public_compressed_byte if compressed else k.public_uncompressed_byte) and k.is_private is True)

    def sample(rng):
        return {'self': None, 'import_key': rng.choice([1, 2, N - 1, N, N + 1, 2 ** 256 - 1, rng.randrange(1, N), max(1, rng.getrandbits(rng.choice([8, 64, 200, 256])))]),
                'compressed': rng.random() < 0.5}


def _addr_case(net, script_type, encoding, datalen):
    name = '%s-%s-%s' % (net, script_type, encoding)
    network = Network(net)

    def spec_hash(data):
        if script_type in ('p2wsh', 'p2sh_p2wsh') or (encoding == 'bech32' and script_type in ('p2sh', 'p2tr')):
            h = hashlib.sha256(data).digest()
        else:
            h = bip32.hash160(data)
        if encoding == 'base58' and script_type in ('p2sh_p2wpkh', 'p2sh_p2wsh'):
            h = bip32.hash160(b'\x00' + bytes([len(h)]) + h)          # the P2SH-nested witness program
        return h

    def spec_prefix():
        if encoding == 'bech32':
            return network.prefix_bech32
        return network.prefix_address_p2sh if script_type in ('p2sh', 'p2sh_p2wpkh', 'p2sh_p2wsh') else network.prefix_address

    def ensures(self, data, result):
        a = self if result is None else result
        h = spec_hash(data)
        witver = 1 if script_type == 'p2tr' else 0
        return (a.hash_bytes == h and a.prefix == spec_prefix() and a.encoding == encoding
                and a.address == enc.pubkeyhash_to_addr(h, prefix=spec_prefix(), encoding=encoding, witver=witver))

    def native_ok(self, data, result):
        # independent statement of the same thing for native evaluation: decode the text with the reference decoders
        h = spec_hash(data)
        if encoding == 'base58':
            return result.address == b58.check_encode(spec_prefix() + h)
        return result.address == b32.encode(spec_prefix(), 1 if script_type == 'p2tr' else 0, list(h))

    def ens(self, data, result, ghost):
        if ghost is None:
            return native_ok(self, data, result)
        return ensures(self, data, result)

    d = {'params': {'self': RecordOf(Address), 'data': Bytes(datalen)}, 'kwargs': {'network': net, 'script_type': script_type, 'encoding': encoding},
         'ensures': ens, 'build': lambda self, data: ((lambda: Address(data, network=net, script_type=script_type, encoding=encoding)), [], {}),
         '__doc__': 'Address(data, %s, %s, %s): the standard payload hash and the network prefix of that address kind' % (net, script_type, encoding)}
    return contract('bitcoinlib.keys.Address.__init__', case=name, props=('C04', 'C05'))(type('addr_' + name.replace('-', '_'), (), d))


ADDR_CASES = []
for _net in sorted(NETWORK_DEFINITIONS):
    for _st, _enc, _ln in [('p2pkh', 'base58', 33), ('p2sh', 'base58', 40), ('p2sh_p2wpkh', 'base58', 33), ('p2sh_p2wsh', 'base58', 40),
                           ('p2wpkh', 'bech32', 33), ('p2wsh', 'bech32', 40), ('p2tr', 'bech32', 32)]:
        ADDR_CASES.append(_addr_case(_net, _st, _enc, _ln)._contract.key)


@contract('bitcoinlib.keys.Key.address', case='any-history-native', props=('C04',))
class key_address_native:
    """the address a key reports for (compressed?, script type, encoding) is the standard encoding of that key's hash - also
    after earlier address requests on the same object with other arguments (native evaluation; independent reference encoders)"""
    params = {'secret': Int(1, N - 1), 'choice': Int(0, 10 ** 6), 'earlier': Int(0, 10 ** 6)}
    native_only = True
    bounded = 'random keys; one earlier address() call with other arguments on the same object'

    def build(secret, choice, earlier):
        early = [dict(), dict(compressed=False), dict(encoding='bech32', script_type='p2wpkh'), dict(script_type='p2sh_p2wpkh'),
                 dict(prefix=b'\x6f'), dict(compressed=True), dict(prefix=b'\x00')]
        # the checked call states its configuration completely (an unspecified compression / script type / encoding is inherited from the
        # previous address object by design)
        opts = [dict(compressed=True, script_type='p2pkh', encoding='base58'), dict(compressed=False, script_type='p2pkh', encoding='base58'),
                dict(compressed=True, encoding='bech32', script_type='p2wpkh'), dict(compressed=True, script_type='p2sh_p2wpkh', encoding='base58'),
                dict(compressed=True, prefix=b'\x6f', script_type='p2pkh', encoding='base58')]

        def run():
            k = Key(secret, network='bitcoin')
            e = early[earlier % (len(early) + 1)] if earlier % (len(early) + 1) < len(early) else None
            if e is not None:
                try:
                    k.address(**e)
                except Exception:
                    pass
            o = opts[choice % len(opts)]
            a = k.address(**o)
            # the key's own hash (first read AFTER the address request): the hash of the key form the object now stands for, the one its address encodes
            return a, o, k.public_compressed_byte, k.public_uncompressed_byte, k.hash160, k.compressed
        return run, [], {}

    def ensures(secret, choice, earlier, result):
        addr, o, pc, pu, h160, comp = result
        data = pu if o.get('compressed') is False else pc
        if comp != (o.get('compressed') is not False) or h160 != bip32.hash160(data):
            return False
        if o.get('encoding') == 'bech32':
            return addr == b32.encode('bc', 0, list(bip32.hash160(data)))
        if o.get('script_type') == 'p2sh_p2wpkh':
            return addr == b58.check_encode(b'\x05' + bip32.hash160(b'\x00\x14' + bip32.hash160(data)))
        return addr == b58.check_encode(o.get('prefix', b'\x00') + bip32.hash160(data))


def _hd_address_models(reg):
    """Key.address(key, compressed, prefix, script_type, encoding) on an abstract key: an uninterpreted function of the key and of the four
    arguments as they ARRIVE there (None / True / False kept apart), so HDKey.address is checked for which arguments it passes on"""
    from pyvc import models
    from pyvc.values import Rec, SBool
    from pyvc.ctx import Unsupported

    def enc_arg(ip, a):
        if a is None:
            return [0, b'']
        if a is True or a is False:
            return [1 if a else 2, b'']
        if isinstance(a, SBool):
            return [models.ops.ite_int(ip.ctx, a, 1, 2) if hasattr(models.ops, 'ite_int') else z3.If(a.t, z3.IntVal(1), z3.IntVal(2)), b'']
        return [3, a]

    def m_address(ip, args, kwargs):
        key = args[0]
        if not (isinstance(key, Rec) and 'ghost_id' in key.attrs):
            return NotImplemented
        names = ['compressed', 'prefix', 'script_type', 'encoding']
        vals = list(args[1:]) + [None] * 4
        got = {n: (kwargs[n] if n in kwargs else vals[i]) for i, n in enumerate(names)}
        flat = [key.attrs['ghost_id']]
        for n in names:
            flat += enc_arg(ip, got[n])
        return models.uf_bytes(ip.ctx, 'KeyAddress', flat, 20)

    fn = Key.address

    def wrapped(ip, args, kwargs):
        r = m_address(ip, args, kwargs)
        if r is NotImplemented:
            return ip.call_pyfunc_body(fn, args, kwargs)
        return r
    reg.models[fn] = wrapped


def _hd_address_case(compressed, script_type, encoding):
    name = 'args-%s-%s-%s' % (compressed, script_type, encoding)

    def ensures(self, result):
        c = self.compressed if compressed is None else compressed
        st = self.script_type if script_type is None else script_type
        en = self.encoding if encoding is None else encoding
        return result == Key.address(self, c, None, st, en)

    d = {'params': {'self': RecordOf(HDKey, compressed=Bool, script_type=Str, encoding=Str, ghost_id=Int(0, 10 ** 6))},
         'kwargs': {'compressed': compressed, 'prefix': None, 'script_type': script_type, 'encoding': encoding},
         'ensures': ensures, 'native_skip': True, 'local_models': _hd_address_models,
         '__doc__': 'HDKey.address(compressed=%r, script_type=%r, encoding=%r): Key.address of the same key with every unspecified (None) argument replaced '
                    'by the key\'s own setting and every specified one - False included - passed on as given (Key.address abstract)' % (compressed, script_type, encoding)}
    return contract('bitcoinlib.keys.HDKey.address', case=name, props=('C04',))(type('hd_address_' + name.replace('-', '_'), (), d))


HD_ADDRESS_CASES = [_hd_address_case(c, st, en)._contract.key for c in (None, True, False) for st in (None, 'p2pkh') for en in (None, 'base58')]


@contract('bitcoinlib.keys.HDKey.address', case='any-history-native', props=('C04',))
class hdkey_address_native:
    """HDKey.address / address_uncompressed (the override that fills unspecified arguments from the key's own settings, then Key.address): the
    standard encoding of the key's hash for the requested compression, script type and encoding - an explicit compressed=False included, private
    and public HD keys, legacy and segwit keys, also after an earlier address request (native evaluation; independent reference encoders)"""
    params = {'secret': Int(1, N - 1), 'choice': Int(0, 10 ** 6), 'earlier': Int(0, 10 ** 6), 'shape': Int(0, 10 ** 6)}
    native_only = True
    bounded = 'random keys; HD key legacy / segwit / p2sh-segwit, private or public; one earlier address() call with other arguments on the same object'

    def build(secret, choice, earlier, shape):
        early = [None, dict(), dict(compressed=True, script_type='p2pkh', encoding='base58'), dict(script_type='p2sh_p2wpkh', encoding='base58')]
        opts = [dict(compressed=True, script_type='p2pkh', encoding='base58'), dict(compressed=False, script_type='p2pkh', encoding='base58'),
                dict(compressed=True, encoding='bech32', script_type='p2wpkh'), dict(compressed=True, script_type='p2sh_p2wpkh', encoding='base58'),
                dict(uncompressed_method=True, script_type='p2pkh', encoding='base58'), dict(compressed=None, script_type='p2pkh', encoding='base58')]
        wts = ['legacy', 'segwit', 'p2sh-segwit']

        def run():
            k = HDKey(bip32.ser256(secret), chain=hashlib.sha256(bip32.ser256(secret)).digest(), network='bitcoin', witness_type=wts[shape % 3])
            if (shape // 3) % 2:
                k = k.public()
            e = early[earlier % len(early)]
            if e is not None:
                try:
                    k.address(**e)
                except Exception:
                    pass
            o = dict(opts[choice % len(opts)])
            if o.pop('uncompressed_method', False):
                addr = k.address_uncompressed(**o)
                o['compressed'] = False
            else:
                addr = k.address(**o)
            return addr, o, k.public_compressed_byte, k.public_uncompressed_byte
        return run, [], {}

    def ensures(secret, choice, earlier, shape, result):
        addr, o, pc, pu = result
        pt = ec.mul_g(secret)
        if pc != bip32.ser_p(pt) or pu != b'\x04' + bip32.ser256(pt[0]) + bip32.ser256(pt[1]):
            return False
        data = pu if o.get('compressed') is False else pc
        if o.get('encoding') == 'bech32':
            return addr == b32.encode('bc', 0, list(bip32.hash160(data)))
        if o.get('script_type') == 'p2sh_p2wpkh':
            return addr == b58.check_encode(b'\x05' + bip32.hash160(b'\x00\x14' + bip32.hash160(data)))
        return addr == b58.check_encode(b'\x00' + bip32.hash160(data))


@contract('bitcoinlib.keys.Key.public_uncompressed_hex', case='decompress', props=('C04', 'C12'))
class decompress:
    """a key imported in compressed form exports the uncompressed form 04 || x || y with y the square root of x^3+7 whose parity
    matches the prefix, both coordinates as exactly 64 hex digits (modular exponentiation is uninterpreted)"""
    params = {'self': RecordOf(Key, _public_uncompressed_hex=Const(None), _x=Int(0, P - 1), _y=Const(None), public_hex=Const(None), x_hex=Const(None),
                               y_hex=Const(None)), 'odd': Bool}

    def init(self, odd):
        self.x_hex = bip32.ser256(self._x).hex()
        self.public_hex = ('03' if odd else '02') + self.x_hex

    def prepare(self, odd):
        x = self.fields['_x']
        return {'self': Key(bytes([3 if odd else 2]) + x.to_bytes(32, 'big'))}

    def requires(self, odd):
        return ec.on_curve((self._x, ec_y(self._x, odd)))

    def ensures(self, odd, result):
        return result == '04' + bip32.ser256(self._x).hex() + bip32.ser256(ec_y(self._x, odd)).hex()


def ec_y(x, odd):
    """the y coordinate with the requested parity: r = (x^3+7)^((p+1)/4) mod p, or p - r"""
    r = pow((pow(x, 3, P) + 7) % P, (P + 1) // 4, P)
    return r if (r % 2 == 1) == odd else P - r


@contract('bitcoinlib.keys.Key.__init__', case='offcurve-public-native', props=('C04',))
class offcurve_public:
    """a compressed or uncompressed public key encoding that is not a point of the curve is refused"""
    params = {'x': Int(0, P - 1), 'y': Int(0, P - 1), 'form': Int(0, 2)}
    native_only = True
    bounded = 'random x without a curve point (compressed form) and random off-curve (x, y) pairs (uncompressed form)'

    def build(x, y, form):
        def run():
            if form == 0:
                rep = bytes([2 + y % 2]) + x.to_bytes(32, 'big')
            else:
                rep = b'\x04' + x.to_bytes(32, 'big') + y.to_bytes(32, 'big')
            try:
                k = Key(rep)
                return ('accepted', k.address())
            except Exception as e:
                return ('refused', type(e).__name__)
        return run, [], {}

    def requires(x, y, form):
        if form == 0:
            r = pow((pow(x, 3, P) + 7) % P, (P + 1) // 4, P)
            return (r * r - x * x * x - 7) % P != 0            # x is not the abscissa of any curve point
        return not ec.on_curve((x, y))

    def ensures(x, y, form, result):
        return result[0] == 'refused'

    pins = {'F-C04-offcurve-public': lambda x, y, form, result: result[0] == 'accepted'}
