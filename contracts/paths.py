"""C09 (path construction only): keys.path_expand instantiates the documented BIP44/49/84/48/45 templates."""
import z3
from pyvc.api import contract, Int, Const, INSTALLERS
from contracts.external import path_item
from bitcoinlib.keys import path_expand, BKeyError
from bitcoinlib.main import get_key_structure_data
from bitcoinlib.networks import Network, NETWORK_DEFINITIONS
from bitcoinlib.config.config import WALLET_KEY_STRUCTURES

# the documented templates, restated from the BIPs (purpose / coin type / account hardened, change / index not)
DOCUMENTED = {
    ('legacy', False): (44, ['m', "purpose'", "coin_type'", "account'", 'change', 'address_index']),
    ('p2sh-segwit', False): (49, ['m', "purpose'", "coin_type'", "account'", 'change', 'address_index']),
    ('segwit', False): (84, ['m', "purpose'", "coin_type'", "account'", 'change', 'address_index']),
    ('legacy', True): (45, ['m', "purpose'", 'cosigner_index', 'change', 'address_index']),
    ('p2sh-segwit', True): (48, ['m', "purpose'", "coin_type'", "account'", "script_type'", 'change', 'address_index']),
    ('segwit', True): (48, ['m', "purpose'", "coin_type'", "account'", "script_type'", 'change', 'address_index']),
}


def _case(witness_type, multisig, net):
    name = '%s-%s-%s' % (witness_type, 'multisig' if multisig else 'single', net)
    purpose, template = DOCUMENTED[(witness_type, multisig)]
    coin = NETWORK_DEFINITIONS[net]['bip44_cointype']
    script_type_id = 1 if witness_type == 'p2sh-segwit' else 2

    def result_is(account_id, cosigner_id, change, address_index):
        vals = {'purpose': purpose, 'coin_type': coin, 'account': account_id, 'script_type': script_type_id, 'cosigner_index': cosigner_id,
                'change': change, 'address_index': address_index}
        out = []
        for t in template:
            if t == 'm':
                out.append('m')
            elif t[-1:] == "'":
                out.append(path_item(vals[t[:-1]], "'"))
            else:
                out.append(path_item(vals[t], ''))
        return out

    d = {'params': {'account_id': Int(0, 2 ** 31 - 1), 'cosigner_id': Int(0, 15), 'change': Int(0, 1), 'address_index': Int(0, 2 ** 31 - 1)},
         'kwargs': {'path': [], 'witness_type': witness_type, 'multisig': multisig, 'network': net, 'path_template': None, 'level_offset': None,
                    'purpose': purpose},
         'result_is': result_is,
         '__doc__': 'path_expand([]) for a %s %s wallet on %s: the documented BIP%d path with the given account / change / index'
                    % (witness_type, 'multisig' if multisig else 'single-key', net, purpose)}
    return contract('bitcoinlib.keys.path_expand', case=name, props=('C09',))(type('path_' + name.replace('-', '_'), (), d))


CASES = [_case(w, m, n)._contract.key for (w, m) in DOCUMENTED for n in sorted(NETWORK_DEFINITIONS)]
