"""Contracts on bitcoinlib/scripts.py: push encoding, script numbers, stack operations."""
from pyvc.api import contract, Int, Bytes, Bool, ListOf, implies
from spec import script as sp


@contract('bitcoinlib.scripts.data_pack', props=('C18', 'C01', 'C10'))
class data_pack:
    """Data push uses the shortest push opcode for every length up to 65535; longer data is refused, never mis-encoded."""
    params = {'data': Bytes}

    def requires(data):
        return len(data) < 2 ** 32

    raises_iff = {OverflowError: lambda data: len(data) > 0xffff}

    def result_is(data):
        return sp.push_data(data)


@contract('bitcoinlib.scripts.encode_num', props=('C18', 'C19'))
class encode_num:
    """Script number encoding is CScriptNum::serialize (minimal, sign-magnitude little endian)."""
    params = {'num': Int}
    bounds = {'bit_length_max': 72}

    def requires(num):
        return -2 ** 64 < num < 2 ** 64

    def result_is(num):
        return sp.script_num_encode(num)


@contract('bitcoinlib.scripts.decode_num', case='roundtrip', props=('C18', 'C19'))
class decode_num_roundtrip:
    """decode_num(encode(n)) == n for all script numbers."""
    params = {'n': Int}

    def requires(n):
        return -2 ** 64 < n < 2 ** 64

    def call(n):
        return {'encoded': sp.script_num_encode(n)}

    def result_is(n):
        return n


@contract('bitcoinlib.scripts.decode_num', props=('C18', 'C19'))
class decode_num:
    """decode_num equals CScriptNum decoding on every byte string (also non-minimal ones)."""
    params = {'encoded': Bytes(max=9, split=True)}

    def result_is(encoded):
        return sp.script_num_decode(encoded)


@contract('bitcoinlib.scripts.encode_num', case='reencode', props=('C18',))
class encode_num_reencode:
    """encode_num(decode(b)) == b for every minimally encoded b."""
    params = {'b': Bytes(max=8, split=True)}

    def requires(b):
        return sp.is_minimal_num(b)

    def call(b):
        return {'num': sp.script_num_decode(b)}

    def result_is(b):
        return b
