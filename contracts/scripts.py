"""Contracts on bitcoinlib/scripts.py: push encoding, script numbers, stack operations."""
import z3
from pyvc.api import contract, Int, Bytes, Bool, ListOf, implies, T, RecordOf, Const, OneOfElem, loop, fold
from spec import script as sp


@contract('bitcoinlib.scripts.data_pack', props=('C18', 'C01', 'C10'))
class data_pack:
    """Data push uses the shortest push opcode for every length up to 65535; longer data is refused, never mis-encoded."""
    params = {'data': Bytes}

    def requires(data):
        return len(data) < 2 ** 32

    raises_iff = {OverflowError: lambda data: len(data) > 0xffff}

    def result_is(data):
        return sp.push_data(data)


@contract('bitcoinlib.scripts.encode_num', props=('C18', 'C19'))
class encode_num:
    """Script number encoding is CScriptNum::serialize (minimal, sign-magnitude little endian)."""
    params = {'num': Int}
    bounds = {'bit_length_max': 72}

    def requires(num):
        return -2 ** 64 < num < 2 ** 64

    def result_is(num):
        return sp.script_num_encode(num)


@contract('bitcoinlib.scripts.decode_num', case='roundtrip', props=('C18', 'C19'))
class decode_num_roundtrip:
    """decode_num(encode(n)) == n for all script numbers."""
    params = {'n': Int}

    def requires(n):
        return -2 ** 64 < n < 2 ** 64

    def call(n):
        return {'encoded': sp.script_num_encode(n)}

    def result_is(n):
        return n


@contract('bitcoinlib.scripts.decode_num', props=('C18', 'C19'))
class decode_num:
    """decode_num equals CScriptNum decoding on every byte string (also non-minimal ones)."""
    params = {'encoded': Bytes(max=9, split=True)}

    def result_is(encoded):
        return sp.script_num_decode(encoded)


@contract('bitcoinlib.scripts.encode_num', case='reencode', props=('C18',))
class encode_num_reencode:
    """encode_num(decode(b)) == b for every minimally encoded b."""
    params = {'b': Bytes(max=8, split=True)}

    def requires(b):
        return sp.is_minimal_num(b)

    def call(b):
        return {'num': sp.script_num_decode(b)}

    def result_is(b):
        return b


# ---------------------------------------------------------------------------------------------------
# C19: one contract per Stack.op_* method against the consensus effect (spec/script.py)

from bitcoinlib.scripts import Stack

_StackT = ListOf(Bytes, cls=Stack)


def _op_contract(name, spec_fn, requires=None, pin_fn=None, bounds=None, specname=None, stack_t=None, bounded=None):
    """`self` is any stack (any depth, any byte strings).  FAIL is what Script.evaluate turns into False:
    the method returns False or raises.  Otherwise the stack afterwards is exactly the consensus stack."""

    def ensures(old_self, self, result):
        exp = spec_fn(list(old_self))
        if exp is None:
            return result is False
        return result is not False and list(self) == exp

    def raises_cond(old_self):
        return spec_fn(list(old_self)) is None

    def pin_holds(old_self, self, result):
        exp = pin_fn(list(old_self))
        if exp is None:
            return result is False
        return result is not False and list(self) == exp

    d = {'params': {'self': stack_t or _StackT}, 'ensures': ensures, 'bounded': bounded, 'raises': {Exception: raises_cond},
         'prepare': lambda self: {'self': Stack(self)},
         '__doc__': 'Stack.%s has the consensus effect of %s on every stack' % (name, (specname or name).upper())}
    if requires is not None:
        d['requires'] = requires
    if pin_fn is not None:
        d['pins'] = {'F-C19-' + name: pin_holds}
    if bounds:
        d['bounds'] = bounds
    cls = type(name, (), d)
    return contract('bitcoinlib.scripts.Stack.' + name, props=('C19',))(cls)


def _depth_ok(self):
    return len(self) <= 1000          # MAX_STACK_SIZE


def _size_ok(self):
    return len(self) == 0 or len(self[-1]) <= 520      # MAX_SCRIPT_ELEMENT_SIZE


SIMPLE_OPS = ['op_nop', 'op_verify', 'op_return', 'op_2drop', 'op_2dup', 'op_3dup', 'op_2over', 'op_2rot', 'op_2swap',
              'op_ifdup', 'op_drop', 'op_dup', 'op_nip', 'op_over', 'op_rot', 'op_swap', 'op_tuck',
              'op_equal', 'op_equalverify', 'op_1add', 'op_1sub', 'op_negate', 'op_abs', 'op_not', 'op_0notequal',
              'op_add', 'op_sub', 'op_booland', 'op_boolor', 'op_numequal', 'op_numequalverify', 'op_numnotequal',
              'op_min', 'op_max', 'op_within', 'op_ripemd160', 'op_sha1', 'op_sha256', 'op_hash160', 'op_hash256']
from spec import pins_c19 as _pins
def _top_short(self):
    """OP_VERIFY / OP_IFDUP test the truth value of an item of ANY length; the proof covers items of up to 9 bytes (the lemma that ties
    CastToBool to the numeric value is proved up to that length), longer items are evaluated natively (bounded stand-in below)."""
    return len(self) == 0 or len(self[-1]) <= 9


for _n in SIMPLE_OPS:
    _op_contract(_n, getattr(sp, _n), pin_fn=getattr(_pins, _n, None), requires=_top_short if _n in ('op_verify', 'op_ifdup') else None)


def _long_truth_case(name, spec_fn):
    def build(self):
        st = Stack(self)
        return (lambda: (getattr(st, name)(), list(st))), [], {}

    def ensures(self, result):
        exp = spec_fn(list(self))
        res, after = result
        if exp is None:
            return res is False
        return res is not False and after == exp

    def sample(rng):
        n = rng.choice([10, 11, 16, 20, 32, 33, 64, 75, 76, 255, 256, 520])
        kind = rng.random()
        if kind < 0.3:
            top = bytes(n)
        elif kind < 0.5:
            top = bytes(n - 1) + b'\x80'
        elif kind < 0.7:
            j = rng.randrange(n)
            top = bytes(j) + bytes([rng.choice([1, 0x80, 0xff])]) + bytes(n - j - 1)
        else:
            top = bytes(rng.getrandbits(8) for _ in range(n))
        return {'self': [bytes(rng.getrandbits(8) for _ in range(rng.randrange(4))) for _ in range(rng.randrange(3))] + [top]}

    d = {'params': {'self': _StackT}, 'build': build, 'ensures': ensures, 'sample': sample, 'native_only': True,
         'bounded': 'top items of 10..520 bytes: all-zero, negative zero, one non-zero byte at a random position, random',
         '__doc__': 'Stack.%s on items longer than 9 bytes (native evaluation only)' % name}
    return contract('bitcoinlib.scripts.Stack.' + name, case='long-items-native', props=('C19',))(type(name + '_long', (), d))


_long_truth_case('op_verify', sp.op_verify)
_long_truth_case('op_ifdup', sp.op_ifdup)
_op_contract('op_depth', sp.op_depth, requires=_depth_ok)
_op_contract('op_size', sp.op_size, requires=_size_ok)


class _SmallStackT(T):
    """BOUNDED shape for PICK / ROLL (symbolic stack positions): depth 0..6, numeric operand on top of 0..5 bytes
    (every byte symbolic), other items byte strings of any length.  Complete for these shapes, nothing beyond."""
    MAX_DEPTH = 6

    def fresh(self, ctx, name):
        d = ctx.fresh_int('depth_' + name)
        ctx.assume(z3.And(d >= 0, d <= self.MAX_DEPTH))
        depth = ctx.concretize(d, limit=10, what='stack depth')
        items = [Bytes.fresh(ctx, '%s[%d]' % (name, i)) for i in range(max(depth - 1, 0))]
        if depth >= 1:
            items.append(Bytes(max=5, split=True).fresh(ctx, '%s.top' % name))
        return Stack(items)

    def sample(self, rng):
        depth = rng.randint(0, self.MAX_DEPTH)
        items = [bytes(rng.getrandbits(8) for _ in range(rng.choice([0, 1, 2, 5, 33]))) for _ in range(max(depth - 1, 0))]
        if depth:
            top = rng.choice([b'', b'\x00', b'\x01', b'\x02', b'\x03', b'\x05', b'\x06', b'\x81', b'\x80', b'\x01\x00', b'\x00\x01',
                              bytes(rng.getrandbits(8) for _ in range(rng.randint(0, 5)))])
            items.append(top)
        return Stack(items)


def _top_num(self):
    return len(self) == 0 or len(self[-1]) <= 8


# PICK on stacks of ANY depth: the symbolic stack position goes through the list model (operand of up to 8 bytes; longer operands fail in consensus
# and are not covered here).  ROLL removes an element at a symbolic position, which the list model only does up to a bound: it stays a bounded case.
_op_contract('op_pick', sp.op_pick, pin_fn=_pins.op_pick, requires=_top_num)
_op_contract('op_roll', sp.op_roll, pin_fn=_pins.op_roll, stack_t=_SmallStackT(), bounded='stack depth <= 6, operand length <= 5 bytes')
for _n, _s in [('op_numlessthan', 'op_lessthan'), ('op_numgreaterthan', 'op_greaterthan'),
               ('op_numlessthanorequal', 'op_lessthanorequal'), ('op_numgreaterthanorequal', 'op_greaterthanorequal')]:
    _op_contract(_n, getattr(sp, _s), pin_fn=getattr(_pins, _n), specname=_s)
for _n in ['op_nop1', 'op_nop4', 'op_nop5', 'op_nop6', 'op_nop7', 'op_nop8', 'op_nop9', 'op_nop10']:
    _op_contract(_n, sp.op_nop, specname='op_nop')


# --- lock-time opcodes ------------------------------------------------------------------------------------------------------

def _cltv_contract():
    def ensures(old_self, self, sequence, tx_locktime, result):
        exp = sp.op_checklocktimeverify(list(old_self), tx_locktime, sequence)
        if exp is None:
            return result is False
        return result is not False and list(self) == exp

    def raises_cond(old_self, sequence, tx_locktime):
        return sp.op_checklocktimeverify(list(old_self), tx_locktime, sequence) is None

    d = {'params': {'self': _StackT, 'sequence': Int(0, 2 ** 32 - 1), 'tx_locktime': Int(0, 2 ** 32 - 1)}, 'ensures': ensures,
         'raises': {Exception: raises_cond}, 'prepare': lambda self, sequence, tx_locktime: {'self': Stack(self)},
         '__doc__': 'Stack.op_checklocktimeverify has the BIP65 effect for every stack, nLockTime and nSequence'}
    return contract('bitcoinlib.scripts.Stack.op_checklocktimeverify', props=('C19',))(type('op_checklocktimeverify', (), d))


def _csv_contract():
    def ensures(old_self, self, sequence, version, result):
        exp = sp.op_checksequenceverify(list(old_self), version, sequence)
        if exp is None:
            return result is False
        return result is not False and list(self) == exp

    def raises_cond(old_self, sequence, version):
        return sp.op_checksequenceverify(list(old_self), version, sequence) is None

    d = {'params': {'self': _StackT, 'sequence': Int(0, 2 ** 32 - 1), 'version': Int(0, 2 ** 31 - 1)}, 'ensures': ensures,
         'raises': {Exception: raises_cond}, 'prepare': lambda self, sequence, version: {'self': Stack(self)},
         '__doc__': 'Stack.op_checksequenceverify has the BIP112 effect'}
    return contract('bitcoinlib.scripts.Stack.op_checksequenceverify', props=('C19',))(type('op_checksequenceverify', (), d))


_cltv_contract()
_csv_contract()


# --- Script.serialize: command list -> bytes (C18: "serializing ... reproduces the same bytes", shortest push for every item) --------

def _serialize_case(kinds):
    """one case per vector of command kinds ('o' opcode, 'd' data item); every opcode value, every data item of every length"""
    from bitcoinlib.scripts import Script
    name = 'cmds-' + (kinds or 'none')
    params = {'self': RecordOf(Script, commands=Const(None), _raw=Const(b''))}
    for i, k in enumerate(kinds):
        params['c%d' % i] = Int(0, 255) if k == 'o' else Bytes

    def items(**env):
        return [env['c%d' % i] for i in range(len(kinds))]

    def init(**env):
        env['self'].commands = items(**env)

    def requires(**env):
        ok = True
        for i, k in enumerate(kinds):
            if k == 'd':
                ok = ok and len(env['c%d' % i]) <= 0xffff
        return ok

    def result_is(**env):
        return sp.serialize_commands(items(**env))

    def ensures(**env):
        return env['self']._raw == env['result']

    def prepare(**env):
        return {'self': Script(commands=list(items(**env)))}

    d = {'params': params, 'init': init, 'requires': requires, 'result_is': result_is, 'ensures': ensures, 'prepare': prepare,
         'init_after_prepare': True,
         '__doc__': 'Script.serialize of %d commands of kinds %s is the concatenation of opcode bytes and canonical pushes' % (len(kinds), kinds or '-')}
    return contract('bitcoinlib.scripts.Script.serialize', case=name, props=('C18',))(type('serialize_' + name, (), d))


def _kind_vectors(n):
    import itertools
    return [''.join(v) for k in range(n + 1) for v in itertools.product('od', repeat=k)]


SERIALIZE_CASES = [_serialize_case(kv)._contract.key for kv in _kind_vectors(3)]


# Script.serialize for a command list of ANY length: loop invariant over a left fold; an element is an opcode (0..255) or a data item of up
# to 65535 bytes (longer items make data_pack raise OverflowError: covered by the data_pack contract and the per-count cases)
from bitcoinlib.scripts import Script as _Script

_CmdElem = OneOfElem([Int(0, 255), Bytes(max=0xffff)])


@loop('bitcoinlib.scripts.Script.serialize', 0,
      defines={'raw': lambda self, k: fold(sp.serialize_step, b'', self.commands, k, key='script-ser')})
def serialize_inv(self, k):
    """after k commands raw is the serialisation of the first k commands"""
    return 0 <= k and k <= len(self.commands)


@contract('bitcoinlib.scripts.Script.serialize', case='any-count', props=('C18',))
class serialize_any_count:
    """Script.serialize of ANY number of commands (each an opcode value 0..255 or a data item of 0..65535 bytes) is the concatenation of the
    opcode bytes and the canonical (shortest) pushes, and is what the object caches as its raw form."""
    params = {'self': RecordOf(_Script, commands=ListOf(_CmdElem), _raw=Const(b''))}

    def result_is(self):
        return sp.serialize_commands_any(self.commands)

    def ensures(self, result):
        return self._raw == result

    def prepare(self):
        return {'self': _Script(commands=list(self.fields['commands']))}


# --- signature opcodes: stack discipline and signature / key matching order (signature decoding and ECDSA abstract) ------------------------
from pyvc.values import Sym, SBool, SBytes
from bitcoinlib.keys import Signature as _Signature


def sig_check(message, sig, pubkey):
    """`sig` (as it stands in the script: DER signature + hash type byte) is a valid signature of `message` under `pubkey`.  Under the verifier
    an uninterpreted predicate; Signature.parse_bytes(sig).verify(message, pubkey) is ASSUMED to compute exactly this predicate for well-formed
    signatures (signature decoding and ECDSA verification are the subject of C13 / C02).  Natively: strict DER decoding and the pure-Python
    ECDSA of the hand-off harness (independent of the library)."""
    from bounded.c10_handoff import _der, ecdsa_ok
    d = _der(sig)
    return d is not None and ecdsa_ok(message, d[0], d[1], pubkey)


def _sample_multisig(n, m):
    def sample(rng):
        from bitcoinlib.keys import Key, sign
        msg = bytes(rng.getrandbits(8) for _ in range(32))
        ks = [Key(rng.randrange(1, 2 ** 200)) for _ in range(n)]
        pks = [k.public_byte for k in ks]
        order = sorted(rng.sample(range(n), m)) if rng.random() < 0.6 else [rng.randrange(n) for _ in range(m)] if n else []
        sigs = []
        for i in order:
            wrong = rng.random() < 0.2
            sigs.append(sign(bytes(32) if wrong else msg, ks[i]).as_der_encoded())
        base = [bytes(rng.getrandbits(8) for _ in range(rng.randrange(3))) for _ in range(rng.choice([0, 1, 1, 2]))]
        num = lambda v: b'' if v == 0 else bytes([v])
        return {'self': base + sigs + [num(m)] + pks + [num(n)], 'message': msg}
    return sample


class _AbsSig(Sym):
    pytype = _Signature

    def __init__(self, raw):
        self.raw = raw


def _sigops_models(reg):
    """Signature.parse_bytes(sig) on symbolic bytes yields an abstract signature whose verify(message, key) is the uninterpreted predicate SigCheck(message, sig, key); parsing never raises (well-formed signatures assumed)"""
    from contracts import external
    from pyvc.ctx import Unsupported

    def m_parse(ip, args, kwargs):
        raw = args[0]
        if not isinstance(raw, (SBytes, bytes)):
            raise Unsupported('Signature.parse_bytes(%r)' % (raw,))
        return _AbsSig(raw)

    def m_method(ip, obj, name, args, kwargs):
        if name == 'verify':
            msg = args[0] if args else kwargs.get('txid')
            pk = args[1] if len(args) > 1 else kwargs.get('public_key')
            return SBool(external.uf(ip.ctx, 'SigCheck', [msg, obj.raw, pk], z3.BoolSort()))
        raise Unsupported('Signature.%s on an abstract signature' % name)

    def m_sig_check(ip, args, kwargs):
        return SBool(external.uf(ip.ctx, 'SigCheck', [args[0], args[1], args[2]], z3.BoolSort()))

    reg.models[_Signature.parse_bytes] = m_parse
    reg.models[sig_check] = m_sig_check
    reg.sym_methods[_AbsSig] = m_method


def _sigop_contract(name, spec_fn, stack_t=None, requires=None, bounded=None):
    def ensures(old_self, self, message, result):
        exp = spec_fn(list(old_self), lambda s, k: sig_check(message, s, k))
        if exp is None:
            return result is False
        return result is not False and list(self) == exp

    def raises_cond(old_self, message):
        return spec_fn(list(old_self), lambda s, k: sig_check(message, s, k)) is None

    d = {'params': {'self': stack_t or _StackT, 'message': Bytes(32)}, 'ensures': ensures, 'raises': {Exception: raises_cond}, 'native_skip': True,
         'local_models': _sigops_models, 'bounded': bounded,
         '__doc__': 'Stack.%s: stack effect and matching order of %s with an abstract signature check' % (name, name[3:].upper())}
    if requires is not None:
        d['requires'] = requires
    return contract('bitcoinlib.scripts.Stack.' + name, props=('C19',))(type(name, (), d))


_sigop_contract('op_checksig', sp.op_checksig)
_sigop_contract('op_checksigverify', sp.op_checksigverify)


class _MultisigStackT(T):
    """any stack (any depth, any items) with  sig_1 .. sig_m <m> pk_1 .. pk_n <n>  on top; the counts are the minimal script numbers"""

    def __init__(self, n, m):
        self.n, self.m = n, m

    def fresh(self, ctx, name):
        from pyvc.values import SList
        base = _StackT.fresh(ctx, name)
        num = lambda v: b'' if v == 0 else bytes([v])
        tail = ([Bytes.fresh(ctx, '%s.sig%d' % (name, i + 1)) for i in range(self.m)] + [num(self.m)]
                + [Bytes.fresh(ctx, '%s.pk%d' % (name, i + 1)) for i in range(self.n)] + [num(self.n)])
        return SList(base.rid, base.n, tail, base.elem, base.cls, 0)


def _multisig_case(opname, spec_fn, n, m):
    def ensures(old_self, self, message, result):
        exp = spec_fn(list(old_self), lambda s, k: sig_check(message, s, k))
        if exp is None:
            return result is False
        return result is not False and list(self) == exp

    def raises_cond(old_self, message):
        return spec_fn(list(old_self), lambda s, k: sig_check(message, s, k)) is None

    pin_fn = getattr(_pins, opname)

    def pin_holds(old_self, self, message, result):
        exp = pin_fn(list(old_self), lambda s, k: sig_check(message, s, k))
        if exp is None:
            return result is False
        return result is not False and list(self) == exp

    d = {'params': {'self': _MultisigStackT(n, m), 'message': Bytes(32)}, 'ensures': ensures, 'raises': {Exception: raises_cond},
         'prepare': lambda self, message: {'self': Stack(self)}, 'sample': _sample_multisig(n, m), 'no_history': True,
         'local_models': _sigops_models, 'kwargs': {'data': None}, 'pins': {'F-C19-checkmultisig-missing-dummy': pin_holds},
         'bounded': 'n = %d keys, m = %d signatures (one case per n <= 3, m <= n); counts minimally encoded' % (n, m),
         '__doc__': 'Stack.%s for %d-of-%d on top of any stack: items removed, matching order and result as in consensus (signature check abstract)' % (opname, m, n)}
    return contract('bitcoinlib.scripts.Stack.' + opname, case='n%d-m%d' % (n, m), props=('C19', 'C10'))(type('%s_n%d_m%d' % (opname, n, m), (), d))


MULTISIG_CASES = []
for _nn in range(0, 4):
    for _mm in range(0, _nn + 1):
        MULTISIG_CASES.append(_multisig_case('op_checkmultisig', sp.op_checkmultisig, _nn, _mm)._contract.key)
        MULTISIG_CASES.append(_multisig_case('op_checkmultisigverify', sp.op_checkmultisigverify, _nn, _mm)._contract.key)
