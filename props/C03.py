"""C03 - BIP32 conformance of HD key derivation."""
CONTRACT_MODULES = ['contracts.keys_hd']
CONTRACTS = ['bitcoinlib.keys.HDKey.child_private', 'bitcoinlib.keys.HDKey.child_public', 'bitcoinlib.keys.HDKey.public_master[hardened-path-native]'] + [
    'bitcoinlib.keys.HDKey.subkey_for_path[path%d-%s-%s]' % (L, k, '_'.join(m or 'none' for m in ms))
    for L, k, ms in [(1, k, [m]) for m in ['', "'", 'h', 'H', 'p', 'P'] for k in ('priv', 'pub')] +
                    [(2, 'priv', ['', '']), (2, 'priv', ["'", '']), (2, 'priv', ['', 'h'])]] + [
    'bitcoinlib.keys.HDKey.subkey_for_path[path1-privM-%s]' % (m or 'none') for m in ['', "'", 'h', 'H', 'p', 'P']]
LEVEL = 'proof'
LEVEL_TEXT = ('HDKey.child_private and HDKey.child_public are verified against CKDpriv / CKDpub of the BIP32 text for every parent key, chain code, '
              'depth and every index in [0, 2^32): key material, chain code, depth, parent fingerprint and child number are the specified '
              'ones, indices >= 2^31 are hardened, invalid indices and hardened-from-public requests raise. HDKey.subkey_for_path is verified '
              'for one path item of every marker spelling from a private and from a public parent, and for the public-master form M/<item> on a private key (the loop body); two-item paths are only '
              'evaluated natively (bounded). Three defects found this way were repaired (fix: commits).')
LEVEL_NOTE = ('Uninterpreted / assumed: HMAC-SHA512, hash160, secp256k1 group operations (fastecdsa), the HDKey(...) constructor call at the end '
              'of the derivation functions (assumed to record its arguments; see C12/C04), change_base(10->16) via the hex() model. '
              'Public/private commutation N(CKDpriv(k,i)) = CKDpub(N(k),i) follows from the two verified postconditions plus the group '
              'homomorphism (a*G + b*G = (a+b)*G), which is an assumption about the curve, not mechanised here. The point-at-infinity child '
              '(probability 2^-256, no witness constructible) is assumed away in child_public. from_seed / master-key import: not covered.')
NOT_COVERED = ['HDKey.from_seed', 'paths longer than one item (native evaluation only)', 'point at infinity in CKDpub']
FUZZ_QUICK = 400
FUZZ_THOROUGH = 2000

def _trusted():
    from contracts import external
    return list(external.TRUSTED) + ['HDKey(...) constructor: assumed contract contracts/keys_hd._hdkey_ctor']
TRUSTED = _trusted()
