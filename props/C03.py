"""C03 - BIP32 conformance of HD key derivation."""
CONTRACT_MODULES = ['contracts.keys_hd']
CONTRACTS = ['bitcoinlib.keys.HDKey.child_private', 'bitcoinlib.keys.HDKey.child_public']
LEVEL = 'proof'
LEVEL_TEXT = 'placeholder'
LEVEL_NOTE = 'placeholder'
CLAIMED = False
FUZZ_QUICK = 400
FUZZ_THOROUGH = 2000
