"""C02 - transaction verification sound and complete for standard inputs."""
CONTRACT_MODULES = ['contracts.transactions', 'contracts.keys_sig']
CONTRACTS = ['bitcoinlib.transactions.Input.verify', 'bitcoinlib.keys.Signature.verify[digest-given]', 'bitcoinlib.keys.verify[signature-object]']
LEVEL = 'proof'
LEVEL_TEXT = 'placeholder'
LEVEL_NOTE = 'placeholder'
CLAIMED = False
FUZZ_QUICK = 150
FUZZ_THOROUGH = 3000
