"""C02 - transaction verification sound and complete for standard inputs."""
CONTRACT_MODULES = ['contracts.encoding', 'contracts.transactions', 'contracts.keys_sig']
CONTRACTS = ['bitcoinlib.transactions.Input.verify', 'bitcoinlib.keys.Signature.verify[digest-given]', 'bitcoinlib.keys.verify[signature-object]'] + [
    'bitcoinlib.transactions.Transaction.signature_hash[dispatch-tx_%s-arg_%s]' % ab for ab in
    [('segwit', None), ('segwit', 'segwit'), ('segwit', 'p2sh-segwit'), ('segwit', 'legacy'), ('legacy', None), ('legacy', 'legacy')]] + [
    'bitcoinlib.transactions.Transaction.verify[%dinputs]' % n for n in (1, 2, 3)] + ['bitcoinlib.transactions.Transaction.verify[any-count]']
LEVEL = 'proof'
LEVEL_TEXT = ('Input.verify (the m-of-n counting loop) is proved SOUND and COMPLETE for any number of keys and signatures by an inductive loop '
              'invariant with a ghost matching: it returns True exactly when the first m signatures are valid for m distinct listed keys in '
              'increasing key order (termination proved by a variant). Signature.verify / keys.verify are proved to check exactly the digest passed '
              'in with the stored (r, s) and public point, whatever digest the object remembered. signature_hash dispatch is proved per witness '
              'type. One defect (a signature counted for two key slots) was repaired.')
LEVEL_NOTE = ('Signature validity is the abstract predicate V(digest, signature j, key k) (ECDSA: C13 + assumed fastecdsa). Transaction.verify is proved for ANY number of inputs (loop invariant with a quantified "all earlier inputs verified") and for 1..3 inputs '
              '(unrolled): True exactly when every input verifies under the digest of its own index / hash type / witness type. NOT covered: '
              'Transaction.sign placement, signing spread over several '
              'calls, the tamper clause (needs injectivity of the preimage + hash collision resistance + ECDSA unforgeability as hypotheses), '
              'serialize/parse round trips (C06).')
LEVEL_NOTE += (' Whether the fields a parsed transaction holds are what its bytes say (hash type byte, witness items) and the tamper clause in its concrete form are covered by a BOUNDED '
               'native stand-in (bounded/c02_verify.py, never counted as proved): library-signed transactions are damaged one serialised field at a time, parsed and verified, '
               'against an independent judge (own reader, spec/sighash.py digests, pure-Python ECDSA). The object state an earlier verify() leaves behind (Input.valid) is a free '
               'Boolean in the Transaction.verify shapes.')
NOT_COVERED = ['tamper clause as a proof (bounded only)', 'Transaction.sign signature placement and multi-call histories', 'tamper lemma']
TRUSTED = ['V(digest, sig, key) abstract; ECDSA assumed (C13)', 'pyvc loop-invariant rule (invariant cut, natural-number induction)']
FUZZ_QUICK = 150
FUZZ_THOROUGH = 3000



def extra_checks(tier, seed, opens):
    from bounded import c02_verify
    return [c02_verify.run(tier, seed, opens)]
