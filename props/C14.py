"""C14 - mnemonic sentences follow BIP39 in every language and round-trip."""
CONTRACT_MODULES = ['contracts.mnemonic']
CONTRACTS = ['bitcoinlib.mnemonic.Mnemonic.to_seed[dataflow]', 'bitcoinlib.mnemonic.Mnemonic.to_seed[dataflow-validate]']
LEVEL = 'other'
LEVEL_TEXT = ('MOSTLY BOUNDED. Proved: the data flow of Mnemonic.to_seed - the seed is PBKDF2-HMAC-SHA512 over UTF-8(NFKD(sentence)) with salt '
              '"mnemonic" || UTF-8(NFKD(passphrase)), 2048 rounds, for every sentence and passphrase text (normalisation, UTF-8 and PBKDF2 are '
              'uninterpreted; the missing passphrase normalisation was found this way and repaired). Sentence <-> entropy conversion, checksum '
              'rejection and the nine word lists are checked natively against a BIP39 reference for all sizes and languages.')
LEVEL_NOTE = ('Mnemonic.sanitize_mnemonic is an assumed contract in the to_seed proof (returns the NFKD sentence). to_mnemonic / to_entropy / checksum '
              'run through change_base on bit strings and word-list lookups: outside the verified subset, bounded only.')
NOT_COVERED = ['to_mnemonic / to_entropy / checksum as proofs', 'detect_language, sanitize_mnemonic']
TRUSTED = ['spec/bip39.py', 'unicodedata.normalize, UTF-8 encoding, hashlib.pbkdf2_hmac uninterpreted']
EXPLANATION = ('One deductive contract (to_seed data flow); the rest of the property is a bounded native comparison with a BIP39 reference '
               'implementation over all languages and entropy sizes, including every sampled single-word substitution.')
FUZZ_QUICK = 60


def extra_checks(tier, seed, opens):
    from bounded import c14_bip39
    return [c14_bip39.run(tier, seed, opens)]
