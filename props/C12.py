"""C12 - every key export format imports back to the same key and metadata."""
CONTRACT_MODULES = ['contracts.keys_hd', 'contracts.keys_public', 'contracts.keys_export']
def _c():
    import contracts.keys_export as e
    return list(e.WIF_LAYOUT) + list(e.HD_LAYOUT) + ['bitcoinlib.keys.Key.__init__[roundtrip-native]', 'bitcoinlib.keys.HDKey.__init__[roundtrip-native]']
CONTRACTS = _c()
LEVEL = 'proof'
LEVEL_TEXT = ('EXPORT side proved: Key.wif for every network (compressed and uncompressed) and HDKey.wif (private / public) produce the Base58 '
              'encoding of exactly the specified byte layout (version, 32-byte secret incl. leading zeros, compression marker, checksum; BIP32 '
              'serialisation) for every secret, chain code, depth, fingerprint and child number. IMPORT side (get_key_format, Key.__init__, '
              'HDKey.__init__ - string-length heuristics) is a bounded stand-in: native round trips of every representation over all networks x '
              'witness types x multisig x private/public prefixes, with secrets biased to leading-zero and trailing-01 patterns. One import defect '
              '(uncompressed WIF ending in 01) was found by it and repaired.')
LEVEL_NOTE = ('base58encode / change_base(256->58) are uninterpreted in the layout proofs (their own behaviour: C11 bounded check). Prefix-table '
              'ambiguities the property exempts (shared WIF version bytes without a network hint; networks that define no prefix of a kind) are '
              'accepted as "refused".')
NOT_COVERED = ['get_key_format / Key.__init__ / HDKey.__init__ as proofs (string heuristics): native round trips only', 'BIP38 format (C15)']
TRUSTED = ['base58encode, change_base helper models', 'network prefix tables as data']
FUZZ_QUICK = 300
FUZZ_THOROUGH = 20000
