"""C13 - ECDSA glue: signatures canonical / deterministic, verifier exact."""
CONTRACT_MODULES = ['contracts.keys_sig']
CONTRACTS = ['bitcoinlib.keys.verify[forged-for-offcurve-key-native]', 'bitcoinlib.keys.Signature.create[rfc6979]', 'bitcoinlib.keys.Signature.create[explicit-k]',
             'bitcoinlib.keys.Signature.__init__', 'bitcoinlib.keys.Signature.verify[digest-given]',
             'bitcoinlib.keys.verify[signature-object]', 'bitcoinlib.keys.Signature.parse_bytes[raw64]', 'bitcoinlib.keys.Signature.parse_bytes[der-native]',
             'bitcoinlib.encoding.der_encode_sig[strict-der-native]']
LEVEL = 'proof'
LEVEL_TEXT = ('The Python glue around the ECDSA library is verified for all digests, secrets, nonces and (r, s): Signature.create returns exactly '
              'the standard signature under the RFC 6979 nonce of the same digest and secret (or the supplied nonce), with s normalised to '
              '<= (n-1)/2; Signature.__init__ / parse_bytes refuse r, s outside [1, n-1]; Signature.verify and keys.verify pass exactly '
              'the given digest, the stored (r, s) and the stored public point to the verifier and return its answer unchanged. '
              'The curve arithmetic itself (fastecdsa) is assumed, not verified.')
LEVEL_NOTE = ('Assumed (uninterpreted) third-party functions: fastecdsa _ecdsa.sign/_ecdsa.verify, RFC6979.gen_nonce, DEREncoder, '
              'is_point_on_curve. "Nonce never shared between messages or keys" is reduced to the data-flow fact k = RFC6979(digest, secret) '
              'plus the unproved hypothesis that RFC 6979 is injective. Not covered: the pure-python `ecdsa` fallback (USE_FASTECDSA=false), '
              'DER parsing through to_bytes() hex-text heuristic, Key.public() (C16). der_encode_sig / convert_der_sig (third-party DER code) are a BOUNDED native '
              'stand-in against an independent strict-DER encoder, not proved.')
NOT_COVERED = ['USE_FASTECDSA=false branch', 'Signature.parse_bytes DER branch (finding candidate: DER signatures of <= 64 bytes are refused)',
               'independent-verifier cross-check of produced signatures (curve arithmetic is assumed)']
FUZZ_QUICK = 60
FUZZ_THOROUGH = 3000

def _trusted():
    from contracts import external
    return list(external.TRUSTED)
TRUSTED = _trusted()
