"""C17 - amount conversion exact to the smallest unit."""
CONTRACT_MODULES = ['contracts.values']
def _cases():
    from bitcoinlib.config.config import NETWORK_DENOMINATORS
    return ['bitcoinlib.values.value_to_satoshi[unit-%s]' % (s or 'coin') for d, s in NETWORK_DENOMINATORS.items() if d <= 1000000] + \
        ['bitcoinlib.values.value_to_satoshi[unit-h-above-2^50-native]'] + _currency()
def _currency():
    import contracts.values as cv
    return list(cv.CURRENCY_CASES) + list(cv.BYTES_CASES) + ['bitcoinlib.values.Value.to_hex[native]']
CONTRACTS = _cases()
LEVEL = 'proof'
LEVEL_TEXT = ('value_to_satoshi (Value.__init__ string parsing, float arithmetic, Value.value_sat rounding) is verified for EVERY amount 0..21e14 '
              'smallest units written exactly in each denominator of the table, with IEEE-754 double arithmetic modelled by per-binade half-ulp '
              'bounds (a sound over-approximation of round-to-nearest). Whole coins, sat, c and µsat spellings are proved exact on the whole range '
              '(also for every other network currency code); for m, µ, n, fin, msat, d, k, M the verifier proves "exact up to 2^50 units and never '
              'more than one unit off above" and genuine off-by-one amounts are listed as open findings; da is unusable (open finding). '
              'Value.to_bytes / Value.to_hex are the bytes of the integer amount in the byte order asked for (lengths 8 / 7 bytes and 16 / 14 digits, both orders; value_sat abstract).')
LEVEL_NOTE = ('Assumed: float(decimal text) is correctly rounded (CPython), IEEE-754 binary64 round-to-nearest, round() = nearest-even. The amount '
              'text is abstract: an exact decimal numeral with a symbolic numerator plus a concrete unit string (string splitting of the numeral '
              'itself is not modelled). Not covered: Value.str / from_satoshi formatting round trip, Transaction.add_output integer check, '
              'hBTC above 2^50 (native only).')
NOT_COVERED = ['Value.from_satoshi(...).str(...) -> parse round trip', 'Transaction.add_output / raw() sign checks', 'hBTC amounts above 2^50 (native evaluation only)']
TRUSTED = ['IEEE-754 model pyvc/floats.py', 'CPython float(str) correctly rounded', 'amount text abstraction (contracts/external.py SAmountText)']
FUZZ_QUICK = 300
FUZZ_THOROUGH = 200000


def extra_checks(tier, seed, opens):
    from bounded import c17_amounts
    return [c17_amounts.run(tier, seed, opens)]
