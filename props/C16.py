"""C16 - public views and default exports never contain private key material."""
CONTRACT_MODULES = ['contracts.keys_hd', 'contracts.keys_public']
CONTRACTS = (['bitcoinlib.keys.%s.public[%s-%s]' % (c, comp, aw) for c in ('Key', 'HDKey') for comp in ('compressed', 'uncompressed') for aw in ('fresh', 'after-wif', 'any-history-native')]
             + ['bitcoinlib.keys.HDKey.wif[public-export-%s-%r]' % (comp, ip) for comp in ('compressed', 'uncompressed') for ip in (False, None)])
LEVEL = 'proof'
LEVEL_TEXT = ('Information-flow obligations on the real Key.public, HDKey.public and HDKey.wif(public export): the private scalar is a labelled '
              'symbol (SECRET!...), every byte/hex form derives from it, and the verifier checks that NO attribute of the returned object / no '
              'part of the returned string contains a secret symbol except below a declassifier (the public point k*G). Holds for every '
              'secret, chain code, depth, index, compressed and uncompressed keys, and for the state left by an earlier private WIF export '
              '(the cache that exposed the repaired defect). Arbitrary earlier call sequences are covered natively only (bounded).')
LEVEL_NOTE = ('Declassifiers: ec_mulG (public point), ecdsa_sign. Assumed: base58encode / to_bytes helper models, sha256 UF, deepcopy = '
              'field-wise copy. Pickling is covered by "every attribute" (pickle serialises __dict__). The wallet-level views (Wallet / WalletKey / '
              'WalletTransaction dictionaries, JSON, repr, info, keys(as_dict=True) under every filter, public_master, the watch-only wallet made from the '
              'public export together with its database file, and the database file under DB_FIELD_ENCRYPTION_KEY) go through SQLAlchemy and are outside the '
              'verifier: they are covered by a BOUNDED native stand-in (bounded/c16_views.py, never counted as proved) whose oracle derives the private '
              'scalars from the wallet seed independently and looks for them as raw bytes (either endianness), integer, decimal, hex, and inside every '
              'base58 / hex token (WIF, extended private key).')
NOT_COVERED = ['Key.as_dict/as_json/__repr__/info under the verifier (bounded only)', 'wallet-level views and database encryption under the verifier (bounded only)']
TRUSTED = ['secret labelling: symbols named SECRET!*; declassifiers ec_mulG / ecdsa_sign', 'copy.deepcopy modelled as field-wise copy']
FUZZ_QUICK = 60



def extra_checks(tier, seed, opens):
    from bounded import c16_views
    return [c16_views.run(tier, seed, opens)]
