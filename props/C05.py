"""C05 - address <-> locking script mapping standard and mutually inverse."""
CONTRACT_MODULES = ['contracts.encoding', 'contracts.scripts', 'contracts.keys_hd', 'contracts.keys_public', 'contracts.keys_addr', 'contracts.std_scripts']
def _c():
    import contracts.keys_addr as a
    import contracts.std_scripts as st
    return list(a.ADDR_CASES) + list(st.CASES) + ['bitcoinlib.scripts.data_pack']
CONTRACTS = _c()
LEVEL = 'proof'
LEVEL_TEXT = ('Proved: (1) shared with C04, Address(...) for every network x address kind carries the standard payload hash and prefix (77 configurations, '
              'symbolic data); (2) the script side of the mapping: Script(script_types=[t], public_hash=h).serialize() - the template instantiation Output.__init__ '
              'uses - is exactly the standard P2PKH / P2SH / P2WPKH / P2WSH locking script for EVERY payload, and OP_n <32 bytes> for every witness version 1..16. '
              'BOUNDED (native): the glue between the two (Output.__init__ choosing type / payload / version from an address string or object, Script parsing, '
              'deserialize_address) is evaluated natively: both directions, every network, every kind incl. witness versions '
              '2..16, random payloads, cross-network refusal, against standard script templates and the reference text encoders.')
LEVEL_NOTE = ('Output.__init__ / Script.parse_bytesio / _get_script_types are outside the verified subset in this build (string and table driven '
              'classification); one open finding: an Address OBJECT of another network is adopted instead of refused.')
NOT_COVERED = ['Output.__init__ and Script.parse_bytesio as proofs (script -> address direction and the address-string decoding are native only)', 'outputs created from HD keys / public keys / hashes (only '
               'address strings, Address objects and raw scripts are exercised)']
TRUSTED = ['spec/base58.py, spec/bech32.py, standard script templates in bounded/c05_scripts.py']
EXPLANATION = ('Deductive coverage is limited to Address.__init__ (payload and prefix per configuration); the script mapping is a bounded '
               'native check over all networks and kinds, see coverage.bounded.')
FUZZ_QUICK = 20


def extra_checks(tier, seed, opens):
    from bounded import c05_scripts
    return [c05_scripts.run(tier, seed, opens)]
