"""C05 - address <-> locking script mapping standard and mutually inverse."""
CONTRACT_MODULES = ['contracts.encoding', 'contracts.keys_hd', 'contracts.keys_public', 'contracts.keys_addr']
def _c():
    import contracts.keys_addr as a
    return list(a.ADDR_CASES)
CONTRACTS = _c()
LEVEL = 'other'
LEVEL_TEXT = ('MOSTLY BOUNDED. Proved (shared with C04): Address(...) for every network x address kind carries the standard payload hash and prefix '
              '(77 configurations, symbolic data). The address <-> locking-script mapping itself (Output.__init__, Script parsing / template '
              'instantiation, deserialize_address) is evaluated natively: both directions, every network, every kind incl. witness versions '
              '2..16, random payloads, cross-network refusal, against standard script templates and the reference text encoders.')
LEVEL_NOTE = ('Output.__init__ / Script.parse_bytesio / _get_script_types are outside the verified subset in this build (string and table driven '
              'classification); one open finding: an Address OBJECT of another network is adopted instead of refused.')
NOT_COVERED = ['Output.__init__, Script.parse_bytesio, Script(script_types=...) as proofs', 'outputs created from HD keys / public keys / hashes (only '
               'address strings, Address objects and raw scripts are exercised)']
TRUSTED = ['spec/base58.py, spec/bech32.py, standard script templates in bounded/c05_scripts.py']
EXPLANATION = ('Deductive coverage is limited to Address.__init__ (payload and prefix per configuration); the script mapping is a bounded '
               'native check over all networks and kinds, see coverage.bounded.')
FUZZ_QUICK = 20


def extra_checks(tier, seed, opens):
    from bounded import c05_scripts
    return [c05_scripts.run(tier, seed, opens)]
