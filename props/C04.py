"""C04 - private key -> public key -> address exact; invalid keys refused."""
CONTRACT_MODULES = ['contracts.encoding', 'contracts.keys_hd', 'contracts.keys_public', 'contracts.keys_addr']
def _c():
    import contracts.keys_addr as a
    return ['bitcoinlib.keys.Key.__init__[integer-secret]'] + list(a.ADDR_CASES) + ['bitcoinlib.keys.Key.address[any-history-native]', 'bitcoinlib.keys.HDKey.address[any-history-native]'] + list(a.HD_ADDRESS_CASES) + [
        'bitcoinlib.keys.Key.public_uncompressed_hex[decompress]', 'bitcoinlib.keys.Key.__init__[offcurve-public-native]']
CONTRACTS = _c()
LEVEL = 'proof'
LEVEL_TEXT = ('Proved for every input: Key(<integer>) holds exactly that secret, the point secret*G and compressed / uncompressed encodings of that '
              'one point; a compressed key decompresses to 04||x||y with the parity the prefix states (64 hex digits each); Address(...) for every '
              'network x {p2pkh, p2sh, p2sh-p2wpkh, p2sh-p2wsh, p2wpkh, p2wsh, p2tr} carries the standard payload hash of the data and the '
              'network prefix of that address kind and hands exactly those to the text encoder (77 configurations, symbolic data). '
              'HDKey.address passes every specified argument - an explicit False included - on to Key.address and fills only the unspecified ones from the key (12 argument shapes, Key.address abstract). '
              'Refusal of non-keys: scalars >= n and off-curve public encodings are ACCEPTED - two open findings (the first is test-pinned). '
              'Key.address after earlier address() calls on the same object is evaluated natively against reference encoders (bounded).')
LEVEL_NOTE = ('Uninterpreted: secp256k1 scalar multiplication, modular exponentiation (square root), hash160 / sha256, the text encoder '
              'pubkeyhash_to_addr (its bech32 core is proved in C11, Base58Check is covered by the C11 bounded check). Key(0) creates a new random '
              'key (0 is "no key given") and is outside the contract. Not covered: hex / bytes / WIF import paths as proofs (C12 native), '
              'HDKey.address, Key.address as a proof.')
NOT_COVERED = ['Key.__init__ string/bytes/WIF formats as proofs', 'Key.address / HDKey.address as proofs', 'base58 text encoder as a proof']
TRUSTED = ['ec_mulG, modpow, hash160, sha256 uninterpreted', 'pubkeyhash_to_addr uninterpreted at this level (see C11)']
FUZZ_QUICK = 120
