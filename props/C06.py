"""C06 - transaction and block serialization round-trips byte-for-byte; ids exact."""
CONTRACT_MODULES = ['contracts.encoding', 'contracts.transactions']
def _full():
    import contracts.transactions as t
    return list(t.FULL_CASES)
CONTRACTS = _full() + ['bitcoinlib.transactions.Transaction.raw[full-legacy-any-count]', 'bitcoinlib.transactions.Transaction.raw[full-segwit-any-count]'] + ['bitcoinlib.encoding.int_to_varbyteint', 'bitcoinlib.encoding.varstr', 'bitcoinlib.encoding.varbyteint_to_int',
             'bitcoinlib.encoding.read_varbyteint', 'bitcoinlib.encoding.read_varbyteint_return'] + [
             # the parse side of the round trip reads whatever form a peer used: per-form decoder / reader contracts on any payload (shared with C18)
             'bitcoinlib.encoding.%s[%s]' % (f, c) for f, cs in (('varbyteint_to_int', ('single-byte', 'form-fd', 'form-fe', 'form-ff')),
                                                                ('read_varbyteint', ('form-fd', 'form-fe', 'form-ff')),
                                                                ('read_varbyteint_return', ('form-fd', 'form-fe', 'form-ff'))) for c in cs]
LEVEL = 'proof'
LEVEL_TEXT = ('SERIALISATION proved: Transaction.raw() equals the wire format (BIP144 for segwit) for legacy and segwit transactions with 1..2 inputs, '
              '1..2 outputs and 1..2 witness items per input - every field symbolic, scripts and witness items of any length (counts are bounded: '
              'loops unrolled); for legacy (non-witness) transactions ALSO for ANY number of inputs and outputs (loop invariants over left folds, precondition: no script is the '
              'single byte 00 - the pinned finding F-varstr-00 - and the cached size is set); CompactSize / var_str primitives and the stream readers are proved for all values (C18). '
              'PARSING (Transaction.parse -> raw round trip, txid) is a bounded stand-in against an independent writer/reader; it exposed four '
              'classes of round-trip losses that are recorded as open findings (each recognised by a structural predicate).')
LEVEL_NOTE = ('Blocks (header fields, hash, compact target, both transaction readers, serialize) are a BOUNDED native stand-in against the independent writer (bounded/c06_blocks.py), not proofs. Not covered: txid assignment as a proof, segwit counts beyond 2 as proofs. The F-varstr-00 finding '
              'propagates into raw() and is pinned exactly (serialisation with the observed var_str).')
NOT_COVERED = ['Block.parse_bytesio / parse_transaction_dict / serialize / target as proofs (bounded harness only)', 'Transaction.parse_bytesio, Input.parse, Output.parse as proofs',
               'segwit transactions with more than 2 inputs / outputs / witness items as proofs (legacy: any count)']
TRUSTED = ['spec/wire.py (independent serialiser and parser)', 'sha256 via hashlib in the bounded harness']
FUZZ_QUICK = 100


def extra_checks(tier, seed, opens):
    from bounded import c06_roundtrip, c06_blocks
    return [c06_roundtrip.run(tier, seed, opens), c06_blocks.run(tier, seed, opens)]
