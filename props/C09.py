"""C09 - wallet keys follow BIP44/49/84/48 paths (path construction proved; wallet histories bounded)."""
CONTRACT_MODULES = ['contracts.keys_hd', 'contracts.paths']
def _c():
    import contracts.paths as p
    return list(p.CASES) + ['bitcoinlib.keys.HDKey.child_private', 'bitcoinlib.keys.HDKey.child_public']
CONTRACTS = _c()
LEVEL = 'proof'
LEVEL_TEXT = ('PATH CONSTRUCTION ONLY. keys.path_expand is proved, for every account, change flag, address index and cosigner index, to produce the '
              'documented BIP44 / BIP49 / BIP84 / BIP48 / BIP45 path (purpose, the network coin type, account, script-type id, cosigner, change, '
              'index; hardened exactly where the BIPs say) for every witness type x single/multisig x each of the 11 networks (66 configurations), '
              'against templates restated from the BIPs (not read from config.py). Key material for a path is BIP32 derivation: the CKD contracts '
              'of C03 are part of this check.')
LEVEL_NOTE = ('Index bookkeeping, address uniqueness, restore / watch-only equivalence and reopen are wallet / database HISTORIES outside the verifier (SQLAlchemy). '
              'They are covered by a BOUNDED native stand-in (bounded/c09_wallet.py, never counted as proved): wallets of 3 witness types x 3 networks (keys of the other witness types requested from the same wallet too) driven through scripted and random '
              'sequences of new_key / new_key_change / get_key(s) / key_for_path (out of order) / new_account / reopen, judged by an oracle independent of the wallet code '
              '(BIP32 derivation from the seed with spec/bip32 + pure-Python secp256k1, address encodings from spec, network constants written out in the harness).')
NOT_COVERED = ['Wallet.new_key(s) / get_key(s) / keys_for_path / new_account index bookkeeping as proofs (bounded harness only)', 'multisig wallets (C10), mnemonic restore (C14)', 'normalize_path']
TRUSTED = ['BIP path templates as restated in contracts/paths.py', 'C03 trusted base']
FUZZ_QUICK = 60


def extra_checks(tier, seed, opens):
    from bounded import c09_wallet
    return [c09_wallet.run(tier, seed, opens)]
