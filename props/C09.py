"""C09 - wallet keys follow BIP44/49/84/48 paths (path construction only)."""
CONTRACT_MODULES = ['contracts.keys_hd', 'contracts.paths']
def _c():
    import contracts.paths as p
    return list(p.CASES) + ['bitcoinlib.keys.HDKey.child_private', 'bitcoinlib.keys.HDKey.child_public']
CONTRACTS = _c()
LEVEL = 'proof'
LEVEL_TEXT = ('PATH CONSTRUCTION ONLY. keys.path_expand is proved, for every account, change flag, address index and cosigner index, to produce the '
              'documented BIP44 / BIP49 / BIP84 / BIP48 / BIP45 path (purpose, the network coin type, account, script-type id, cosigner, change, '
              'index; hardened exactly where the BIPs say) for every witness type x single/multisig x each of the 11 networks (66 configurations), '
              'against templates restated from the BIPs (not read from config.py). Key material for a path is BIP32 derivation: the CKD contracts '
              'of C03 are part of this check.')
LEVEL_NOTE = ('NOT covered (wallet / database histories, see C08 reasoning): indices issued without gaps or repeats, address uniqueness, restore '
              'equivalence from seed / mnemonic / account xpub, reopen. A change in that bookkeeping (e.g. choosing the next index from the wrong '
              'row order) is outside what these contracts can see.')
NOT_COVERED = ['Wallet.new_key(s) / get_key(s) / keys_for_path / new_account index bookkeeping', 'restore and watch-only equivalence', 'normalize_path']
TRUSTED = ['BIP path templates as restated in contracts/paths.py', 'C03 trusted base']
FUZZ_QUICK = 60
