"""C18 - wire primitives (CompactSize, script numbers, pushes) are canonical and round-trip."""
CONTRACT_MODULES = ['contracts.encoding', 'contracts.scripts']
CONTRACTS = [
    'bitcoinlib.encoding.int_to_varbyteint',
    'bitcoinlib.encoding.varbyteint_to_int',
    'bitcoinlib.encoding.varstr',
    'bitcoinlib.encoding.read_varbyteint',
    'bitcoinlib.encoding.read_varbyteint_return',
    'bitcoinlib.scripts.data_pack',
    'bitcoinlib.scripts.encode_num',
    'bitcoinlib.scripts.encode_num[reencode]',
    'bitcoinlib.scripts.decode_num',
    'bitcoinlib.scripts.decode_num[roundtrip]',
]
LEVEL = 'proof'
TRUSTED = []
EXPLANATION = ''
LEVEL_TEXT = ('Every listed function of /repo is verified against a protocol-level specification for all inputs (no bound): '
              'CompactSize encode/decode and var_str. Obligations are generated from the current source on every run.')
LEVEL_NOTE = ('Trusted: the pyvc VC generator and its Python semantics (DESIGN §2.10), z3/cvc5, the spec functions in spec/wire.py. '
              'Open finding F-varstr-00 (varstr of a single zero byte) is pinned, not excused.')
