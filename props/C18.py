"""C18 - wire primitives (CompactSize, script numbers, pushes) are canonical and round-trip."""
CONTRACT_MODULES = ['contracts.encoding', 'contracts.scripts']
CONTRACTS = [
    'bitcoinlib.encoding.int_to_varbyteint',
    'bitcoinlib.encoding.int_to_varbyteint[out-of-range]',
    'bitcoinlib.encoding.varbyteint_to_int',
    'bitcoinlib.encoding.varbyteint_to_int[form-fd]',
    'bitcoinlib.encoding.varbyteint_to_int[form-fe]',
    'bitcoinlib.encoding.varbyteint_to_int[form-ff]',
    'bitcoinlib.encoding.varbyteint_to_int[single-byte]',
    'bitcoinlib.encoding.read_varbyteint[form-fd]',
    'bitcoinlib.encoding.read_varbyteint[form-fe]',
    'bitcoinlib.encoding.read_varbyteint[form-ff]',
    'bitcoinlib.encoding.read_varbyteint_return[form-fd]',
    'bitcoinlib.encoding.read_varbyteint_return[form-fe]',
    'bitcoinlib.encoding.read_varbyteint_return[form-ff]',
    'bitcoinlib.encoding.varstr',
    'bitcoinlib.encoding.read_varbyteint',
    'bitcoinlib.encoding.read_varbyteint_return',
    'bitcoinlib.scripts.data_pack',
    'bitcoinlib.scripts.encode_num',
    'bitcoinlib.scripts.encode_num[reencode]',
    'bitcoinlib.scripts.decode_num',
    'bitcoinlib.scripts.decode_num[roundtrip]',
] + ['bitcoinlib.scripts.Script.serialize[cmds-%s]' % (''.join(v) or 'none') for k in range(4) for v in __import__('itertools').product('od', repeat=k)] + ['bitcoinlib.scripts.Script.serialize[any-count]']
LEVEL = 'proof'
TRUSTED = []
EXPLANATION = ''
LEVEL_TEXT = ('Every listed function of /repo is verified against a protocol-level specification for all inputs (no bound): '
              'CompactSize encode/decode (decoder on shortest-form input and on every payload of each of the four forms; the encoder refuses every integer outside 0..2^64-1) and var_str, data pushes, script numbers (encode, decode, both round trips). Script.serialize is verified '
              'against the protocol definition for every opcode value and every data item, for ANY number of commands (loop invariant over a left fold; elements are '
              'opcodes 0..255 or data items of 0..65535 bytes) and additionally per kind vector of up to 3 commands (loop unrolled, data of any length incl. the refused > 65535). Script.parse_bytesio is OUTSIDE the verifier (object construction, '
              'recursive sub-script detection): the parse -> items -> serialize round trip is a BOUNDED native stand-in over an enumerated script family '
              '(bounded/c18_scripts.py), not counted as proved. Obligations are generated from the current source on every run.')
LEVEL_NOTE = ('Trusted: the pyvc VC generator and its Python semantics (DESIGN §2.10), z3/cvc5, the spec functions in spec/wire.py. '
              'Open finding F-varstr-00 (varstr of a single zero byte) is pinned, not excused.')


def extra_checks(tier, seed, opens):
    from bounded import c18_scripts
    return [c18_scripts.run(tier, seed, opens)]
