"""C10 - multisig cosigner wallets agree on scripts; exactly m distinct signers suffice."""
import os
CONTRACT_MODULES = ['contracts.encoding', 'contracts.scripts', 'contracts.transactions', 'contracts.keys_sig', 'contracts.multisig']
def _c():
    import contracts.multisig as m
    thorough = os.environ.get('VERIF_TIER') == 'thorough'
    return list(m.CASES_QUICK) + (list(m.CASES_THOROUGH) if thorough else []) + ['bitcoinlib.transactions.Input.verify', 'bitcoinlib.scripts.data_pack',
                                                                                          'bitcoinlib.transactions.Transaction.verify[any-count]', 'bitcoinlib.transactions.Transaction.verify[2inputs]']
CONTRACTS = _c()
LEVEL = 'proof'
LEVEL_TEXT = ('Two ingredients of the property are proved. (1) SCRIPT: for n = 1..5 (thorough: ..15) keys and every threshold m <= n the multisig '
              'template instantiation + serialisation (Script.__init__, Script.serialize, data_pack) yields exactly OP_m <key 1>..<key n> OP_n '
              'OP_CHECKMULTISIG for all key bytes - so wallets that hand the same key list to it get the same script. (2) THRESHOLD: '
              'Input.verify accepts exactly when the first m signatures match m distinct keys in key order (C02 loop-invariant proof, any n), and Transaction.verify accepts exactly when EVERY input does (any number of inputs).')
LEVEL_NOTE = ('Not proved (outside the verifier: ORM, object graphs): that every cosigner wallet passes the keys in the same order, signature ordering in '
              'Transaction.sign, export/import chains between wallets. These HISTORIES are covered by a BOUNDED native stand-in (bounded/c10_handoff.py, never '
              'counted as proved): m-of-n cosigner wallets on the offline test network, every ordered choice of m signers x hand-off as object / dict / raw hex '
              'x legacy / p2sh-segwit / segwit, judged by an oracle independent of Input.verify (redeem script lexed by spec, pure-Python ECDSA, in-order matching). '
              'Broadcasting is not covered.')
NOT_COVERED = ['Wallet.create multisig branch, Wallet._new_key_multisig (ORM) as proofs', 'Transaction.sign ordering as a proof (bounded harness only)', 'broadcast']


def extra_checks(tier, seed, opens):
    from bounded import c10_handoff
    return [c10_handoff.run(tier, seed, opens)]
TRUSTED = ['spec/script.py multisig_redeem', 'C02 trusted base']
FUZZ_QUICK = 100
