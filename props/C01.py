"""C01 - signed digests equal the consensus sighash."""
CONTRACT_MODULES = ['contracts.encoding', 'contracts.scripts', 'contracts.transactions', 'contracts.keys_sig']
def _script_code():
    import contracts.transactions as t
    return list(t.SCRIPT_CODE_CASES)
CONTRACTS = (['bitcoinlib.transactions.Transaction.signature_segwit[in%d-out%d-sign%d]' % (a, b, c) for a in (1, 2, 3) for b in (0, 1, 2, 3) for c in range(a)]
             + ['bitcoinlib.transactions.Transaction.raw[legacy-%s-in%d-out%d-sign%d]' % (st, a, b, c) for a in (1, 2, 3) for b in (0, 1, 2) for c in range(a)
                for st in ('sig_pubkey', 'p2sh_multisig')]
             + ['bitcoinlib.transactions.Transaction.signature_hash[dispatch-tx_%s-arg_%s]' % ab for ab in
                [('segwit', None), ('segwit', 'segwit'), ('segwit', 'p2sh-segwit'), ('segwit', 'legacy'), ('legacy', None), ('legacy', 'legacy')]]
             + ['bitcoinlib.transactions.Transaction.raw[legacy-anyindex-in%d-sign%d]' % (a, c) for a in (1, 2, 3) for c in range(a)]
             + ['bitcoinlib.transactions.Transaction.raw[legacy-any-count]', 'bitcoinlib.transactions.Transaction.raw[legacy-multisig-any-count]',
                'bitcoinlib.transactions.Transaction.signature_segwit[any-count]']
             + ['bitcoinlib.encoding.varstr', 'bitcoinlib.encoding.int_to_varbyteint'] + _script_code()
             # the digest that is CHECKED: Signature.verify / keys.verify use the digest handed to them, whatever digest the object remembered (shared with C02, C13)
             + ['bitcoinlib.keys.Signature.verify[digest-given]', 'bitcoinlib.keys.verify[signature-object]'])
LEVEL = 'proof'
LEVEL_TEXT = ('Transaction.signature_segwit is verified against the BIP143 preimage (every hash-type byte) and Transaction.raw(sign_id, SIGHASH_ALL, '
              'legacy) against the legacy SIGHASH_ALL preimage, for every value of every field (ids, vouts, sequences, amounts up to 21e14, scripts of '
              'any length, version, locktime), and Transaction.signature_hash dispatch (which preimage is hashed for which witness type). '
              'ANY NUMBER of inputs and outputs: the loops of Transaction.raw and Transaction.signature_segwit are verified under inductive invariants (the '
              'accumulators are left folds of the per-element serialisation; element fields are uninterpreted functions of the position) for P2PKH-style and P2SH-multisig '
              'legacy inputs and for BIP143 with every hash type byte and every signed index - under the precondition that no script is the single byte 00. '
              'That case (pinned finding F-varstr-00) and the fallback redeemscript := locking_script are covered by the per-count cases (1..3 inputs x 0..3 outputs x '
              'every signed index, loops unrolled). '
              'The legacy selection of the signed input is also verified for EVERY labelling of the inputs by distinct 32-bit index_n values (the label asked for is only equal to, not the same object as, the stored label: int identity is modelled as implementation-defined outside -5..256). One BIP143 defect (SINGLE/NONE swapped) was repaired; the varstr(00) finding propagates here and is pinned exactly.')
LEVEL_NOTE = ('SHA-256 uninterpreted; spec/sighash.py is the statement of consensus (BIP143 text, developer reference). The script code per input kind is '
              'verified separately on Input.update_scripts (P2PKH / P2WPKH / P2SH-P2WPKH with one key; P2SH, P2WSH, P2SH-P2WSH multisig with 2 and 3 keys): '
              'the preimage contracts take the stored script as given, the update_scripts contracts show it is the script consensus expects. Object state left by earlier calls is covered only by native stateful contract evaluation (earlier call + in-place edit).')
LEVEL_NOTE += (' Which kind an input is taken to be (Transaction.add_input / Input.__init__, from address, locking script, explicit or inherited witness type) is object '
               'construction outside the verifier: covered by a BOUNDED native stand-in (bounded/c01_signing.py, never counted as proved) that builds and signs '
               'transactions through the API and judges the serialised result without the library (independent reader, digests of spec/sighash.py, pure-Python ECDSA) '
               'against the script of the output each input spends.')
NOT_COVERED = ['P2PK and bare multisig script codes; multisig with more than 3 keys in update_scripts', 'transactions with a 00 script AND more than 3 inputs / outputs (the any-count proofs exclude 00 scripts; the per-count cases stop at 3)',
               'legacy hash types other than SIGHASH_ALL (the property names SIGHASH_ALL only)']
TRUSTED = ['spec/sighash.py', 'sha256 as uninterpreted function', 'varstr effective contract (C18, F-varstr-00 pinned)']
FUZZ_QUICK = 120



def extra_checks(tier, seed, opens):
    from bounded import c01_signing
    return [c01_signing.run(tier, seed, opens)]
