"""C01 - signed digests equal the consensus sighash."""
CONTRACT_MODULES = ['contracts.encoding', 'contracts.transactions']
def _keys():
    import contracts.transactions as t
    return list(t.SEGWIT_CASES)
CONTRACTS = ['bitcoinlib.transactions.Transaction.signature_segwit[in%d-out%d-sign%d]' % (a, b, c) for a in (1, 2, 3) for b in (0, 1, 2, 3) for c in range(a)]
LEVEL = 'proof'
LEVEL_TEXT = 'placeholder'
LEVEL_NOTE = 'placeholder'
CLAIMED = False
FUZZ_QUICK = 30
