"""C11 - checksummed text encodings are canonical and corruption is rejected."""
CONTRACT_MODULES = ['contracts.encoding']
def _c():
    import contracts.encoding as e
    return list(e.CONVERTBITS_CASES) + list(e.POLYMOD_CASES)
CONTRACTS = _c()
LEVEL = 'proof'
LEVEL_TEXT = ('Deductive part (bech32 core): convertbits is proved canonical for every value of symbol / byte lists of the sizes that occur '
              '(4..64 symbols, 2..40 bytes): whatever 5->8 accepts re-encodes to exactly the given symbols, exactly the non-canonical paddings '
              'are refused, 8->5 then 5->8 is the identity; _bech32_polymod equals the BIP173 reference function on lists of 1..90 values '
              '(bit-vector back end). The text level (Base58Check / Bech32(m) strings through every decoding entry point) is a '
              'bounded stand-in: every single-character substitution, insertion, deletion, transposition, case and leading-1 change of sampled '
              'valid strings against independent reference decoders. Three defects found by it were repaired.')
LEVEL_NOTE = ('The string-level decoders (character handling in addr_bech32_to_pubkeyhash, change_base, base58encode) are outside the verified subset '
              'and only covered by the bounded mutation check. Reference decoders: spec/base58.py, spec/bech32.py.')
NOT_COVERED = ['change_base / base58encode / _bech32_polymod as proofs', 'multi-character damage beyond the enumerated mutation classes']
TRUSTED = ['spec/base58.py, spec/bech32.py (reference decoders)']
EXPLANATION = ('Contract-based proofs cover the bech32 arithmetic core (convertbits, polymod); everything else for this property is an exhaustive-mutation bounded '
               'check of the real decoders against reference decoders (see coverage.bounded).')
FUZZ_QUICK = 400


def extra_checks(tier, seed, opens):
    from bounded import c11_text
    return [c11_text.run(tier, seed, opens)]
