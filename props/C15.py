"""C15 - BIP38: fresh entropy for new keys; decrypt only with the right passphrase."""
CONTRACT_MODULES = ['contracts.keys_hd', 'contracts.bip38']
CONTRACTS = ['bitcoinlib.keys.bip38_intermediate_password[fresh-salt]', 'bitcoinlib.keys.bip38_create_new_encrypted_wif[fresh-seed-native]',
             'bitcoinlib.keys.Key.encrypt[roundtrip-native]', 'bitcoinlib.keys.Key.encrypt[plain-mode-spec-native]', 'bitcoinlib.keys.bip38_intermediate_password[spec-no-lot]',
             'bitcoinlib.keys.bip38_intermediate_password[spec-lot]', 'bitcoinlib.keys.bip38_create_new_encrypted_wif[ec-multiplied-roundtrip-native]']
LEVEL = 'proof'
LEVEL_TEXT = ('FRESHNESS is decided deductively: (1) for every function of keys.py / encoding.py / mnemonic.py that has default arguments, the '
              'obligation "no default expression is a call" (defaults are evaluated once per process) is generated from the source and checked; '
              '(2) bip38_intermediate_password is executed symbolically with no salt supplied and must draw from the entropy source inside the '
              'invocation, with the drawn bytes flowing into the result; (3) AGREEMENT WITH BIP38 of the EC-multiplied intermediate code: for every passphrase, owner salt, lot and sequence '
              'bip38_intermediate_password returns Base58Check(magic || ownerentropy || passfactor*G) with the NFC-normalised passphrase, the BIP38 scrypt parameters and '
              'the lot/sequence packing (spec/bip38.py; scrypt / SHA-256 / point multiplication / Base58 uninterpreted). The repaired defect (os.urandom in default arguments) was found this '
              'way. The encrypt/decrypt round trip, wrong-passphrase refusal and create_new_encrypted_wif freshness are evaluated natively '
              'only (bounded stand-ins), because scrypt / AES / the Key constructor chain are outside the verified subset.')
LEVEL_NOTE = ('Assumed models: os.urandom (fresh bytes per call), scrypt, unicodedata.normalize, HDKey(...) constructor, base58encode and to_bytes '
              'as uninterpreted/identity helpers (contracts/external.py). Not covered deductively: bip38_encrypt / bip38_decrypt algebra, '
              'EC-multiplied decryption, agreement with the BIP38 test vectors (native only).')
NOT_COVERED = ['bip38_encrypt/bip38_decrypt inverse as a proof (native evaluation only)', 'EC-multiplied mode decrypt as a proof (native round trip only)', 'BIP38 vectors']
TRUSTED = ['os.urandom / scrypt / AES / unicodedata models (contracts/external.py)', 'HDKey(...) constructor model']
FUZZ_QUICK = 40
FUZZ_THOROUGH = 1500


def extra_checks(tier, seed, opens):
    from bounded import defaults
    return [defaults.run(['/repo/bitcoinlib/keys.py', '/repo/bitcoinlib/encoding.py', '/repo/bitcoinlib/mnemonic.py'], 'C15')]
