"""C07 - wallet-created transactions conserve value and pay exactly what was requested."""
CONTRACT_MODULES = ['contracts.values']
CONTRACTS = ['bitcoinlib.values.value_to_satoshi[unit-coin]', 'bitcoinlib.values.value_to_satoshi[unit-sat]']
LEVEL = 'other'
LEVEL_TEXT = ('BOUNDED ONLY for the wallet part. Wallet.transaction_create / select_inputs are interleaved with SQLAlchemy queries and could not be '
              'brought under contract in this build; they are exercised natively: wallets of every witness type on the offline test network, '
              'random UTXO sets and payment requests, every returned transaction checked for conservation (inputs = outputs + fee), non-negative '
              'integer amounts, exact recipients, change to own addresses, distinct confirmed inputs, refusal on insufficient funds, fee-rate '
              'limits. This exposed the negative-fee defect, which was repaired. The amount parsing used for outputs is proved exact (C17).')
LEVEL_NOTE = ('No deductive claim on transaction_create / select_inputs / bumpfee / sweep / send; ORM and service calls are real (sqlite in a scratch '
              'directory, offline test network provider). Not covered at all: sweep, send_to, replace-by-fee and bumpfee, multisig wallets.')
NOT_COVERED = ['Wallet.transaction_create / select_inputs as proofs', 'sweep, send, send_to, bumpfee, RBF', 'multisig wallets', 'inputs are "currently unspent" over histories (C08)']
TRUSTED = ['offline test network provider (bitcoinlib_test)', 'sqlite / SQLAlchemy as they are']
EXPLANATION = ('The property is about functions woven into ORM queries; within this technique only the amount conversion they call is under '
               'contract (C17 contracts, included). Everything else is a bounded native check with an explicit oracle for each clause of the '
               'property (see coverage.bounded).')
FUZZ_QUICK = 50


def extra_checks(tier, seed, opens):
    from bounded import c07_wallet
    return [c07_wallet.run(tier, seed, opens)]
