"""C20 - service layer fails over between providers and never fabricates answers."""
CONTRACT_MODULES = ['contracts.services']
CONTRACTS = ['bitcoinlib.services.services.Service._provider_execute[k%d-max%d]' % (k, mp) for k in (1, 2, 3, 4) for mp in (1, 2)] + [
    'bitcoinlib.services.services.Service.getbalance[one-address-cache-miss]']
LEVEL = 'proof'
LEVEL_TEXT = ('Service._provider_execute is verified for k = 1..4 providers (the quantifier of the property) x max_providers 1..2 x every error limit, '
              'with each provider a nondeterministic oracle (answers a symbolic value / answers False / lacks the method / raises): the value '
              'returned is the answer of the first answering provider in priority order, nothing no provider returned is ever returned, and the '
              'call fails (ServiceError, or the falsy no-answer False on an error-limit abort) only when no provider may answer. '
              'Service.getbalance is verified against "exactly the provider answer, else fail"; its error-limit abort returning 0 is an open, '
              'test-pinned finding.')
LEVEL_NOTE = ('Provider client classes are replaced by a stub class reached through the real lookup path (attribute of bitcoinlib.services); '
              'provider priorities are distinct (random tie-breaking not modelled; every priority order is covered by the symmetry of the symbolic '
              'outcomes). The cache round trip (Cache.* is SQL, outside the verifier) is covered by a BOUNDED native stand-in (bounded/c20_cache.py, never counted as proved): '
              'a scripted in-process provider on the offline test network, chains of 1..4 (thorough 5) transactions with every block-height sharing pattern, every after_txid, '
              'provider up and down; answers from a warm cache must equal what was stored. NOT covered: getutxos / estimatefee / getblock cache paths, time-outs as a separate class '
              '(a time-out is an exception of the provider call).')
NOT_COVERED = ['Cache.* as proofs (bounded harness for gettransactions / gettransaction only)', 'getutxos, getrawtransaction, sendrawtransaction, estimatefee, getblock wrappers']


def extra_checks(tier, seed, opens):
    from bounded import c20_cache
    return [c20_cache.run(tier, seed, opens)]
TRUSTED = ['provider oracle model (contracts/services.py)', 'random.random() tie-break not modelled']
FUZZ_QUICK = 200
