"""C19 - script evaluation agrees with Bitcoin consensus for the implemented opcodes."""
CONTRACT_MODULES = ['contracts.encoding', 'contracts.scripts', 'contracts.specs']
_OPS = ['op_nop', 'op_verify', 'op_return', 'op_2drop', 'op_2dup', 'op_3dup', 'op_2over', 'op_2rot', 'op_2swap',
        'op_ifdup', 'op_drop', 'op_dup', 'op_nip', 'op_over', 'op_rot', 'op_swap', 'op_tuck',
        'op_equal', 'op_equalverify', 'op_1add', 'op_1sub', 'op_negate', 'op_abs', 'op_not', 'op_0notequal',
        'op_add', 'op_sub', 'op_booland', 'op_boolor', 'op_numequal', 'op_numequalverify', 'op_numnotequal',
        'op_min', 'op_max', 'op_within', 'op_ripemd160', 'op_sha1', 'op_sha256', 'op_hash160', 'op_hash256',
        'op_depth', 'op_size', 'op_pick', 'op_roll', 'op_numlessthan', 'op_numgreaterthan', 'op_numlessthanorequal',
        'op_numgreaterthanorequal', 'op_checklocktimeverify', 'op_checksequenceverify', 'op_nop1', 'op_nop4', 'op_nop5', 'op_nop6', 'op_nop7', 'op_nop8', 'op_nop9', 'op_nop10']
CONTRACTS = ['bitcoinlib.scripts.Stack.' + o for o in _OPS] + [
    'bitcoinlib.scripts.encode_num', 'bitcoinlib.scripts.decode_num', 'bitcoinlib.scripts.decode_num[roundtrip]',
    'spec.script.script_num_decode[facts]', 'spec.script.cast_to_bool[facts]',
    'bitcoinlib.scripts.Stack.op_verify[long-items-native]', 'bitcoinlib.scripts.Stack.op_ifdup[long-items-native]',
    'bitcoinlib.scripts.Stack.op_checksig', 'bitcoinlib.scripts.Stack.op_checksigverify'] + [
    'bitcoinlib.scripts.Stack.%s[n%d-m%d]' % (o, n, m) for n in range(4) for m in range(n + 1) for o in ('op_checkmultisig', 'op_checkmultisigverify')]
LEVEL = 'proof'
LEVEL_TEXT = ('Each of 55 Stack.op_* methods and encode_num/decode_num is verified, for stacks of ANY depth holding byte strings of ANY '
              'length, against the consensus effect of the opcode transcribed from the reference interpreter (spec/script.py): same final '
              'stack, same fail/success (OP_VERIFY / OP_IFDUP: top item of up to 9 bytes; longer items natively). 10 deviations found that way are open findings, all asserted by the '
              'repository tests (pinned exactly; any other deviation is a violation); 16 further ones were repaired in /repo. '
              'PICK/ROLL (symbolic stack positions), IF/NOTIF/ELSE/ENDIF expansion and the Script.evaluate dispatch loop are only covered by '
              'bounded stand-ins (exhaustive small scripts against a reference interpreter) and are not part of the proof claim; '
              'CLTV and CSV are proved against BIP65 / BIP112 (both were repaired). CHECKSIG / CHECKSIGVERIFY (any stack) and CHECKMULTISIG / CHECKMULTISIGVERIFY (one case per n <= 3, m <= n; labelled bounded) are verified for their stack effect and signature / key matching order with an ABSTRACT signature check (Signature.parse_bytes / verify replaced by an uninterpreted predicate: an assumed model, listed).')
LEVEL_NOTE = ('Trusted: pyvc VC generator and Python semantics (DESIGN §2.10); z3/cvc5; spec/script.py as the statement of consensus; hash functions '
              'as uninterpreted functions; @opaque spec functions (script_num_decode, cast_to_bool) are abstract at call sites, their stated '
              'facts are proved as lemma contracts. Exceptions count as FAIL exactly as Script.evaluate maps them.')
NOT_COVERED = ['signature encodings inside scripts and multisig count edge cases as proofs (native harness bounded/c19_sigops.py with real signatures only); hash types other than ALL in scripts',
               'Script.evaluate dispatch, IF/NOTIF expansion, PICK, ROLL: bounded stand-ins only']
TRUSTED = ['spec/script.py (consensus oracle, transcribed from interpreter.cpp)', 'sha256/sha1/ripemd160 as uninterpreted functions',
           'pyvc engine']
FUZZ_QUICK = 200


def extra_checks(tier, seed, opens):
    from bounded import c19_eval, c19_sigops
    return [c19_eval.run(tier, seed, opens), c19_sigops.run(tier, seed, opens)]
