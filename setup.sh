#!/bin/sh
# Builds the offline overlay interpreter /verif/.venv (CPython 3.12 of /venv + z3-solver, cvc5, jsonschema, crosshair, deal).
set -e
cd "$(dirname "$0")"
if [ -x .venv/bin/python ] && .venv/bin/python -c 'import z3, jsonschema, bitcoinlib' 2>/dev/null; then
  echo "setup: .venv present"; exit 0
fi
rm -rf .venv
/venv/bin/python -m venv .venv
PIP_NO_INDEX=1 .venv/bin/pip install -q --no-index --find-links /opt/veriftools/wheels z3-solver cvc5 jsonschema crosshair-tool deal icontract hypothesis >/dev/null 2>&1 || \
PIP_NO_INDEX=1 .venv/bin/pip install -q --no-index --find-links /opt/veriftools/wheels z3-solver cvc5 jsonschema
SP=$(.venv/bin/python -c 'import site; print(site.getsitepackages()[0])')
echo "import site; site.addsitedir('/venv/lib/python3.12/site-packages')" > "$SP/zz_repo_overlay.pth"
.venv/bin/python -c 'import z3, jsonschema, bitcoinlib; print("setup: ok", z3.get_version_string(), bitcoinlib.__file__)'
