"""C01, "valid for the output being spent on the real network" - BOUNDED native stand-in (never counted as proved).

The contracts of C01 prove that signature_hash / raw / signature_segwit compute the consensus preimage for the input kind the Input object
SAYS it is.  Which kind an input is taken to be is decided in Transaction.add_input / Input.__init__ from what the caller supplies (address,
locking script of the spent output, explicit witness type, the transaction's own witness type) - object construction the verifier does not
reach.  Here transactions are built through the public API, signed by the library, serialised, and then judged WITHOUT the library:

  * the raw bytes are read with the independent reader spec/wire.parse_tx;
  * for every input the unlocking data must satisfy the script of the output it spends, as consensus evaluates it:
      P2PKH         scriptSig = <sig> <pubkey>, no witness;  hash160(pubkey) is the script's hash;  legacy digest with the spent script as code
      P2WPKH        scriptSig empty, witness = [sig, pubkey];  BIP143 digest, script code 76a914<hash>88ac, the spent amount
      P2SH-P2WPKH   scriptSig = push(0014<hash>), witness as P2WPKH;  hash160(0014<hash>) is the P2SH hash;  BIP143 digest
    digests from spec/sighash.py (written from the developer reference / BIP143), ECDSA with the pure-Python curve of spec/ec.py;
  * a transaction the library refuses to build or sign is not a violation (nothing was signed).

Bound: 1..3 inputs per transaction, each of a random kind and described to the library in one of the documented ways (address; locking
script + keys; explicit witness type + keys; a P2SH-nested output always with its witness type, since a P2SH address alone does not say what
its redeem script is), transaction witness type default / legacy / segwit, 1..2 outputs, hash type ALL."""
import hashlib
import random
import time

from spec import ec, wire, sighash, base58, bech32
from spec.pins_c18 import lex
from bounded.c10_handoff import _der, ecdsa_ok


def _h160(b):
    return hashlib.new('ripemd160', hashlib.sha256(b).digest()).digest()


def _pub(k):
    pt = ec.mul_g(k)
    return bytes([2 + (pt[1] & 1)]) + pt[0].to_bytes(32, 'big')


def spent_script(kind, h):
    if kind == 'p2pkh':
        return b'\x76\xa9\x14' + h + b'\x88\xac'
    if kind == 'p2wpkh':
        return b'\x00\x14' + h
    return b'\xa9\x14' + _h160(b'\x00\x14' + h) + b'\x87'


def spent_address(kind, h):
    if kind == 'p2pkh':
        return base58.check_encode(b'\x00' + h)
    if kind == 'p2wpkh':
        return bech32.encode('bc', 0, h)
    return base58.check_encode(b'\x05' + _h160(b'\x00\x14' + h))


WT = {'p2pkh': 'legacy', 'p2wpkh': 'segwit', 'p2sh-p2wpkh': 'p2sh-segwit'}


def judge(raw, spent, superfluous=None):
    """spent: list of (kind, hash160 of the key, value).  Returns None when every input satisfies the output it spends, else a description."""
    try:
        version, ins, outs, locktime, has_wit, used = wire.parse_tx(raw)
    except Exception as e:
        return 'serialised transaction cannot be read: %s' % e
    if used != len(raw) or len(ins) != len(spent):
        return 'serialised transaction has %d inputs / %d trailing bytes' % (len(ins), len(raw) - used)
    abstract_ins = [(i[0], i[1], i[3]) for i in ins]
    if superfluous is not None and has_wit and not any(i[4] for i in ins):
        # BIP144: "If the witness is empty, the old serialization format must be used" - nodes refuse the extended format without any witness
        superfluous.append(True)
    for n, ((txid, vout, script, seq, wit), (kind, h, value)) in enumerate(zip(ins, spent)):
        if kind == 'p2pkh':
            items = lex(script)
            if wit:
                return 'input %d spends a P2PKH output but carries a witness' % n
            if not items or len(items) != 2 or not all(isinstance(x, bytes) for x in items):
                return 'input %d spends a P2PKH output: scriptSig is not <sig> <pubkey> (%s)' % (n, script.hex()[:40])
            sig, pub = items
            pre = sighash.legacy_all_preimage(version, abstract_ins, outs, locktime, n, spent_script(kind, h))
        else:
            want_ss = b'' if kind == 'p2wpkh' else b'\x16\x00\x14' + h
            if script != want_ss:
                return 'input %d spends a %s output: scriptSig is %s, consensus needs %s' % (n, kind.upper(), script.hex() or '(empty)', want_ss.hex() or '(empty)')
            if len(wit) != 2:
                return 'input %d spends a %s output: witness has %d items' % (n, kind.upper(), len(wit))
            sig, pub = wit
            d = _der(sig)
            pre = sighash.bip143_preimage(version, abstract_ins, outs, locktime, n, b'\x76\xa9\x14' + h + b'\x88\xac', value, d[2] if d else 1)
        d = _der(sig)
        if d is None:
            return 'input %d: signature is not DER + hash type' % n
        if d[2] != 1:
            return 'input %d: hash type %d, asked for ALL' % (n, d[2])
        if _h160(pub) != h:
            return 'input %d: public key does not hash to the spent output\'s key hash' % n
        if not ecdsa_ok(sighash.dsha(pre), d[0], d[1], pub):
            return ('input %d spends a %s output: the signature is not valid for the %s digest consensus computes for it'
                    % (n, kind.upper(), 'legacy SIGHASH_ALL' if kind == 'p2pkh' else 'BIP143'))
    return None


def run(tier, seed, opens):
    from bitcoinlib.transactions import Transaction
    from bitcoinlib.keys import Key
    t0 = time.time()
    random.seed(101 + seed)
    rng = random.Random(10100 + seed)
    N = 150 if tier == 'quick' else 1500
    failed, cases, ok, refused = [], 0, 0, 0
    seen = set()
    known = {}
    listed = {o.get('id') for o in opens}

    def fail(inp, observed):
        sig = (observed.split(':')[0][:60], tuple(sorted((d['spends'], d['described_by']) for d in inp['inputs'])), inp['transaction_witness_type'])
        if len(failed) < 6 and sig not in seen:
            seen.add(sig)
            failed.append({'input': inp, 'observed': observed, 'expected': 'every signature valid for the output it spends (independent digest and ECDSA)',
                           'confirmed': True, 'obligation': 'api-signing#bounded', 'what': 'sign through the API'})

    for _ in range(N):
        n_in = rng.choice([1, 1, 2, 2, 3])
        tx_wt = rng.choice([None, None, 'legacy', 'segwit'])
        kw = {} if tx_wt is None else {'witness_type': tx_wt}
        version = rng.choice([1, 2])
        locktime = rng.choice([0, 0, 1, 499999999, 500000000, rng.getrandbits(32)])
        descr = {'transaction_witness_type': tx_wt or '(default)', 'version': version, 'locktime': locktime, 'inputs': [], 'outputs': []}
        spent = []
        cases += 1
        try:
            t = Transaction(network='bitcoin', version=version, locktime=locktime, **kw)
            keys = []
            for j in range(n_in):
                kind = rng.choice(['p2pkh', 'p2wpkh', 'p2sh-p2wpkh'])
                how = rng.choice(['address', 'locking_script', 'witness_type', 'address+witness_type'])
                if kind == 'p2sh-p2wpkh' and how in ('address', 'locking_script'):
                    # a P2SH address / script alone does not say what the redeem script is: under-specified, not used
                    how = rng.choice(['witness_type', 'address+witness_type'])
                k = rng.randrange(1, ec.N)
                h = _h160(_pub(k))
                value = rng.choice([546, 10000, 12345678, rng.randrange(1000, 21 * 10 ** 14)])
                prev = bytes(rng.getrandbits(8) for _ in range(32))
                vout = rng.choice([0, 1, 2, 7, 300])
                seq = rng.choice([0xffffffff, 0xfffffffe, 0xfffffffd, 0, 5])
                key = Key(k, network='bitcoin')
                a = dict(prev_txid=prev, output_n=vout, keys=[key], value=value, sequence=seq)
                if 'address' in how:
                    a['address'] = spent_address(kind, h)
                if how == 'locking_script':
                    a['locking_script'] = spent_script(kind, h)
                if 'witness_type' in how:
                    a['witness_type'] = WT[kind]
                t.add_input(**a)
                keys.append(key)
                spent.append((kind, h, value))
                descr['inputs'].append({'spends': kind, 'described_by': how, 'private_key': '%064x' % k, 'prev_txid': prev.hex(), 'output_n': vout,
                                        'value': value, 'sequence': seq})
            total = sum(s[2] for s in spent)
            n_out = rng.choice([1, 2])
            for j in range(n_out):
                amt = (total - 300) // n_out
                if amt < 1:
                    amt = 1
                dest = spent_address(rng.choice(['p2pkh', 'p2wpkh', 'p2sh-p2wpkh']), bytes(rng.getrandbits(8) for _ in range(20)))
                t.add_output(amt, dest)
                descr['outputs'].append({'value': amt, 'address': dest})
            mode = rng.choice(['stored keys', 'per input', 'all keys'])
            descr['signed_with'] = mode
            if mode == 'stored keys':
                t.sign()
            elif mode == 'per input':
                for j in rng.sample(range(n_in), n_in):
                    t.sign(keys[j], index_n=j)
            else:
                t.sign(keys, fail_on_unknown_key=False)
            raw = t.raw()
        except Exception as e:
            refused += 1
            continue
        sup = []
        why = judge(raw, spent, sup)
        if why is None and sup:
            # recorded finding: marker and flag written although no input has a witness (all inputs legacy, transaction typed segwit - the default)
            cex = {'input': dict(descr, raw_hex=raw.hex()), 'observed': 'serialised in the extended (marker 00, flag 01) format with an empty witness for every input',
                   'expected': 'the old serialisation format (BIP144)', 'confirmed': True, 'obligation': 'api-signing#bounded', 'what': 'sign through the API'}
            if 'F-C01-superfluous-witness-format' in listed:
                if len(known.setdefault('F-C01-superfluous-witness-format', [])) < 2:
                    known['F-C01-superfluous-witness-format'].append(cex)
            elif len(failed) < 6:
                failed.append(cex)
        elif why is None:
            ok += 1
        else:
            fail(dict(descr, raw_hex=raw.hex()), why)
    if refused > cases * 0.6:
        failed.append({'input': {}, 'observed': 'the library refused %d of %d transactions' % (refused, cases), 'expected': 'most API-built transactions are signed',
                       'confirmed': True, 'obligation': 'api-signing#bounded', 'what': 'harness vacuity'})
    return {'contract': 'api-signing[bounded]', 'target': 'Transaction.add_input / Input.__init__ / Transaction.sign / Transaction.raw',
            'status': 'ok', 'bounded': '%d API-built transactions, 1..3 inputs x 3 spent-output kinds x 4 ways of describing them x 3 transaction witness types; %d refused by the library' % (cases, refused),
            'paths': cases, 'obligations': [{'name': 'api-signing#bounded', 'kind': 'bounded', 'paths': cases, 'discharged': ok + refused, 'failed': failed, 'unknown': 0,
                                             'secs': 0.0, 'solvers': {'native': cases}, 'known': known}],
            'notes': ['%d of %d transactions refused by the library (not signed)' % (refused, cases)], 'wall_s': time.time() - t0,
            'fuzz': {'runs': 0, 'failures': []}, 'props': ['C01']}
