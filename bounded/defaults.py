"""Obligation on function *definitions*: no default-argument expression of a function in the listed modules is a call
(a default is evaluated once, when the module is imported; an entropy-source call there yields one value per process).
Generated from the current source of the modules on every run; one obligation per function that has defaults."""
import ast
import time


def run(modules, prop):
    t0 = time.time()
    obligations, failed = 0, []
    for path in modules:
        tree = ast.parse(open(path).read(), path)
        for node in ast.walk(tree):
            if isinstance(node, (ast.FunctionDef, ast.AsyncFunctionDef)):
                defaults = list(node.args.defaults) + [d for d in node.args.kw_defaults if d is not None]
                if not defaults:
                    continue
                obligations += 1
                bad = [ast.unparse(d) for d in defaults if any(isinstance(n, ast.Call) for n in ast.walk(d))]
                if bad:
                    failed.append({'obligation': '%s:%s#defaults-are-constants' % (path.split('/')[-1], node.name),
                                   'input': {'function': node.name, 'line': node.lineno, 'default_expressions': bad},
                                   'observed': 'default argument evaluated once at import: %s' % ', '.join(bad),
                                   'expected': 'defaults are constants; entropy is drawn inside the call', 'confirmed': True})
    res = {'contract': 'definitions[defaults-are-constants]', 'target': ', '.join(m.split('/')[-1] for m in modules), 'status': 'ok', 'props': [prop],
           'paths': obligations, 'notes': [], 'fuzz': {'runs': 0, 'failures': []}, 'wall_s': time.time() - t0,
           'obligations': [{'name': 'definitions#defaults-are-constants', 'kind': 'definition', 'paths': obligations,
                            'discharged': obligations - len(failed), 'failed': failed, 'unknown': 0, 'secs': 0.0,
                            'solvers': {'ast-inspection': obligations}, 'known': {}}]}
    return res
