"""BOUNDED stand-in for C14 (never counted as proved) + concrete data obligations on the nine word lists.
For every bundled language and every entropy size: sampled entropies (incl. all-zero-prefix, all-ones, boundary patterns) must give
the BIP39 sentence (reference: spec/bip39.py), convert back to the same entropy, and give the BIP39 seed; every single-word
substitution of a sampled sentence must be rejected unless the reference says the new sentence has a valid checksum."""
import os
import random
import time
import unicodedata

from spec import bip39


def run(tier, seed, opens):
    from bitcoinlib.mnemonic import Mnemonic
    from bitcoinlib.main import BCL_INSTALL_DIR
    t0 = time.time()
    rng = random.Random(99 + seed)
    cases = ok = 0
    failed = []

    def fail(what, inp, observed, expected):
        if len(failed) < 8:
            failed.append({'input': inp, 'observed': observed, 'expected': expected, 'confirmed': True, 'obligation': 'Mnemonic#bounded', 'what': what})

    wl_dir = os.path.join(str(BCL_INSTALL_DIR), 'wordlist')
    langs = sorted(f[:-4] for f in os.listdir(wl_dir) if f.endswith('.txt'))
    # concrete data obligations: 2048 distinct, NFKD-stable words per list
    for lang in langs:
        cases += 1
        words = [w.strip() for w in open(os.path.join(wl_dir, lang + '.txt'), encoding='utf-8').readlines()]
        if len(words) == 2048 and len(set(words)) == 2048 and all(unicodedata.normalize('NFKD', w) == w for w in words):
            ok += 1
        else:
            fail('wordlist', {'language': lang}, '%d words, %d distinct, NFKD-stable=%s' % (len(words), len(set(words)),
                 all(unicodedata.normalize('NFKD', w) == w for w in words)), '2048 distinct NFKD-normalised words')
    n_ent = 2 if tier == 'quick' else 40
    n_subst = 30 if tier == 'quick' else 600
    for lang in langs:
        m = Mnemonic(lang)
        wl = m.wordlist()
        for size in (16, 20, 24, 28, 32):
            ents = [bytes(size), b'\x00' * (size - 1) + b'\x01', b'\x00\x00' + bytes(rng.getrandbits(8) for _ in range(size - 2)), b'\x7f' * size]
            ents += [bytes(rng.getrandbits(8) for _ in range(size)) for _ in range(n_ent)]
            for ent in ents:
                cases += 1
                inp = {'language': lang, 'entropy': ent.hex()}
                try:
                    sent = m.to_mnemonic(ent, check_on_curve=False)
                    want = ' '.join(wl[i] for i in bip39.indices(ent))
                    back = m.to_entropy(sent)
                    if sent == unicodedata.normalize('NFKD', want) and back == ent:
                        ok += 1
                    else:
                        fail('sentence/entropy', inp, '%s | back=%s' % (sent, back.hex() if isinstance(back, bytes) else back), want)
                except Exception as e:
                    fail('sentence/entropy', inp, 'raises %r' % e, 'BIP39 sentence')
        # seeds and substitutions on one sentence per language
        ent = bytes(rng.getrandbits(8) for _ in range(16))
        sent = m.to_mnemonic(ent)
        for pw in ('', 'TREZOR', 'é', 'é'):
            cases += 1
            try:
                got = m.to_seed(sent, pw)
            except Exception as e:
                fail('seed', {'language': lang, 'sentence': sent, 'passphrase': pw}, 'raises %r' % e, bip39.seed(sent, pw).hex())
                continue
            if got == bip39.seed(sent, pw):
                ok += 1
            else:
                fail('seed', {'language': lang, 'sentence': sent, 'passphrase': pw}, got.hex(), bip39.seed(sent, pw).hex())
        ws = sent.split(' ')
        if any(w not in wl for w in ws):
            cases += 1
            fail('sentence of a used object', {'language': lang, 'entropy': ent.hex()}, sent, 'words of the %s list' % lang)
            continue
        idx = [wl.index(w) for w in ws]
        for _ in range(n_subst):
            pos = rng.randrange(len(ws))
            new = rng.randrange(2048)
            if new == idx[pos]:
                continue
            idx2 = idx[:pos] + [new] + idx[pos + 1:]
            s2 = ' '.join(wl[i] for i in idx2)
            spec_ent = bip39.entropy_of(idx2)
            cases += 1
            try:
                got = m.to_entropy(s2)
                if spec_ent is not None and got == spec_ent:
                    ok += 1
                else:
                    fail('substitution', {'language': lang, 'sentence': s2}, 'accepted: %s' % (got.hex() if isinstance(got, bytes) else got),
                         'rejected' if spec_ent is None else spec_ent.hex())
            except Exception:
                if spec_ent is None:
                    ok += 1
                else:
                    fail('substitution', {'language': lang, 'sentence': s2}, 'raises', spec_ent.hex())
        cases += 1
        try:
            m.to_entropy(' '.join(ws[:-1] + ['notaword']))
            fail('unknown word', {'language': lang}, 'accepted', 'rejected')
        except Exception:
            ok += 1
        # a valid sentence of ANOTHER list (with at least one word this list does not have) is not a sentence of this object's list: to_entropy and
        # to_seed reject it - and whatever they did, the object still generates sentences of its OWN list afterwards
        for other in [l for l in langs if l != lang][:: (3 if tier == 'quick' else 1)]:
            owl = [w.strip() for w in open(os.path.join(wl_dir, other + '.txt'), encoding='utf-8').readlines()]
            e2 = bytes(rng.getrandbits(8) for _ in range(16))
            foreign = ' '.join(owl[i] for i in bip39.indices(e2))
            if all(w in wl for w in foreign.split(' ')):
                continue
            m2 = Mnemonic(lang)
            for call in ('to_entropy', 'to_seed'):
                cases += 1
                try:
                    r = getattr(m2, call)(foreign)
                    fail('sentence of another word list', {'language': lang, 'sentence_language': other, 'sentence': foreign, 'call': call},
                         'accepted: %s' % (r.hex() if isinstance(r, bytes) else r), 'rejected')
                except Exception:
                    ok += 1
            for prior in ('sanitize_mnemonic', None):
                cases += 1
                try:
                    if prior:
                        try:
                            m2.sanitize_mnemonic(foreign)
                        except Exception:
                            pass
                    e3 = bytes(rng.getrandbits(8) for _ in range(16))
                    got = m2.to_mnemonic(e3, check_on_curve=False)
                    want = unicodedata.normalize('NFKD', ' '.join(wl[i] for i in bip39.indices(e3)))
                    if got == want:
                        ok += 1
                    else:
                        fail('generation after the object has seen a sentence of another list', {'language': lang, 'sentence_language': other, 'entropy': e3.hex()}, got, want)
                except Exception as e:
                    fail('generation after the object has seen a sentence of another list', {'language': lang, 'sentence_language': other}, 'raises %r' % e, 'BIP39 sentence')
    return {'contract': 'Mnemonic[bounded]', 'target': 'bitcoinlib.mnemonic.Mnemonic.to_mnemonic / to_entropy / to_seed, wordlists', 'status': 'ok', 'props': ['C14'],
            'bounded': '9 word lists x 5 entropy sizes x (%d special + %d random entropies); %d single-word substitutions per language' % (4, n_ent, n_subst),
            'paths': cases, 'obligations': [{'name': 'Mnemonic#bounded-vs-bip39-reference', 'kind': 'bounded', 'paths': cases, 'discharged': ok,
                                             'failed': failed, 'unknown': 0, 'secs': 0.0, 'solvers': {'native': cases}, 'known': {}}],
            'notes': [], 'wall_s': time.time() - t0, 'fuzz': {'runs': 0, 'failures': []}}
