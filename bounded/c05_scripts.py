"""BOUNDED stand-in for C05 (never counted as proved): for every network and every standard destination kind (P2PKH, P2SH, P2WPKH,
P2WSH, P2TR and witness versions 2..16 with 32-byte programs) and random payloads, both directions of the address <-> locking
script mapping are evaluated on the real Output class against an independent oracle (standard script templates + the reference
text encoders of spec/), plus refusal of addresses of another network."""
import random
import time

from spec import base58 as b58, bech32 as b32


def spec_script(kind, payload, witver=0):
    if kind == 'p2pkh':
        return b'\x76\xa9\x14' + payload + b'\x88\xac'
    if kind == 'p2sh':
        return b'\xa9\x14' + payload + b'\x87'
    op = b'\x00' if witver == 0 else bytes([0x50 + witver])
    return op + bytes([len(payload)]) + payload


def run(tier, seed, opens):
    from bitcoinlib.transactions import Transaction
    from bitcoinlib.transactions import Output
    from bitcoinlib.keys import Address, HDKey
    from bitcoinlib.networks import NETWORK_DEFINITIONS
    t0 = time.time()
    rng = random.Random(77 + seed)
    listed = {o.get('id') for o in opens}
    reps = 2 if tier == 'quick' else 40
    cases = ok = 0
    failed, known = [], {}

    def fail(what, inp, observed, expected, pid=None):
        cex = {'input': inp, 'observed': observed, 'expected': expected, 'confirmed': True, 'obligation': 'Output#bounded', 'what': what}
        if pid and pid in listed:
            known.setdefault(pid, [])
            if len(known[pid]) < 2:
                known[pid].append(cex)
        elif len(failed) < 8:
            failed.append(cex)

    nets = sorted(NETWORK_DEFINITIONS)
    for net in nets:
        d = NETWORK_DEFINITIONS[net]
        kinds = [('p2pkh', 20, 0), ('p2sh', 20, 0), ('p2wpkh', 20, 0), ('p2wsh', 32, 0), ('p2tr', 32, 1)] + [('witness', 32, v) for v in range(2, 17)] \
            + [('witness', ln_, v) for v in (1, 2, 16) for ln_ in (2, 20, 40)]          # other valid program lengths (BIP141: 2..40 bytes): v1 with 20 bytes is NOT a P2WPKH
        for kind, ln, witver in kinds:
            for _ in range(reps):
                payload = bytes(rng.getrandbits(8) for _ in range(ln))
                script = spec_script(kind, payload, witver)
                if kind == 'p2pkh':
                    addr = b58.check_encode(bytes.fromhex(d['prefix_address']) + payload)
                elif kind == 'p2sh':
                    addr = b58.check_encode(bytes.fromhex(d['prefix_address_p2sh']) + payload)
                else:
                    addr = b32.encode(d['prefix_bech32'], witver, list(payload))
                inp = {'network': net, 'kind': kind, 'witver': witver, 'payload': payload.hex(), 'address': addr, 'script': script.hex()}
                # A: address -> script
                cases += 1
                try:
                    o = Output(1000, address=addr, network=net)
                    if o.lock_script == script:
                        ok += 1
                    else:
                        fail('address->script', inp, o.lock_script.hex(), script.hex())
                except Exception as e:
                    if kind == 'witness':
                        ok += 1            # future witness versions may be refused as destinations (not silently mis-encoded)
                    else:
                        fail('address->script', inp, 'raises %r' % e, script.hex())
                # B: script -> address / type / payload
                cases += 1
                try:
                    o = Output(1000, lock_script=script, network=net)
                    got = (o.address, o.public_hash)
                    if got == (addr, payload) or (kind == 'witness' and ln not in (20, 32)):
                        ok += 1            # (witness programs of unusual length are not standard scripts: what is reported for them is outside the property)
                    else:
                        fail('script->address', inp, repr(got), repr((addr, payload)))
                except Exception as e:
                    if kind == 'witness' and ln not in (20, 32):
                        ok += 1            # witness programs of unusual length are not standard destinations: refusing to name an address is allowed
                    else:
                        fail('script->address', inp, 'raises %r' % e, addr)
                # B2: the same script as an output of a serialised transaction, parsed under this network through every entry form
                if _ == 0 or tier != 'quick':
                    from spec import wire as _wire
                    from io import BytesIO as _BytesIO
                    rawtx = _wire.ser_tx(2, [(bytes(32), 0, b'', 0xffffffff, [])], [(1000, script)], 0, False)
                    for form, arg in (('hex text', rawtx.hex()), ('bytes', rawtx), ('BytesIO', None), ('parse_hex', rawtx.hex()), ('parse_bytes', rawtx)):
                        cases += 1
                        try:
                            if form == 'BytesIO':
                                tp = Transaction.parse(_BytesIO(rawtx), network=net)
                            elif form == 'parse_hex':
                                tp = Transaction.parse_hex(arg, network=net)
                            elif form == 'parse_bytes':
                                tp = Transaction.parse_bytes(arg, network=net)
                            else:
                                tp = Transaction.parse(arg, network=net)
                            got = (tp.network.name, tp.outputs[0].address, tp.outputs[0].lock_script)
                            if got == (net, addr, script) or (kind == 'witness' and ln not in (20, 32) and got[0] == net and got[2] == script):
                                ok += 1
                            else:
                                fail('script->address in a parsed transaction (%s)' % form, inp, repr(got), repr((net, addr, script)))
                        except Exception as e:
                            if kind == 'witness' and ln not in (20, 32):
                                ok += 1        # (as in B: no address is named for witness programs of unusual length)
                            else:
                                fail('script->address in a parsed transaction (%s)' % form, inp, 'raises %r' % e, addr)
                # A2: the destination given as an Address OBJECT (also the nested-segwit kinds, whose address is a P2SH address)
                if _ == 0 and kind in ('p2pkh', 'p2sh', 'p2wpkh', 'p2wsh'):
                    import hashlib as _h
                    objs = [('same kind', Address(hashed_data=payload, script_type=kind, network=net, encoding='base58' if kind in ('p2pkh', 'p2sh') else 'bech32'), script)]
                    if kind == 'p2pkh':
                        data = bytes([2]) + bytes(rng.getrandbits(8) for _ in range(32))
                        h160 = lambda b: _h.new('ripemd160', _h.sha256(b).digest()).digest()
                        objs.append(('p2sh_p2wpkh from a public key', Address(data, script_type='p2sh_p2wpkh', network=net), b'\xa9\x14' + h160(b'\x00\x14' + h160(data)) + b'\x87'))
                        objs.append(('p2sh_p2wsh from a script', Address(data, script_type='p2sh_p2wsh', network=net), b'\xa9\x14' + h160(b'\x00\x20' + _h.sha256(data).digest()) + b'\x87'))
                    for label, aobj, want in objs:
                        cases += 1
                        try:
                            o = Output(1000, address=aobj, network=net)
                            if o.lock_script == want and o.address == aobj.address:
                                ok += 1
                            else:
                                fail('Address object -> script (%s)' % label, dict(inp, address_object=aobj.address), '%s / %s' % (o.lock_script.hex(), o.address), '%s / %s' % (want.hex(), aobj.address))
                        except Exception as e:
                            fail('Address object -> script (%s)' % label, dict(inp, address_object=aobj.address), 'raises %r' % e, want.hex())
                # C: the same address string under a network with different prefixes must be refused
                other = rng.choice([n for n in nets if NETWORK_DEFINITIONS[n]['prefix_address'] != d['prefix_address']
                                    and NETWORK_DEFINITIONS[n]['prefix_address_p2sh'] != d['prefix_address_p2sh']
                                    and NETWORK_DEFINITIONS[n]['prefix_bech32'] != d['prefix_bech32']])
                cases += 1
                try:
                    o = Output(1000, address=addr, network=other)
                    fail('cross-network', dict(inp, transaction_network=other), 'accepted, script %s' % o.lock_script.hex(), 'refused')
                except Exception:
                    ok += 1
                # D: an Address object of another network
                if kind in ('p2pkh', 'p2wpkh') and _ == 0:
                    cases += 1
                    try:
                        a = Address(hashed_data=payload, script_type=kind, network=net, encoding='base58' if kind == 'p2pkh' else 'bech32')
                        o = Output(1000, address=a, network=other)
                        fail('cross-network-address-object', dict(inp, transaction_network=other), 'accepted; output.network=%s' % o.network.name, 'refused',
                             'F-C05-address-object-network')
                    except Exception:
                        ok += 1
    # F: outputs created from a hash + script type, from a public key, and from an HD key object
    import hashlib as _hl
    from bitcoinlib.keys import HDKey as _HDKey

    def _h160(b):
        return _hl.new('ripemd160', _hl.sha256(b).digest()).digest()
    for net in nets:
        d = NETWORK_DEFINITIONS[net]
        for kind, ln, witver in [('p2pkh', 20, 0), ('p2sh', 20, 0), ('p2wpkh', 20, 0), ('p2wsh', 32, 0), ('p2tr', 32, 1)]:
            payload = bytes(rng.getrandbits(8) | 0x80 for _ in range(ln))
            script = spec_script(kind, payload, witver)
            cases += 1
            try:
                o = Output(1000, public_hash=payload, script_type=kind, witver=witver, network=net,
                           encoding='base58' if kind in ('p2pkh', 'p2sh') else 'bech32')
                if o.lock_script == script:
                    ok += 1
                else:
                    fail('hash->script', {'network': net, 'kind': kind, 'payload': payload.hex()}, o.lock_script.hex(), script.hex())
            except Exception as e:
                fail('hash->script', {'network': net, 'kind': kind, 'payload': payload.hex()}, 'raises %r' % e, script.hex())
        for wt, kind in (('legacy', 'p2pkh'), ('segwit', 'p2wpkh'), ('p2sh-segwit', 'p2sh')):
            hk = _HDKey.from_seed(bytes(rng.getrandbits(8) for _ in range(32)), network=net, witness_type=wt)
            pub = hk.public_byte
            want = spec_script(kind, _h160(pub) if kind != 'p2sh' else _h160(b'\x00\x14' + _h160(pub)), 0)
            cases += 1
            try:
                o = Output(1000, address=hk, network=net)
                if o.lock_script == want:
                    ok += 1
                else:
                    fail('hdkey->script', {'network': net, 'witness_type': wt, 'public_key': pub.hex()}, o.lock_script.hex(), want.hex())
            except Exception as e:
                fail('hdkey->script', {'network': net, 'witness_type': wt}, 'raises %r' % e, want.hex())
            if wt == 'legacy':
                cases += 1
                try:
                    o = Output(1000, public_key=pub, script_type='p2pkh', network=net)
                    o2 = Output(1000, public_key=pub, network=net)            # no type given: the library's default destination type is P2WPKH
                    if o.lock_script == want and o2.lock_script == spec_script('p2wpkh', _h160(pub), 0):
                        ok += 1
                    else:
                        fail('public key->script', {'network': net, 'public_key': pub.hex()}, o.lock_script.hex() + ' / ' + o2.lock_script.hex(), want.hex() + ' / p2wpkh')
                except Exception as e:
                    fail('public key->script', {'network': net}, 'raises %r' % e, want.hex())
    # E: segwit addresses whose prefix belongs to NO network the library knows (other chains: grs, vtc, dgb, xyz), and the upper-case form of a
    #    known address used on a different network: never a destination of this transaction's network
    for net in ('bitcoin', 'testnet', 'litecoin'):
        for hrp in ('grs', 'vtc', 'dgb', 'xyz', 'BC', 'TB'):
            for kind, ln, witver in (('p2wpkh', 20, 0), ('p2wsh', 32, 0), ('p2tr', 32, 1)):
                if hrp.lower() == NETWORK_DEFINITIONS[net]['prefix_bech32']:
                    continue
                payload = bytes(rng.getrandbits(8) for _ in range(ln))
                addr = b32.encode(hrp.lower(), witver, list(payload))
                if hrp.isupper():
                    addr = addr.upper()
                cases += 1
                try:
                    o = Output(1000, address=addr, network=net)
                    fail('foreign-prefix', {'network': net, 'address': addr}, 'accepted, script %s' % o.lock_script.hex(), 'refused')
                except Exception:
                    ok += 1
    res = {'contract': 'Output[bounded]', 'target': 'bitcoinlib.transactions.Output.__init__', 'status': 'ok', 'props': ['C05'],
           'bounded': '%d random payloads per (network, kind) for 11 networks x {p2pkh, p2sh, p2wpkh, p2wsh, p2tr, witness v2..v16}' % reps,
           'paths': cases, 'obligations': [{'name': 'Output#bounded-address-script-mapping', 'kind': 'bounded', 'paths': cases, 'discharged': ok,
                                            'failed': failed, 'unknown': 0, 'secs': 0.0, 'solvers': {'native': cases}, 'known': known}],
           'notes': [], 'wall_s': time.time() - t0, 'fuzz': {'runs': 0, 'failures': []}}
    return res
