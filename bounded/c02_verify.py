"""C02, raw transactions from outside - BOUNDED native stand-in (never counted as proved).

The contracts of C02 prove Signature.verify, Input.verify and Transaction.verify for the fields the objects hold.  Whether those fields are what
the serialised transaction SAYS (hash type byte of each signature, witness items, script kinds) is decided by Transaction.parse - parsing code
outside the verifier.  Here signed transactions (1..3 single-key inputs: P2PKH, P2WPKH, P2SH-P2WPKH; built and signed by the library and
accepted by the independent judge of bounded/c01_signing.py) are damaged one field at a time in their serialised form:

    the hash type byte of a signature (02, 03, 81, 82, 83, 00) - one byte inside r or s - an output amount - a sequence number - the lock time -
    the version - the outpoint index - one byte of an output script

and each damaged serialisation - as well as the undamaged one - is parsed by the library (input amounts supplied, as a wallet or a service
would) and verified.  Expected: Transaction.verify() is True exactly when the independent judge (own reader, digests of spec/sighash.py,
pure-Python ECDSA; a hash type other than ALL is judged against the BIP143 digest of that hash type, for legacy inputs as invalid because the
signature was made for ALL) accepts the same bytes.  Also: parse -> raw() returns the damaged bytes unchanged (nothing is normalised away)."""
import random
import time

from spec import ec, wire
from bounded import c01_signing as c01


def _mutants(raw, rng):
    """(description, bytes) - single-field damage located with the independent reader"""
    version, ins, outs, locktime, has_wit, used = wire.parse_tx(raw)
    out = []

    def sub(what, old, new, count=1):
        if old and raw.count(old) == 1 and old != new:
            out.append((what, raw.replace(old, new)))

    for n, (txid, vout, script, seq, wit) in enumerate(ins):
        sigs = [w for w in wit if len(w) > 60 and w[0] == 0x30]
        if script:
            from spec.pins_c18 import lex
            items = lex(script) or []
            sigs += [x for x in items if isinstance(x, bytes) and len(x) > 60 and x[0] == 0x30]
        for sg in sigs[:1]:
            for ht in (2, 3, 0x81, 0x82, 0x83, 0):
                sub('hash type byte of the signature of input %d set to %02x' % (n, ht), sg, sg[:-1] + bytes([ht]))
            pos = rng.randrange(5, len(sg) - 2)
            sub('byte %d of the signature of input %d changed' % (pos, n), sg, sg[:pos] + bytes([sg[pos] ^ (1 << rng.randrange(8))]) + sg[pos + 1:])
        sub('sequence of input %d changed' % n, txid + wire.le(vout, 4) + wire.compact_size(len(script)) + script + wire.le(seq, 4),
            txid + wire.le(vout, 4) + wire.compact_size(len(script)) + script + wire.le(seq ^ 1, 4))
        sub('outpoint index of input %d changed' % n, txid + wire.le(vout, 4), txid + wire.le(vout ^ 1, 4))
    for n, (value, spk) in enumerate(outs):
        sub('amount of output %d changed by one' % n, wire.le(value, 8) + wire.compact_size(len(spk)) + spk, wire.le(value + 1, 8) + wire.compact_size(len(spk)) + spk)
        if len(spk) > 4:
            p = rng.randrange(3, len(spk) - 1)
            spk2 = spk[:p] + bytes([spk[p] ^ 1]) + spk[p + 1:]
            sub('one byte of the script of output %d changed' % n, wire.le(value, 8) + wire.compact_size(len(spk)) + spk, wire.le(value, 8) + wire.compact_size(len(spk)) + spk2)
    out.append(('lock time changed', raw[:-4] + wire.le(locktime ^ 1, 4)))
    out.append(('version changed', wire.le(version ^ 3, 4) + raw[4:]))
    return out


def run(tier, seed, opens):
    from bitcoinlib.transactions import Transaction
    from bitcoinlib.keys import Key
    t0 = time.time()
    random.seed(202 + seed)
    rng = random.Random(20200 + seed)
    N = 25 if tier == 'quick' else 250
    failed, cases, ok, built = [], 0, 0, 0
    seen = set()

    def fail(what, inp, observed, expected):
        key = (what.split(' of ')[0][:40], observed[:40])
        if len(failed) < 6 and key not in seen:
            seen.add(key)
            failed.append({'input': inp, 'observed': observed, 'expected': expected, 'confirmed': True, 'obligation': 'parsed-verify#bounded', 'what': what})

    tries = 0
    while built < N and tries < N * 6:
        tries += 1
        n_in = rng.choice([1, 1, 2, 3])
        spent = []
        try:
            t = Transaction(network='bitcoin', version=rng.choice([1, 2]), locktime=rng.choice([0, 0, 7, 500000001]))
            for j in range(n_in):
                kind = rng.choice(['p2pkh', 'p2wpkh', 'p2sh-p2wpkh'])
                k = rng.randrange(1, ec.N)
                h = c01._h160(c01._pub(k))
                value = rng.choice([10000, 12345678, rng.randrange(1000, 21 * 10 ** 14)])
                t.add_input(prev_txid=bytes(rng.getrandbits(8) for _ in range(32)), output_n=rng.choice([0, 1, 6]), keys=[Key(k, network='bitcoin')], value=value,
                            sequence=rng.choice([0xffffffff, 0xfffffffe, 4]), witness_type=c01.WT[kind], address=c01.spent_address(kind, h))
                spent.append((kind, h, value))
            for j in range(rng.choice([1, 2])):
                t.add_output(max(1, (sum(s[2] for s in spent) - 500) // 2), c01.spent_address(rng.choice(['p2pkh', 'p2wpkh']), bytes(rng.getrandbits(8) for _ in range(20))))
            t.sign()
            raw = t.raw()
        except Exception:
            continue
        if c01.judge(raw, spent) is not None:
            continue          # (that would be C01's business; here only transactions the judge accepts are damaged)
        built += 1
        descr = {'spends': [s[0] for s in spent], 'input_values': [s[2] for s in spent]}
        for what, rm in [('undamaged', raw)] + _mutants(raw, rng):
            cases += 1
            verdict = c01.judge(rm, spent)
            if verdict is not None and 'hash type' in verdict and 'asked for ALL' in verdict:
                # the judge of C01 insists on ALL; for a segwit input the other hash types have a defined BIP143 digest: evaluate it
                verdict = _judge_any_hashtype(rm, spent)
            want = verdict is None
            inp = dict(descr, damage=what, raw_hex=rm.hex())
            try:
                t2 = Transaction.parse(rm, network='bitcoin')
                for i, s in zip(t2.inputs, spent):
                    i.value = s[2]
                got = bool(t2.verify())
                back = t2.raw()
            except Exception as e:
                if want:
                    fail(what, inp, 'raised %s: %s' % (type(e).__name__, str(e)[:120]), 'verify() True: the judge accepts these bytes')
                else:
                    ok += 1          # refusing damaged bytes is fine
                continue
            if got != want:
                fail(what, inp, 'Transaction.parse(...).verify() is %s' % got, 'verify() %s (%s)' % (want, verdict or 'every signature valid for the output it spends'))
            elif back != rm:
                fail(what + ' / re-serialised', inp, 'raw() after parse differs from the bytes parsed', 'identical bytes')
            else:
                ok += 1
        # the same signatures handed to the API as objects' arguments (add_input(keys=[public key], signatures=[sig])): the hash type byte of the
        # signature that is serialised decides which digest verify() must use
        if n_in == 1:
            kind, h, value = spent[0]
            i0 = t.inputs[0]
            sig0 = i0.signatures[0].as_der_encoded()
            for ht in (1, 2, 3, 0x81, 0x83):
                cases += 1
                sgm = sig0[:-1] + bytes([ht])
                try:
                    t3 = Transaction(network='bitcoin', version=t.version_int, locktime=t.locktime)
                    t3.add_input(prev_txid=i0.prev_txid, output_n=i0.output_n_int, keys=[i0.keys[0].public()], signatures=[sgm], value=value, sequence=i0.sequence,
                                 witness_type=c01.WT[kind], address=c01.spent_address(kind, h))
                    for o in t.outputs:
                        t3.add_output(o.value, lock_script=o.lock_script)
                    raw3 = t3.raw()
                    got = bool(t3.verify())
                except Exception:
                    ok += 1
                    continue
                verdict = c01.judge(raw3, spent)
                if verdict is not None and 'asked for ALL' in verdict:
                    verdict = _judge_any_hashtype(raw3, spent)
                if got == (verdict is None):
                    ok += 1
                else:
                    fail('signature handed to add_input with hash type byte %02x' % ht, dict(descr, raw_hex=raw3.hex()), 'Transaction.verify() is %s' % got,
                         'verify() %s (%s)' % (verdict is None, verdict or 'valid'))
    if built < N // 2:
        failed.append({'input': {}, 'observed': 'only %d transactions could be built' % built, 'expected': str(N), 'confirmed': True, 'obligation': 'parsed-verify#bounded', 'what': 'harness vacuity'})
    return {'contract': 'parsed-verify[bounded]', 'target': 'Transaction.parse / Input.__init__ (signature and hash type extraction) / Transaction.verify', 'status': 'ok',
            'bounded': '%d signed transactions x single-field damage of the serialised form (hash type byte, signature byte, amount, sequence, lock time, version, outpoint, script)' % built,
            'paths': cases, 'obligations': [{'name': 'parsed-verify#bounded', 'kind': 'bounded', 'paths': cases, 'discharged': ok, 'failed': failed, 'unknown': 0, 'secs': 0.0,
                                             'solvers': {'native': cases}, 'known': {}}],
            'notes': [], 'wall_s': time.time() - t0, 'fuzz': {'runs': 0, 'failures': []}, 'props': ['C02']}


def _judge_any_hashtype(raw, spent):
    """as c01.judge, but a segwit signature is checked against the BIP143 digest of ITS hash type byte; legacy inputs with another hash type: the
    signature under test was made for ALL, so it is invalid for the digest of any other type (the legacy digests of the other types are not computed)"""
    from spec import sighash
    from bounded.c10_handoff import _der, ecdsa_ok
    version, ins, outs, locktime, has_wit, used = wire.parse_tx(raw)
    abstract_ins = [(i[0], i[1], i[3]) for i in ins]
    for n, ((txid, vout, script, seq, wit), (kind, h, value)) in enumerate(zip(ins, spent)):
        if kind == 'p2pkh':
            from spec.pins_c18 import lex
            items = lex(script) or []
            d = _der(items[0]) if items and isinstance(items[0], bytes) else None
            if d is None or d[2] != 1:
                return 'input %d: legacy signature with hash type %s (made for ALL)' % (n, d[2] if d else '?')
            pre = sighash.legacy_all_preimage(version, abstract_ins, outs, locktime, n, c01.spent_script(kind, h))
            if not ecdsa_ok(sighash.dsha(pre), d[0], d[1], items[1]):
                return 'input %d: invalid signature' % n
        else:
            if len(wit) != 2:
                return 'input %d: witness' % n
            d = _der(wit[0])
            if d is None:
                return 'input %d: signature encoding' % n
            pre = sighash.bip143_preimage(version, abstract_ins, outs, locktime, n, b'\x76\xa9\x14' + h + b'\x88\xac', value, d[2])
            if not ecdsa_ok(sighash.dsha(pre), d[0], d[1], wit[1]):
                return 'input %d: signature invalid for the BIP143 digest of hash type %02x' % (n, d[2])
    return None
