"""BOUNDED stand-in for C07 (never counted as proved): wallets of every witness type on the offline test network get random
UTXO sets (sizes, dust, equal values, unconfirmed) and random payment requests (recipient lists, explicit / automatic fee,
1..3 change outputs, explicit input lists, insufficient funds); every returned transaction is checked for conservation,
non-negative integer amounts, exact recipients, change to own addresses, distinct confirmed inputs of the wallet."""
import os
import random
import shutil
import tempfile
import time


def run(tier, seed, opens):
    from bitcoinlib.wallets import Wallet, WalletError
    from bitcoinlib.keys import HDKey
    from bitcoinlib.transactions import TransactionError
    t0 = time.time()
    import random as _random
    _random.seed(707 + seed)           # the library itself draws from the global generator (output order, number of change outputs)
    rng = random.Random(707 + seed)
    listed = {o.get('id') for o in opens}
    tmp = tempfile.mkdtemp(prefix='c07-', dir=os.environ.get('BCL_DATA_DIR'))
    db = 'sqlite:///' + os.path.join(tmp, 'w.sqlite')
    n_wallets = 3 if tier == 'quick' else 12
    n_req = 25 if tier == 'quick' else 300
    cases = ok = 0
    failed, known = [], {}

    def fail(what, inp, observed, expected, pid=None):
        cex = {'input': inp, 'observed': observed, 'expected': expected, 'confirmed': True, 'obligation': 'Wallet.transaction_create#bounded', 'what': what}
        if pid and pid in listed:
            known.setdefault(pid, [])
            if len(known[pid]) < 2:
                known[pid].append(cex)
        elif len(failed) < 8:
            failed.append(cex)

    try:
        for wn in range(n_wallets):
            wt = ['segwit', 'legacy', 'p2sh-segwit'][wn % 3]
            w = Wallet.create('c07w%d' % wn, network='bitcoinlib_test', db_uri=db, witness_type=wt)
            keys = [w.get_key()] + [w.new_key() for _ in range(2)]
            utxos = {}
            for i in range(rng.choice([1, 2, 5, 12])):
                v = rng.choice([546, 1000, 1000, 5000, 100000, 100000, 2500000, rng.randrange(600, 10 ** 7)])
                txid = '%064x' % rng.getrandbits(256)
                conf = rng.choice([0, 1, 6, 100])
                k = rng.choice(keys)
                w.utxo_add(k.address, v, txid, i, confirmations=conf)
                utxos[(txid, i)] = (v, conf)
            # scenario: a fee bump that the change cannot cover, so that another wallet UTXO has to be added
            cases += 1
            try:
                w2 = Wallet.create('c07b%d' % wn, network='bitcoinlib_test', db_uri=db, witness_type=wt)
                k2 = w2.get_key()
                u2 = {}
                for j, (vout, conf) in enumerate([(1, 10), (0, 5), (3, 7)]):
                    txid = '%064x' % rng.getrandbits(256)
                    w2.utxo_add(k2.address, 100000000, txid, vout, confirmations=conf)
                    u2[(txid, vout)] = 100000000
                dest2 = HDKey(network='bitcoinlib_test', witness_type=wt).address()
                tb = w2.transaction_create([(dest2, 99900000)], fee=100000, replace_by_fee=True)
                tb.bumpfee(extra_fee=20000)
                ops_b = [(i.prev_txid.hex(), i.output_n_int) for i in tb.inputs]
                real_in = sum(u2.get(op, 0) for op in set(ops_b))
                pr = []
                if len(set(ops_b)) != len(ops_b):
                    pr.append('the same outpoint is spent more than once')
                if real_in != sum(o.value for o in tb.outputs) + tb.fee:
                    pr.append('real inputs %d != outputs %d + fee %d' % (real_in, sum(o.value for o in tb.outputs), tb.fee))
                if [(o.address, o.value) for o in tb.outputs].count((dest2, 99900000)) != 1:
                    pr.append('recipient output changed')
                if pr:
                    fail('bumpfee needing an extra input', {'wallet': wt, 'utxos': {'%s:%d' % k: v for k, v in u2.items()}, 'send': 99900000, 'fee': 100000,
                                                            'extra_fee': 20000}, '; '.join(pr), 'balanced transaction, distinct outpoints')
                else:
                    ok += 1
            except (WalletError, TransactionError, ValueError):
                ok += 1
            # scenarios on explicitly named inputs (input_arr): the same outpoint twice must be refused; an explicit fee must stay inside the network's
            # fee-rate limits measured on the ACTUAL signed transaction (no change output: nothing imaginary may be counted into its size); an outpoint
            # the wallet has already spent must be refused (recorded finding)
            cases += 3
            try:
                from spec import wire as _wire
                w7 = Wallet.create('c07i%d' % wn, network='bitcoinlib_test', db_uri=db, witness_type=wt)
                k7 = w7.get_key()
                ops7 = []
                for j in range(3):
                    txid = '%064x' % rng.getrandbits(256)
                    w7.utxo_add(k7.address, 100000000, txid, j, confirmations=10)
                    ops7.append((txid, j))
                d7 = HDKey(network='bitcoinlib_test', witness_type=wt).address()
                try:
                    t7 = w7.transaction_create([(d7, 2 * 100000000 - 10000)], input_arr=[ops7[0], ops7[0]], fee=10000)
                    fail('the same outpoint twice in input_arr', {'wallet': wt, 'input_arr': [ops7[0], ops7[0]]},
                         'transaction with inputs %s' % [(i.prev_txid.hex()[:8], i.output_n_int) for i in t7.inputs], 'WalletError')
                except (WalletError, TransactionError, ValueError):
                    ok += 1
                fmax = w7.network.fee_max
                worst = None
                for fee7 in (60000, 100000, 110000, 120000, 130000, 137500, 145000, 160000, 200000):
                    try:
                        t7 = w7.transaction_create([(d7, 100000000 - fee7)], input_arr=[ops7[1]], fee=fee7)
                        t7.sign()
                        raw7 = t7.raw()
                        pv, pins, pouts, plock, pwit, used = _wire.parse_tx(raw7)
                        stripped = len(_wire.ser_tx(pv, pins, pouts, plock, False)) if pwit else len(raw7)
                        vsize = -(-(3 * stripped + len(raw7)) // 4)
                        rate = fee7 * 1000 // vsize
                        if rate > fmax * 1.05 and (worst is None or rate > worst[1]):
                            worst = (fee7, rate, vsize)
                    except (WalletError, TransactionError, ValueError):
                        pass
                if worst:
                    fail('explicit fee on a transaction without change', {'wallet': wt, 'fee': worst[0], 'virtual_size_of_signed_transaction': worst[2]},
                         'created with %d per kB, network maximum %d' % (worst[1], fmax), 'WalletError (fee rate above the network maximum)')
                else:
                    ok += 1
                t7 = w7.send([(d7, 50000)], input_arr=[ops7[2]], fee=10000, broadcast=True)
                try:
                    t8 = w7.transaction_create([(d7, 1000000)], input_arr=[ops7[2]], fee=10000)
                    fail('an already spent outpoint in input_arr', {'wallet': wt, 'history': 'send(input_arr=[X], broadcast=True); transaction_create(input_arr=[X])'},
                         'second transaction spending the same outpoint created', 'WalletError (not currently unspent)', 'F-C07-input-arr-spent-utxo')
                except (WalletError, TransactionError, ValueError):
                    ok += 1
            except (WalletError, TransactionError, ValueError) as e:
                fail('input_arr scenarios', {'wallet': wt}, 'setup raised %s: %s' % (type(e).__name__, str(e)[:150]), 'wallet set up')
            # scenario: fee bump paid from two change outputs: the first (900) is used up, the rest (100) comes out of the second (300)
            cases += 1
            try:
                from bitcoinlib.transactions import Transaction as _T
                from bitcoinlib.keys import Key as _K
                kc = _K(rng.randrange(1, 2 ** 200), network='bitcoinlib_test')
                tb2 = _T(network='bitcoinlib_test', witness_type='segwit', replace_by_fee=True)
                tb2.add_input('%064x' % rng.getrandbits(256), 0, keys=[kc], value=100000, witness_type='segwit')
                tb2.add_output(100000 - 2000 - 1200, _K(rng.randrange(1, 2 ** 200), network='bitcoinlib_test').address())
                tb2.add_output(900, kc.address(), change=True)
                tb2.add_output(300, kc.address(), change=True)
                tb2.fee = 2000
                tb2.sign()
                try:
                    tb2.bumpfee(extra_fee=1000)
                    err = None
                except Exception as e:
                    err = e
                vals = [o.value for o in tb2.outputs]
                if any(v < 0 for v in vals):
                    fail('bumpfee from two change outputs', {'outputs': [96800, 900, 300], 'fee': 2000, 'extra_fee': 1000},
                         'output values %s%s' % (vals, (' and %s' % type(err).__name__) if err else ''), 'no output is negative')
                elif err is None and (100000 - sum(vals) != tb2.fee or tb2.fee < 3000):
                    fail('bumpfee from two change outputs', {'outputs': [96800, 900, 300], 'fee': 2000, 'extra_fee': 1000},
                         'outputs %s, reported fee %r' % (vals, tb2.fee), 'inputs = outputs + fee, fee raised by at least 1000')
                else:
                    ok += 1
            except (WalletError, TransactionError, ValueError):
                ok += 1
            # scenario: the wallet's only UTXO is a few hundred satoshi short of outputs + requested fee: the request must fail
            cases += 1
            try:
                w3 = Wallet.create('c07s%d' % wn, network='bitcoinlib_test', db_uri=db, witness_type=wt)
                k3 = w3.get_key()
                short = rng.choice([1, 200, 600, 999])
                w3.utxo_add(k3.address, 100000, '%064x' % rng.getrandbits(256), 0, confirmations=10)
                dest3 = HDKey(network='bitcoinlib_test', witness_type=wt).address()
                t3 = w3.transaction_create([(dest3, 100000 - 1000 + short)], fee=1000)
                fail('insufficient funds by a few satoshi', {'wallet': wt, 'utxo': 100000, 'send': 100000 - 1000 + short, 'fee': 1000},
                     'transaction with fee %r created' % t3.fee, 'WalletError (funds do not cover outputs + requested fee)')
            except (WalletError, TransactionError, ValueError):
                ok += 1
            # scenario: the amount needs three UTXOs but at most two may be used: the request must fail (never a transaction whose inputs do not cover it)
            cases += 1
            try:
                w4 = Wallet.create('c07m%d' % wn, network='bitcoinlib_test', db_uri=db, witness_type=wt)
                k4 = w4.get_key()
                for j in range(3):
                    w4.utxo_add(k4.address, 100000, '%064x' % rng.getrandbits(256), j, confirmations=10)
                dest4 = HDKey(network='bitcoinlib_test', witness_type=wt).address()
                t4 = w4.transaction_create([(dest4, 250000)], max_utxos=2, fee=rng.choice([None, 'low', 1000]))
                tin4, tout4 = sum(i.value for i in t4.inputs), sum(o.value for o in t4.outputs)
                if tin4 < tout4 or t4.fee is None or t4.fee < 0 or len(t4.inputs) > 2:
                    fail('max_utxos smaller than needed', {'wallet': wt, 'utxos': [100000] * 3, 'send': 250000, 'max_utxos': 2},
                         'transaction with inputs %d, outputs %d, fee %r, %d inputs' % (tin4, tout4, t4.fee, len(t4.inputs)), 'WalletError')
                else:
                    ok += 1
            except (WalletError, TransactionError, ValueError):
                ok += 1
            # sweep: every confirmed non-dust UTXO of the wallet goes to the target(s); conservation, no foreign change, nothing left out or twice
            for targets in (1, 2):
                cases += 1
                try:
                    w5 = Wallet.create('c07w%d_%d' % (wn, targets), network='bitcoinlib_test', db_uri=db, witness_type=wt,
                                       scheme='single' if (wn + targets) % 2 else 'bip32')
                    k5 = w5.get_key()
                    vals = [rng.choice([600, 1000, 5000, 100000, 2500000]) for _ in range(rng.choice([1, 2, 4]))]
                    u5 = {}
                    conf5 = {}
                    for j, v in enumerate(vals):
                        txid = '%064x' % rng.getrandbits(256)
                        conf5[(txid, j)] = rng.choice([0, 1, 6, 10])
                        w5.utxo_add(k5.address, v, txid, j, confirmations=conf5[(txid, j)])
                        u5[(txid, j)] = v
                    d5 = [HDKey(network='bitcoinlib_test', witness_type=wt).address() for _ in range(targets)]
                    to = d5[0] if targets == 1 else [(d5[0], 1000), (d5[1], 0)]
                    need5 = rng.choice([None, None, 0, 3, 20])          # required confirmations (default 1)
                    t5 = w5.sweep(to, fee=rng.choice([None, 2000]), **({} if need5 is None else {'min_confirms': need5}))
                    ops5 = [(i.prev_txid.hex(), i.output_n_int) for i in t5.inputs]
                    spendable5 = {op: v for op, v in u5.items() if v > 1000 and conf5[op] >= (1 if need5 is None else need5)}
                    if any(conf5.get(op, 99) < (1 if need5 is None else need5) for op in ops5):
                        fail('sweep', {'wallet': wt, 'scheme': w5.scheme, 'utxo_values': vals, 'confirmations': [conf5[k] for k in u5], 'min_confirms': need5, 'targets': targets},
                             'an input has fewer confirmations than required', 'every input with the required confirmations')
                        continue
                    pr = []
                    if len(set(ops5)) != len(ops5) or any(op not in u5 for op in ops5):
                        pr.append('inputs are not distinct wallet UTXOs')
                    if set(ops5) != set(spendable5):
                        pr.append('swept %d of %d non-dust UTXOs' % (len(set(ops5) & set(spendable5)), len(spendable5)))
                    tin5 = sum(u5.get(op, 0) for op in set(ops5))
                    tout5 = sum(o.value for o in t5.outputs)
                    if tin5 != tout5 + t5.fee or t5.fee < 0 or any(o.value < 0 for o in t5.outputs):
                        pr.append('inputs %d != outputs %d + fee %d' % (tin5, tout5, t5.fee))
                    if any(o.address not in d5 for o in t5.outputs):
                        pr.append('output to an address that is not a sweep target')
                    if pr:
                        fail('sweep', {'wallet': wt, 'scheme': w5.scheme, 'utxo_values': vals, 'confirmations': [conf5[k] for k in u5], 'min_confirms': need5, 'targets': targets}, '; '.join(pr), 'all non-dust UTXOs with the required confirmations to the targets, balanced')
                    else:
                        ok += 1
                except (WalletError, TransactionError, ValueError):
                    ok += 1
                except Exception as e:
                    fail('sweep', {'wallet': wt, 'targets': targets}, 'raised %s: %s' % (type(e).__name__, str(e)[:150]), 'transaction or WalletError')
            # spent outputs stay spent: the wallet spends two outpoints (output index != position of the spending input), the transaction is sent, then
            # a stale provider answer that still lists them is imported: they must not become spendable again
            cases += 1
            try:
                w6 = Wallet.create('c07x%d' % wn, network='bitcoinlib_test', db_uri=db, witness_type=wt)
                k6 = w6.get_key()
                stale = [{'address': k6.address, 'script': '', 'confirmations': 10, 'output_n': n_out, 'txid': '%064x' % rng.getrandbits(256), 'value': 50000000}
                         for n_out in (1, 3)]
                w6.utxos_update(utxos=[dict(u) for u in stale])
                d6 = HDKey(network='bitcoinlib_test', witness_type=wt).address()
                t6 = w6.sweep(d6, fee=20000, broadcast=True)
                spent = {(i.prev_txid.hex(), i.output_n_int) for i in t6.inputs}
                w6.utxos_update(utxos=[dict(u) for u in stale])
                again = {(u['txid'], u['output_n']) for u in w6.utxos()} & spent
                pr = []
                if again:
                    pr.append('%d spent outpoint(s) listed as unspent again' % len(again))
                try:
                    t7 = w6.transaction_create([(d6, 30000000)], fee=20000)
                    if {(i.prev_txid.hex(), i.output_n_int) for i in t7.inputs} & spent:
                        pr.append('a second transaction spends an outpoint the first one already spent')
                except (WalletError, TransactionError, ValueError):
                    pass
                if pr:
                    fail('stale UTXO list after a spend', {'wallet': wt, 'utxo_output_indices': [1, 3]}, '; '.join(pr), 'spent outputs stay spent')
                else:
                    ok += 1
            except (WalletError, TransactionError, ValueError) as e:
                ok += 1
            except Exception as e:
                fail('stale UTXO list after a spend', {'wallet': wt}, 'raised %s: %s' % (type(e).__name__, str(e)[:150]), 'no exception')
            own = set(w.addresslist())
            dests = [HDKey(network='bitcoinlib_test', witness_type=wt).address() for _ in range(3)]
            for _ in range(n_req):
                nrec = rng.choice([1, 1, 2, 3])
                recips = [(dests[j], rng.choice([546, 1000, 30000, 99000, 100000, 2600000, rng.randrange(600, 3 * 10 ** 6)])) for j in range(nrec)]
                fee = rng.choice([None, None, 500, 1000, 20000, 0, 'low', 'normal', 'high'])
                nchange = rng.choice([1, 1, 2, 3, 0])
                explicit = rng.random() < 0.2
                kwargs = dict(fee=fee, number_of_change_outputs=nchange)
                max_utxos = rng.choice([None, None, 1, 2, 3])
                if max_utxos is not None:
                    kwargs['max_utxos'] = max_utxos
                if explicit:
                    pick = rng.sample(sorted(utxos), rng.randint(1, min(3, len(utxos))))
                    kwargs['input_arr'] = [(txid, n, None, utxos[(txid, n)][0]) for txid, n in pick]
                inp = {'wallet': wt, 'utxos': {'%s:%d' % k: v for k, v in utxos.items()}, 'recipients': recips, 'fee': fee, 'change_outputs': nchange,
                       'explicit_inputs': explicit, 'max_utxos': max_utxos}
                cases += 1
                spendable = sum(v for (v, c) in utxos.values() if c >= 1)
                need = sum(a for _, a in recips)
                try:
                    t = w.transaction_create(recips, **kwargs)
                except (WalletError, TransactionError, ValueError) as e:
                    ok += 1          # refusing is always allowed (fee too high/low, dust, insufficient funds ...)
                    continue
                except Exception as e:
                    fail('unexpected exception', inp, repr(e), 'transaction or WalletError')
                    continue
                tin = sum(i.value for i in t.inputs)
                tout = sum(o.value for o in t.outputs)
                problems = []
                pid = None
                if tin != tout + t.fee:
                    problems.append('inputs %d != outputs %d + fee %d' % (tin, tout, t.fee))
                if t.fee is None or t.fee < 0:
                    problems.append('negative fee %r' % t.fee)
                    pid = 'F-C07-negative-fee'
                if any((not isinstance(o.value, int)) or o.value < 0 for o in t.outputs):
                    problems.append('non-integer or negative output')
                outs = [(o.address, o.value) for o in t.outputs]
                for r in recips:
                    if outs.count(r) != recips.count(r):
                        problems.append('recipient %r appears %d times' % (r, outs.count(r)))
                rest = list(outs)
                for r in recips:
                    if r in rest:
                        rest.remove(r)
                if any(a not in own and a not in set(w.addresslist()) for a, v in rest):
                    problems.append('change output to a foreign address')
                ops = [(i.prev_txid.hex(), i.output_n_int) for i in t.inputs]
                if len(set(ops)) != len(ops):
                    problems.append('an outpoint is spent twice')
                for op, i in zip(ops, t.inputs):
                    if op not in utxos:
                        problems.append('input %r is not a wallet UTXO' % (op,))
                    elif utxos[op][0] != i.value:
                        problems.append('input value differs from the UTXO')
                    elif not explicit and utxos[op][1] < 1:
                        problems.append('unconfirmed UTXO selected')
                if not explicit and need + (t.fee or 0) > spendable:
                    problems.append('transaction created although funds are insufficient')
                if not explicit and isinstance(fee, int) and need + fee > spendable:
                    problems.append('transaction created although the wallet cannot cover the outputs plus the requested fee %d' % fee)
                if isinstance(fee, int) and t.fee is not None and t.fee < fee:
                    problems.append('pays fee %d, less than the explicitly requested %d' % (t.fee, fee))
                if not isinstance(fee, int) and t.fee_per_kb and not (w.network.fee_min <= t.fee_per_kb <= w.network.fee_max):
                    problems.append('fee rate %d outside [%d, %d]' % (t.fee_per_kb, w.network.fee_min, w.network.fee_max))
                if problems:
                    fail('transaction_create', inp, '; '.join(problems), 'a balanced transaction paying exactly the recipients', pid)
                else:
                    ok += 1
                # fee bump of the (unsent) transaction: still balanced, recipients untouched, no outpoint twice
                if not problems and not explicit and rng.random() < 0.5:
                    cases += 1
                    extra = rng.choice([100, 1000, 20000, 200000])
                    try:
                        t2 = w.transaction_create(recips, fee=fee, number_of_change_outputs=nchange, replace_by_fee=True)
                        before_fee = t2.fee
                        t2.bumpfee(extra_fee=extra)
                    except (WalletError, TransactionError, ValueError):
                        ok += 1
                        continue
                    except Exception as e:
                        # any other exception is still a refusal - unless it leaves the wallet's transaction object with a negative output
                        neg = [o.value for o in t2.outputs if o.value < 0]
                        if neg:
                            fail('bumpfee', dict(inp, extra_fee=extra), 'raised %s and left the transaction with output value(s) %s' % (type(e).__name__, neg),
                                 'no output is negative')
                        else:
                            ok += 1
                        continue
                    ops2 = [(i.prev_txid.hex(), i.output_n_int) for i in t2.inputs]
                    tin2 = sum(utxos.get(op, (None,))[0] or 0 for op in set(ops2))
                    tout2 = sum(o.value for o in t2.outputs)
                    pr = []
                    if len(set(ops2)) != len(ops2):
                        pr.append('the same outpoint is spent more than once')
                    if any(op not in utxos for op in ops2):
                        pr.append('input is not a wallet UTXO')
                    if tin2 != tout2 + t2.fee:
                        pr.append('real inputs %d != outputs %d + fee %d' % (tin2, tout2, t2.fee))
                    if t2.fee < before_fee:
                        pr.append('fee went down')
                    outs2 = [(o.address, o.value) for o in t2.outputs]
                    if any(outs2.count(r) != recips.count(r) for r in recips):
                        pr.append('recipient output changed')
                    if pr:
                        fail('bumpfee', dict(inp, extra_fee=extra), '; '.join(pr), 'a balanced transaction with the same recipients')
                    else:
                        ok += 1
    finally:
        shutil.rmtree(tmp, ignore_errors=True)
    return {'contract': 'Wallet.transaction_create[bounded]', 'target': 'bitcoinlib.wallets.Wallet.transaction_create / select_inputs', 'status': 'ok',
            'props': ['C07'], 'bounded': '%d wallets x %d random payment requests on the offline test network' % (n_wallets, n_req),
            'paths': cases, 'obligations': [{'name': 'Wallet.transaction_create#bounded-conservation', 'kind': 'bounded', 'paths': cases, 'discharged': ok,
                                             'failed': failed, 'unknown': 0, 'secs': 0.0, 'solvers': {'native': cases}, 'known': known}],
            'notes': [], 'wall_s': time.time() - t0, 'fuzz': {'runs': 0, 'failures': []}}
