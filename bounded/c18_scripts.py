"""BOUNDED stand-in for the last sentence of C18 (never counted as proved): "parsing a script built from any sequence of opcodes
and data items and serializing it again reproduces the same bytes and the same items".  Script.parse_bytesio is outside the
verifier's reach (key / signature object construction, recursive sub-script detection, template matching), so it is exercised
natively on an enumerated family of scripts:

  * every single data item of every length 1..80 and at the PUSHDATA boundaries (255, 256, 257, 519, 520, 521, 65535), with
    seven fill patterns (opcode-like bytes, zero bytes, counting bytes, 0x30-, 0x02-, 0x04-leading, push-structured), alone,
    after OP_RETURN, after OP_DUP and before OP_EQUAL;
  * every sequence of up to MAXSEQ items over a mixed alphabet of opcodes and short data items.

For each script `cmds`:  raw = spec.script.serialize_commands(cmds)  (protocol definition);  Script(cmds).serialize() == raw;
Script.parse_bytesio(BytesIO(raw)).commands == cmds  and  .serialize() == raw.  A deviation is accepted only if it equals the
pinned model spec/pins_c18.py exactly and its class is an open finding."""
import itertools
import time
from io import BytesIO

from spec import script as sp
from spec import pins_c18 as pins

OPS = [0, 0x4f, 0x51, 0x60, 0x61, 0x6a, 0x76, 0x87, 0xa9, 0xac, 0xae, 0xb1, 0xff]
LENGTHS = list(range(1, 81)) + [255, 256, 257, 519, 520, 521, 65535]


def _valid_sig(hash_type=1):
    r = bytes([0x11]) * 32
    s = bytes([0x22]) * 32
    d = b'\x02\x20' + r + b'\x02\x20' + s
    return b'\x30' + bytes([len(d)]) + d + bytes([hash_type])


def fills(n):
    out = [b'\xab' * n, b'\x00' * n, bytes((7 * i + 1) % 256 for i in range(n)), (b'\x30' + b'\xab' * n)[:n], (b'\x02' + b'\x11' * n)[:n],
           (b'\x04' + b'\x11' * n)[:n]]
    if n >= 4:
        inner = b'\x77' * (n - 3)
        cand = b'\x51' + sp.push_data(inner) + b'\xae'          # OP_1 <push> OP_CHECKMULTISIG: a well-formed sub-script
        while len(cand) > n and inner:
            inner = inner[:-1]
            cand = b'\x51' + sp.push_data(inner) + b'\xae'
        out.append(cand + b'\x61' * (n - len(cand)))
    return out


def run(tier, seed, opens):
    from bitcoinlib.scripts import Script
    t0 = time.time()
    listed = {o.get('id') for o in opens}
    cases = ok = 0
    failed, known = [], {}

    def show(cmds):
        return [c if isinstance(c, int) else {'bytes': c.hex() if len(c) <= 90 else c[:8].hex() + '..(%d bytes)' % len(c)} for c in cmds]

    def one(cmds):
        nonlocal cases, ok
        cases += 1
        raw = sp.serialize_commands(cmds)
        obs = {}
        try:
            obs['built'] = Script(list(cmds)).serialize()
        except Exception as e:
            obs['built'] = 'raises %s' % type(e).__name__
        try:
            p = Script.parse_bytesio(BytesIO(raw))
            obs['commands'] = p.commands
            try:
                obs['reserialized'] = p.serialize()
            except Exception as e:
                obs['reserialized'] = 'raises %s' % type(e).__name__
        except Exception as e:
            obs['commands'] = 'raises %s' % type(e).__name__
            obs['reserialized'] = None
        good = obs['built'] == raw and obs['commands'] == list(cmds) and obs['reserialized'] == raw
        if good:
            ok += 1
            return
        cex = {'input': {'commands': show(cmds)}, 'observed': repr({k: (v if not isinstance(v, bytes) else v[:40].hex()) for k, v in obs.items()})[:400],
               'expected': 'serialize == protocol bytes; parse gives the same items; re-serialize gives the same bytes', 'confirmed': True,
               'obligation': 'Script.parse_bytesio/serialize#bounded'}
        # is it exactly the pinned behaviour?
        pid = None
        if obs['built'] == raw:
            try:
                mc, used = pins.model_parse(raw)
                if used and obs['commands'] == mc and obs['reserialized'] == pins.model_serialize(mc):
                    pid = sorted(used)[0]
            except pins.Refused:
                if isinstance(obs['commands'], str) and obs['commands'].startswith('raises ScriptError'):
                    pid = 'F-C18-siglike-refused'
        if pid is not None and pid in listed:
            known.setdefault(pid, [])
            if len(known[pid]) < 2:
                known[pid].append(cex)
            return
        if len(failed) < 5:
            failed.append(cex)

    for n in LENGTHS:
        for d in fills(n):
            one([d])
            one([0x6a, d])
            if n <= 521:
                one([0x76, d])
                one([d, 0x87])
    one([_valid_sig()])
    one([0, _valid_sig(), _valid_sig(0x81)])
    one([0x6a, _valid_sig()])
    small = OPS + [b'\x01', b'\x81', b'\x05\x06', b'\xab' * 5, b'\x11' * 20, b'\x22' * 32, b'\x02' + b'\x33' * 32, _valid_sig(), b'\x99' * 75, b'\x98' * 76]
    maxseq = 2 if tier == 'quick' else 3
    for k in range(0, maxseq + 1):
        for seq in itertools.product(small, repeat=k):
            one(list(seq))
    # a script built in two parts (Script + Script, as the transaction reader does for witness items): the bytes of the sum - through every accessor -
    # are the bytes of the joined item sequence, whether or not the parts had been serialised before
    plain = [c for c in small if isinstance(c, int) or len(c) in (1, 2, 5, 75, 76)]
    for a in plain:
        for b in plain:
            for pre in (False, True):
                cases += 1
                want = sp.serialize_commands([a, b])
                try:
                    sa, sb = Script([a]), Script([b])
                    if pre:
                        sa.as_bytes()
                    sm = sa + sb
                    got = (sm.as_bytes(), sm.serialize(), bytes.fromhex(sm.as_hex()))
                except Exception as e:
                    got = 'raises %s: %s' % (type(e).__name__, str(e)[:80])
                if got == (want, want, want):
                    ok += 1
                elif len(failed) < 5:
                    failed.append({'input': {'left': show([a]), 'right': show([b]), 'left_serialised_before': pre},
                                   'observed': repr(tuple(x.hex() for x in got) if isinstance(got, tuple) else got)[:300], 'expected': want.hex(), 'confirmed': True,
                                   'obligation': 'Script.parse_bytesio/serialize#bounded', 'what': 'Script + Script'})
    res = {'contract': 'bitcoinlib.scripts.Script.parse_bytesio[bounded]', 'target': 'bitcoinlib.scripts.Script.parse_bytesio, Script.serialize',
           'status': 'ok',
           'bounded': 'single data items of %d lengths x 7 fills in 4 contexts, and all sequences of <= %d items over a %d-item alphabet'
                      % (len(LENGTHS), maxseq, len(small)),
           'paths': cases, 'obligations': [{'name': 'bitcoinlib.scripts.Script.parse_bytesio#bounded-roundtrip', 'kind': 'bounded',
                                            'paths': cases, 'discharged': ok, 'failed': failed, 'unknown': 0, 'secs': 0.0,
                                            'solvers': {'native': cases}, 'known': known}],
           'notes': [], 'wall_s': time.time() - t0, 'fuzz': {'runs': 0, 'failures': []}, 'props': ['C18']}
    return res
