"""BOUNDED stand-in for the block clause of C06 (never counted as proved): "a block's header fields, hash, target, transaction count and
each contained transaction id are recovered exactly, by either of the library's block transaction readers, and re-serialization is
byte-identical".  Random blocks: 80-byte header with random fields (bits drawn from real-network values and edge exponents), 1..6
random well-formed transactions (legacy and segwit; the generator of bounded/c06_roundtrip.py restricted to transactions outside the
recorded transaction round-trip findings), written by the independent writer spec.wire.  Checked: header fields, block hash =
double-SHA256 of the header, target = SetCompact(bits) as in consensus (arith_uint256::SetCompact), transaction count, the ids and raw
bytes delivered by BOTH readers (parse_transactions -> Transaction objects, parse_transactions_dict -> dictionaries), and
Block.serialize() == the original bytes."""
import hashlib
import random
import time
from io import BytesIO

from spec import wire
from bounded.c06_roundtrip import rand_tx, truncated_push, dsha


def set_compact(bits):
    """consensus target of the compact form (bits as int); negative and overflowing forms give 0 here (invalid targets)"""
    size = bits >> 24
    word = bits & 0x007fffff
    if bits & 0x00800000:
        return None            # negative: not a valid target
    if size <= 3:
        return word >> (8 * (3 - size))
    return word << (8 * (size - 3))


def clean_tx(rng, tier):
    """a random well-formed transaction outside the recorded round-trip finding classes (those are reported by the transaction harness)"""
    while True:
        version, ins, outs, locktime, segwit = rand_tx(rng, 'quick')
        # the recorded finding F-varstr-00 (an OUTPUT script or WITNESS item that is the single byte 00, or an empty witness item) is reported by
        # the transaction harness; a scriptSig of 00 round-trips and is kept (both block readers must handle it)
        zero_item = (any(o[1] == b'\x00' for o in outs) or any(w in (b'\x00', b'') for i in ins for w in i[4])
                     or any(i[2] == b'\x00' and i[0] == b'\x00' * 32 for i in ins))        # ... or a COINBASE scriptSig of 00 (no length-byte special case there)
        if not zero_item:
            return version, ins, outs, locktime, segwit


def run(tier, seed, opens):
    from bitcoinlib.blocks import Block
    t0 = time.time()
    rng = random.Random(606 + seed)
    listed = {o.get('id') for o in opens}
    n = 60 if tier == 'quick' else 1500
    cases = ok = 0
    failed, known = [], {}

    def fail(what, raw, observed, expected, pid=None):
        cex = {'input': {'raw_block_hex': raw.hex() if len(raw) < 3000 else raw[:160].hex() + '...(%d bytes)' % len(raw)}, 'observed': str(observed)[:300],
               'expected': str(expected)[:300], 'confirmed': True, 'obligation': 'Block#bounded', 'what': what}
        if pid and pid in listed:
            known.setdefault(pid, [])
            if len(known[pid]) < 2:
                known[pid].append(cex)
        elif len(failed) < 8:
            failed.append(cex)

    BITS = [0x1d00ffff, 0x1b0404cb, 0x170b3ce9, 0x207fffff, 0x1e0ffff0, 0x03123456, 0x04123456, 0x02123456, 0x01123456, 0x05009234]
    for _ in range(n):
        version = rng.choice([1, 2, 4, 0x20000000, 0x3fffe000, rng.getrandbits(32)])
        prev = bytes(rng.getrandbits(8) for _ in range(32))
        merkle = bytes(rng.getrandbits(8) for _ in range(32))
        tm = rng.choice([1231006505, 0, 0xffffffff, rng.getrandbits(32)])
        bits = rng.choice(BITS)
        nonce = rng.getrandbits(32)
        if rng.random() < 0.15:
            # header fields whose four bytes are hexadecimal digits in ASCII (about fifty mainnet nonces are)
            asc = lambda: int.from_bytes(bytes(rng.choice(b'0123456789abcdefABCDEF') for _ in range(4)), 'big')
            which = rng.randrange(6)
            if which >= 4:
                # a crafted header: all 32 bytes of a hash field are hexadecimal digits in ASCII
                h32 = bytes(rng.choice(b'0123456789abcdef') for _ in range(32))
                if which == 4:
                    merkle = h32
                else:
                    prev = h32
                header = wire.le(version, 4) + prev[::-1] + merkle[::-1] + wire.le(tm, 4) + wire.le(bits, 4) + wire.le(nonce, 4)
            elif which == 0:
                nonce = asc()
            elif which == 1:
                version = asc()
            elif which == 2:
                tm = asc()
            else:
                nonce, version = asc(), asc()
        header = wire.le(version, 4) + prev[::-1] + merkle[::-1] + wire.le(tm, 4) + wire.le(bits, 4) + wire.le(nonce, 4)
        txs = [clean_tx(rng, tier) for _ in range(rng.choice([1, 1, 2, 3, 6]))]
        if rng.random() < 0.3:
            v, ins, outs, l, sw = txs[-1]
            if not sw and ins[0][0] != b'\x00' * 32:
                txs[-1] = (v, [(ins[0][0], ins[0][1], b'\x00', ins[0][3], [])] + list(ins[1:]), outs, l, sw)
        raws = [wire.ser_tx(v, i, o, l, s) for (v, i, o, l, s) in txs]
        txids = [dsha(wire.ser_tx(v, i, o, l, False))[::-1].hex() for (v, i, o, l, s) in txs]
        raw = header + wire.compact_size(len(txs)) + b''.join(raws)
        cases += 1
        problems = []
        try:
            b = Block.parse_bytesio(BytesIO(raw), parse_transactions=False)
            if b.block_hash != dsha(header)[::-1]:
                problems.append(('block hash', b.block_hash.hex(), dsha(header)[::-1].hex()))
            got = (b.version_int, b.prev_block, b.merkle_root, b.time, int.from_bytes(b.bits, 'big'), int.from_bytes(b.nonce, 'big'), b.tx_count)
            want = (version, prev, merkle, tm, bits, nonce, len(txs))
            if got != want:
                problems.append(('header fields', got, want))
            tgt = set_compact(bits)
            if tgt is not None and not (b.target == tgt and isinstance(b.target, int)):
                problems.append(('target', repr(b.target), tgt))
            # reader 1: dictionaries
            ds = b.parse_transactions_dict()
            if [d['txid'].hex() for d in ds] != txids:
                problems.append(('parse_transactions_dict txids', [d['txid'].hex()[:8] for d in ds], [t[:8] for t in txids]))
            if [d['rawtx'] for d in ds] != raws:
                problems.append(('parse_transactions_dict raw transactions', 'differ', 'identical bytes'))
            # reader 2: Transaction objects
            b.parse_transactions()
            if [t.txid for t in b.transactions] != txids:
                problems.append(('parse_transactions txids', [t.txid[:8] for t in b.transactions], [t[:8] for t in txids]))
            ser = b.serialize()
            if ser != raw:
                problems.append(('serialize', ser[:120].hex(), raw[:120].hex()))
            # parse with transactions in one go
            b2 = Block.parse_bytesio(BytesIO(raw), parse_transactions=True)
            if [t.txid for t in b2.transactions] != txids or b2.serialize() != raw:
                problems.append(('parse(parse_transactions=True)', 'txids or bytes differ', 'identical'))
        except Exception as e:
            problems.append(('exception', '%s: %s' % (type(e).__name__, str(e)[:160]), 'no exception'))
        if problems:
            what, obs, exp = problems[0]
            pid = 'F-C06-block-target-small-exponent' if what == 'target' and (bits >> 24) < 3 else None
            fail(what, raw, obs, exp, pid)
        else:
            ok += 1
    res = {'contract': 'Block.parse/serialize[bounded]', 'target': 'bitcoinlib.blocks.Block.parse_bytesio, parse_transactions, parse_transactions_dict, serialize, target',
           'status': 'ok', 'props': ['C06'], 'bounded': '%d random blocks of 1..6 random well-formed transactions, 10 compact-target values incl. exponents 1..5' % n,
           'paths': cases, 'obligations': [{'name': 'Block#bounded-parse-serialize', 'kind': 'bounded', 'paths': cases, 'discharged': ok, 'failed': failed,
                                            'unknown': 0, 'secs': 0.0, 'solvers': {'native': cases}, 'known': known}],
           'notes': [], 'wall_s': time.time() - t0, 'fuzz': {'runs': 0, 'failures': []}}
    return res
