"""BOUNDED stand-in for the signature opcodes of C19 with REAL signatures (never counted as proved): the contracts on op_checksig /
op_checkmultisig treat signature decoding and ECDSA as an abstract predicate; here concrete scripts are evaluated by Script.evaluate and by
the reference interpreter (spec.script.eval_script) whose signature check is independent of the library: strict DER (BIP66) + hash type
byte, pure-Python secp256k1 ECDSA on the given digest.  Consensus rules applied by the reference: an EMPTY signature is a failed check
(false is pushed, the script goes on); any other signature that is not strict DER makes the script fail; CHECKMULTISIG counts must satisfy
0 <= m <= n <= 20 and the dummy item must be present.

Scripts: P2PK and P2PKH spends (valid signature, signature of another digest, signature of another key, empty signature, compact 64-byte
signature, DER with a trailing garbage byte, high-S), `<sig> <key> CHECKSIG NOT`, bare m-of-n CHECKMULTISIG for n <= 3 with every ordered
choice of signers (in order, out of order, duplicates), negative and oversized counts."""
import itertools
import random
import time

from spec import script as sp
from bounded.c10_handoff import ecdsa_ok, ec


def strict_der(sig):
    """(r, s) of a strict-DER signature followed by one hash type byte, else None (BIP66 IsValidSignatureEncoding)"""
    if len(sig) < 9 or len(sig) > 73:
        return None
    if sig[0] != 0x30 or sig[1] != len(sig) - 3:
        return None
    lr = sig[3]
    if 5 + lr >= len(sig):
        return None
    ls = sig[5 + lr]
    if lr + ls + 7 != len(sig):
        return None
    if sig[2] != 0x02 or lr == 0 or sig[4] & 0x80 or (lr > 1 and sig[4] == 0 and not sig[5] & 0x80):
        return None
    if sig[4 + lr] != 0x02 or ls == 0 or sig[6 + lr] & 0x80 or (ls > 1 and sig[6 + lr] == 0 and not sig[7 + lr] & 0x80):
        return None
    return int.from_bytes(sig[4:4 + lr], 'big'), int.from_bytes(sig[6 + lr:6 + lr + ls], 'big')


class ScriptFails(Exception):
    pass


def run(tier, seed, opens):
    from bitcoinlib.scripts import Script
    from bitcoinlib.keys import Key, sign
    t0 = time.time()
    rng = random.Random(1919 + seed)
    listed = {o.get('id') for o in opens}
    cases = ok = 0
    failed, known = [], {}
    digest = bytes(rng.getrandbits(8) for _ in range(32))
    other = bytes(rng.getrandbits(8) for _ in range(32))
    keys = [Key(rng.randrange(1, ec.N)) for _ in range(3)]
    pub = [k.public_byte for k in keys]

    def check(sig, pk):
        if sig == b'':
            return False
        d = strict_der(sig)
        if d is None:
            raise ScriptFails('signature encoding')
        return ecdsa_ok(digest, d[0], d[1], pk)

    def ref_eval(cmds):
        ops = dict(REF)
        ops[0xac] = lambda st: sp.op_checksig(st, check)
        ops[0xad] = lambda st: sp.op_checksigverify(st, check)
        ops[0xae] = lambda st: sp.op_checkmultisig(st, check)
        ops[0xaf] = lambda st: sp.op_checkmultisigverify(st, check)
        try:
            return bool(sp.eval_script(cmds, ops))
        except ScriptFails:
            return False

    from bounded import c19_eval
    REF = c19_eval._tables()[0]

    def classify(cmds):
        """which recorded deviation (if any) explains a difference on this script"""
        datas = [c for c in cmds if isinstance(c, bytes)]
        if any(len(d) == 64 for d in datas) and any(o in cmds for o in (0xac, 0xad, 0xae, 0xaf)):
            return 'F-C19-sig-compact-accepted'
        return None

    def one(cmds, what):
        nonlocal cases, ok
        cases += 1
        want = ref_eval(cmds)
        try:
            got = bool(Script(commands=list(cmds), message=digest).evaluate(env_data={'redeemscript': b'\x51'}))
        except Exception:
            got = False
        if got == want:
            ok += 1
            return
        cex = {'input': {'commands': [c if isinstance(c, int) else {'bytes': c.hex()} for c in cmds], 'digest': digest.hex()}, 'observed': repr(got),
               'expected': repr(want), 'confirmed': True, 'obligation': 'Script.evaluate#bounded-sigops', 'what': what}
        pid = classify(cmds)
        if pid is not None and pid in listed:
            known.setdefault(pid, [])
            if len(known[pid]) < 2:
                known[pid].append(cex)
        elif len(failed) < 8:
            failed.append(cex)

    def der(k, msg=None, ht=1):
        return sign(msg or digest, k, hash_type=ht).as_der_encoded()

    good = [der(k) for k in keys]
    s0 = sign(digest, keys[0])
    high_s = None
    compact = s0.r.to_bytes(32, 'big') + s0.s.to_bytes(32, 'big')
    variants = {'valid': good[0], 'other digest': der(keys[0], other), 'other key': good[1], 'empty': b'', 'compact r||s': compact,
                'DER + garbage byte': good[0][:-1] + b'\x00\x01', 'hash type SINGLE byte': der(keys[0], ht=3)}
    for name, sg in variants.items():
        one([sg, pub[0], 0xac], 'P2PK spend: ' + name)
        one([sg, pub[0], 0xac, 0x91], '<sig> <key> CHECKSIG NOT: ' + name)
        one([sg, pub[0], 0x76, 0xa9, __import__('hashlib').new('ripemd160', __import__('hashlib').sha256(pub[0]).digest()).digest(), 0x88, 0xac], 'P2PKH spend: ' + name)
        one([sg, pub[0], 0xad, 0x51], 'CHECKSIGVERIFY: ' + name)
    num = lambda v: 0 if v == 0 else 80 + v
    for n in range(1, 4):
        for m in range(0, n + 1):
            for signers in itertools.product(range(n), repeat=m):
                sigs = [good[i] for i in signers]
                one([0] + sigs + [num(m)] + pub[:n] + [num(n), 0xae], '%d-of-%d signers %s' % (m, n, list(signers)))
                if m and tier != 'quick':
                    one([0] + sigs[:-1] + [der(keys[signers[-1]], other)] + [num(m)] + pub[:n] + [num(n), 0xae], '%d-of-%d last signature for another digest' % (m, n))
    one([0, 0x4f, pub[0], 0x51, 0xae], 'm = -1')
    one([0, good[0], good[1], 0x52, pub[0], 0x51, 0xae], 'm = 2 > n = 1')
    one([0, 0x51 - 0x51 + 0, 0, 0xae], 'n = 0, m = 0')
    res = {'contract': 'Script.evaluate[bounded-sigops]', 'target': 'bitcoinlib.scripts.Script.evaluate, Stack.op_checksig, op_checkmultisig with real signatures',
           'status': 'ok', 'props': ['C19'], 'bounded': '%d concrete scripts: P2PK / P2PKH / CHECKSIG NOT / CHECKSIGVERIFY x 7 signature variants, bare m-of-n (n <= 3) x every signer tuple, count edge cases' % cases,
           'paths': cases, 'obligations': [{'name': 'Script.evaluate#bounded-sigops', 'kind': 'bounded', 'paths': cases, 'discharged': ok, 'failed': failed,
                                            'unknown': 0, 'secs': 0.0, 'solvers': {'native': cases}, 'known': known}],
           'notes': [], 'wall_s': time.time() - t0, 'fuzz': {'runs': 0, 'failures': []}}
    return res
