"""BOUNDED stand-in for the cache clauses of C20 (never counted as proved; the cache is SQL / ORM code outside the verifier):
"answers served from the cache equal the answers that were stored" and "a query returns exactly what a responding provider
returned or the cached copy of such an answer".

A scripted in-process provider replaces the methods of the offline test network's client (bitcoinlib_test); the chain it serves is
enumerated: 1..5 transactions to one address with every non-decreasing assignment of block heights from {100, 101, 102} (so several
transactions share a block) and a limit smaller / larger than the list.  For each chain: a cold Service (empty sqlite cache) asks for
all transactions; then, for every after_txid and with the provider switched to "raises on every call except blockcount", a fresh Service
on the same cache must answer gettransactions(address, after_txid) with exactly the provider's transactions after that one, in order,
with the stored amounts, and gettransaction(txid) with the stored transaction."""
import itertools
import os
import shutil
import tempfile
import time
from datetime import datetime, timezone


def run(tier, seed, opens):
    import bitcoinlib.services.bitcoinlibtest as bt
    from bitcoinlib.services.services import Service, ServiceError
    from bitcoinlib.transactions import Transaction, Input, Output
    from bitcoinlib.keys import Key
    t0 = time.time()
    import random as _random
    _random.seed(2020 + seed)           # the library itself draws from the global generator (output order, number of change outputs)
    tmp = tempfile.mkdtemp(prefix='c20-', dir=os.environ.get('BCL_DATA_DIR'))
    cases = ok = 0
    failed, known = [], {}
    net = 'bitcoinlib_test'
    key = Key(0x1234567, network=net)
    address = key.address()
    other = Key(0x7654321, network=net).address()
    state = {'chain': [], 'down': False, 'calls': 0, 'height': 110}

    def make_tx(n, height):
        prev = '%064x' % (0xabc000 + n)
        t = Transaction(inputs=[Input(prev_txid=prev, output_n=n % 3, keys=[key.public()], value=5000 + 10 * n, network=net, address=other, index_n=0)],
                        outputs=[Output(4000 + 7 * n, address=address, network=net, output_n=0), Output(500, address=other, network=net, output_n=1)],
                        network=net, block_height=height, confirmations=state['height'] - height + 1, fee=500 + 3 * n,
                        date=datetime(2020, 1, 1 + n, tzinfo=timezone.utc), status='confirmed', locktime=n)
        t.txid = t.signature_hash()[::-1].hex() if False else '%064x' % (0xfeed0000 + 7919 * (n + 1) + height)
        t.update_totals()
        return t

    def fingerprint(t):
        return (t.txid, t.block_height, t.fee, t.locktime, tuple((i.prev_txid.hex(), i.output_n_int, i.value) for i in t.inputs),
                tuple((o.value, o.address) for o in t.outputs))

    class Down(Exception):
        pass

    orig = {m: getattr(bt.BitcoinLibTestClient, m, None) for m in ('gettransactions', 'gettransaction', 'blockcount', 'getrawtransaction', 'getutxos', 'estimatefee', 'getblock')}

    def p_gettransactions(self, addr, after_txid='', limit=20):
        state['calls'] += 1
        if state['down']:
            raise Down('provider down')
        txs = [t for t in state['chain']]
        if after_txid:
            ids = [t.txid for t in txs]
            txs = txs[ids.index(after_txid) + 1:] if after_txid in ids else []
        return txs[:limit]

    def p_gettransaction(self, txid):
        state['calls'] += 1
        if state['down']:
            raise Down('provider down')
        for t in state['chain']:
            if t.txid == txid:
                return t
        return False

    def p_blockcount(self):
        return state['height']

    def p_estimatefee(self, blocks):
        state['calls'] += 1
        if state['down']:
            raise Down('provider down')
        if state.get('fee_answer') is not None:
            return state['fee_answer']
        return 100000 // blocks

    def p_getutxos(self, addr, after_txid='', limit=20):
        state['calls'] += 1
        if state['down']:
            raise Down('provider down')
        txs = list(state['chain'])
        if after_txid:
            ids = [t.txid for t in txs]
            txs = txs[ids.index(after_txid) + 1:] if after_txid in ids else []
        return [{'address': addr, 'txid': t.txid, 'confirmations': t.confirmations, 'output_n': 0, 'input_n': 0, 'block_height': t.block_height,
                 'fee': t.fee, 'size': 0, 'value': t.outputs[0].value, 'script': '', 'date': t.date} for t in txs][:limit]

    def p_getblock(self, blockid, parse_transactions, page, limit):
        state['calls'] += 1
        if state['down']:
            raise Down('provider down')
        txs = state['block'][(page - 1) * limit:page * limit]
        return {'bits': 0x1d00ffff, 'depth': 11, 'block_hash': b'\x11' * 32, 'height': 100, 'merkle_root': b'\x22' * 32, 'nonce': 12345,
                'prev_block': b'\x33' * 32, 'time': 1704110400, 'tx_count': len(state['block']), 'txs': txs if parse_transactions else [t.txid for t in txs],
                'version': b'\x00\x00\x00\x01', 'page': page, 'pages': None, 'limit': limit}

    listed = {o.get('id') for o in opens}

    def fail(what, inp, observed, expected, pid=None):
        if pid is not None and pid in listed:
            known.setdefault(pid, [])
            if len(known[pid]) < 2:
                known[pid].append({'input': inp, 'observed': observed, 'expected': expected, 'confirmed': True, 'obligation': 'service-cache#bounded', 'what': what})
            return
        if len(failed) < 6:
            failed.append({'input': inp, 'observed': observed, 'expected': expected, 'confirmed': True, 'obligation': 'service-cache#bounded', 'what': what})

    bt.BitcoinLibTestClient.gettransactions = p_gettransactions
    bt.BitcoinLibTestClient.gettransaction = p_gettransaction
    bt.BitcoinLibTestClient.blockcount = p_blockcount
    bt.BitcoinLibTestClient.getutxos = p_getutxos
    bt.BitcoinLibTestClient.estimatefee = p_estimatefee
    bt.BitcoinLibTestClient.getblock = p_getblock
    try:
        maxn = 4 if tier == 'quick' else 5
        cfg = 0
        for n in range(1, maxn + 1):
            for heights in itertools.combinations_with_replacement((100, 101, 102), n):
                cfg += 1
                db = 'sqlite:///' + os.path.join(tmp, 'c%d.sqlite' % cfg)
                state['chain'] = [make_tx(i, h) for i, h in enumerate(heights)]
                state['down'] = False
                want = [fingerprint(t) for t in state['chain']]
                scen = {'block_heights': list(heights)}
                # cold query
                cases += 1
                try:
                    srv = Service(network=net, cache_uri=db)
                    got = [fingerprint(t) for t in srv.gettransactions(address)]
                    if got != want:
                        fail('cold gettransactions', scen, repr([g[0][-6:] for g in got]), repr([w[0][-6:] for w in want]))
                    else:
                        ok += 1
                except Exception as e:
                    fail('cold gettransactions', scen, 'raised %s: %s' % (type(e).__name__, str(e)[:150]), 'the provider answer')
                    continue
                # warm queries, provider down: must be the stored answers (or an error), never something else
                state['down'] = True
                for k in range(-1, n):
                    after = '' if k < 0 else state['chain'][k].txid
                    cases += 1
                    sc = dict(scen, after_txid_position=k, provider='down')
                    try:
                        srv = Service(network=net, cache_uri=db)
                        got = [fingerprint(t) for t in srv.gettransactions(address, after_txid=after)]
                        if got != want[k + 1:]:
                            fail('warm gettransactions', sc, repr([g[0][-6:] for g in got]), repr([w[0][-6:] for w in want[k + 1:]]))
                        else:
                            ok += 1
                    except ServiceError:
                        ok += 1          # failing with an error is allowed; inventing or dropping data is not
                    except Exception as e:
                        fail('warm gettransactions', sc, 'raised %s: %s' % (type(e).__name__, str(e)[:150]), 'stored answer or ServiceError')
                # warm queries, provider up: cached prefix + provider rest must still be the full answer
                state['down'] = False
                for k in range(-1, n):
                    after = '' if k < 0 else state['chain'][k].txid
                    cases += 1
                    sc = dict(scen, after_txid_position=k, provider='up')
                    try:
                        srv = Service(network=net, cache_uri=db)
                        got = [fingerprint(t) for t in srv.gettransactions(address, after_txid=after)]
                        if got != want[k + 1:]:
                            fail('warm gettransactions', sc, repr([g[0][-6:] for g in got]), repr([w[0][-6:] for w in want[k + 1:]]))
                        else:
                            ok += 1
                    except Exception as e:
                        fail('warm gettransactions', sc, 'raised %s: %s' % (type(e).__name__, str(e)[:150]), 'the full answer')
                # raw transactions from the cache: the bytes of the stored transaction
                state['down'] = True
                for t in state['chain'][:2]:
                    cases += 1
                    try:
                        g = Service(network=net, cache_uri=db).getrawtransaction(t.txid)
                        if g != t.raw_hex():
                            fail('warm getrawtransaction', dict(scen, txid=t.txid[-6:]), str(g)[:120], t.raw_hex()[:120])
                        else:
                            ok += 1
                    except ServiceError:
                        ok += 1
                    except Exception as e:
                        if type(e).__name__ == 'Down' or 'getrawtransaction' in str(e):
                            ok += 1
                        else:
                            fail('warm getrawtransaction', dict(scen, txid=t.txid[-6:]), 'raised %s: %s' % (type(e).__name__, str(e)[:150]), 'stored raw transaction or ServiceError')
                # single transactions from the cache
                state['down'] = True
                for t in state['chain'][:2]:
                    cases += 1
                    try:
                        srv = Service(network=net, cache_uri=db)
                        g = srv.gettransaction(t.txid)
                        if not g or fingerprint(g) != fingerprint(t):
                            fail('warm gettransaction', dict(scen, txid=t.txid[-6:]), repr(g and fingerprint(g))[:200], repr(fingerprint(t))[:200])
                        else:
                            ok += 1
                    except ServiceError:
                        ok += 1
                    except Exception as e:
                        fail('warm gettransaction', dict(scen, txid=t.txid[-6:]), 'raised %s: %s' % (type(e).__name__, str(e)[:150]), 'stored transaction or ServiceError')
        # a transaction the cache cannot hold (an input without a value) among the answer, at any height up to the chain tip: repeated queries with
        # the provider up must keep returning the provider's whole answer - the cache may never claim to be complete past a transaction it lacks
        tip = state['height']
        for n in range(1, 4):
            for heights in itertools.combinations_with_replacement((tip - 2, tip - 1, tip), n):
                for j in range(n):
                    cfg += 1
                    db = 'sqlite:///' + os.path.join(tmp, 'x%d.sqlite' % cfg)
                    state['chain'] = [make_tx(i, h) for i, h in enumerate(heights)]
                    state['chain'][j].inputs[0].value = 0
                    state['down'] = False
                    want = [fingerprint(t) for t in state['chain']]
                    scen = {'block_heights': list(heights), 'chain_tip': tip, 'transaction_without_input_value': j}
                    for rnd in (1, 2, 3):
                        cases += 1
                        try:
                            got = [fingerprint(t) for t in Service(network=net, cache_uri=db).gettransactions(address)]
                            if got != want:
                                fail('gettransactions, query %d, one transaction cannot be cached' % rnd, scen, repr([g[0][-6:] for g in got]), repr([w[0][-6:] for w in want]))
                                break
                            ok += 1
                        except Exception as e:
                            fail('gettransactions, query %d, one transaction cannot be cached' % rnd, scen, 'raised %s: %s' % (type(e).__name__, str(e)[:150]), 'the provider answer')
                            break
        # block pages: a block of 7 transactions read page by page (page size 2, 3, 7) with the provider up, then again - in another order - with
        # the provider down: a page served from the cache is the page that was stored (same transactions, same order), or the query fails
        for limit in (2, 3, 7):
            cfg += 1
            db = 'sqlite:///' + os.path.join(tmp, 'b%d.sqlite' % cfg)
            state['block'] = [make_tx(i, 100) for i in range(7)]
            ids = [t.txid for t in state['block']]
            n_pages = -(-7 // limit)
            state['down'] = False
            good = True
            for page in range(1, n_pages + 1):
                cases += 1
                try:
                    b = Service(network=net, cache_uri=db).getblock(100, parse_transactions=True, page=page, limit=limit)
                    got = [t.txid if hasattr(t, 'txid') else t for t in b.transactions]
                    if got != ids[(page - 1) * limit:page * limit]:
                        fail('getblock page from the provider', {'limit': limit, 'page': page}, repr([ids.index(g) for g in got if g in ids]), repr(list(range((page - 1) * limit, min(7, page * limit)))))
                        good = False
                    else:
                        ok += 1
                except Exception as e:
                    fail('getblock page from the provider', {'limit': limit, 'page': page}, 'raised %s: %s' % (type(e).__name__, str(e)[:120]), 'the provider answer')
                    good = False
            if not good:
                continue
            state['down'] = True
            for page in list(range(n_pages, 0, -1)) + list(range(1, n_pages + 1)):
                cases += 1
                try:
                    b = Service(network=net, cache_uri=db).getblock(100, parse_transactions=True, page=page, limit=limit)
                    if not b:
                        ok += 1          # failing is allowed
                        continue
                    got = [t.txid if hasattr(t, 'txid') else t for t in b.transactions]
                    want_p = ids[(page - 1) * limit:page * limit]
                    if got != want_p:
                        fail('getblock page from the cache', {'limit': limit, 'page': page, 'provider': 'down'}, 'transactions number %s of the block' % [ids.index(g) if g in ids else '?' for g in got],
                             'transactions number %s' % list(range((page - 1) * limit, min(7, page * limit))))
                    elif any(hasattr(t, 'raw_hex') and t.raw_hex() != state['block'][ids.index(t.txid)].raw_hex() for t in b.transactions):
                        fail('getblock page from the cache', {'limit': limit, 'page': page, 'provider': 'down'}, 'a transaction differs from the stored one', 'the stored transactions')
                    else:
                        ok += 1
                except ServiceError:
                    ok += 1
                except Exception as e:
                    if type(e).__name__ == 'Down':
                        ok += 1
                    else:
                        fail('getblock page from the cache', {'limit': limit, 'page': page, 'provider': 'down'}, 'raised %s: %s' % (type(e).__name__, str(e)[:120]), 'stored page or ServiceError')
            state['down'] = False
        # address history first, block pages afterwards: the third transaction of block 100 is cached through gettransactions(address); page 2 of the
        # block (page size 1) is then fetched from the provider; page 1 must still be the block's FIRST transaction (from the provider or the cache)
        for provider_up in (True, False):
            cfg += 1
            cases += 1
            db = 'sqlite:///' + os.path.join(tmp, 'i%d.sqlite' % cfg)
            state['block'] = [make_tx(i, 100) for i in range(3)]
            ids = [t.txid for t in state['block']]
            state['chain'] = [state['block'][2]]
            state['down'] = False
            try:
                Service(network=net, cache_uri=db).gettransactions(address)
                Service(network=net, cache_uri=db).getblock(100, parse_transactions=True, page=2, limit=1)
                state['down'] = not provider_up
                b = Service(network=net, cache_uri=db).getblock(100, parse_transactions=True, page=1, limit=1)
                got = [t.txid if hasattr(t, 'txid') else t for t in b.transactions] if b else None
                if got is None or got == ids[:1]:
                    ok += 1
                else:
                    pinned = got == ids[2:3]
                    fail('getblock page 1 after gettransactions cached a later transaction of the block', {'history': ['gettransactions(address)', 'getblock(100, page=2, limit=1)', 'getblock(100, page=1, limit=1)'],
                         'provider': 'up' if provider_up else 'down'}, 'transaction number %s of the block' % [ids.index(g) if g in ids else '?' for g in got], 'transaction number [0]',
                         'F-C20-cache-index-two-meanings' if pinned else None)
            except ServiceError:
                ok += 1
            except Exception as e:
                if type(e).__name__ == 'Down':
                    ok += 1
                else:
                    fail('getblock page 1 after gettransactions', {'provider': 'up' if provider_up else 'down'}, 'raised %s: %s' % (type(e).__name__, str(e)[:120]), 'page or ServiceError')
            state['down'] = False
        # unspent outputs: the cache holds some of the address's transactions (fetched one by one), with the spent status of the output either
        # known (False) or unknown (None: the provider gave no spent information); every output is in fact unspent, so getutxos must return
        # all of them, in order, whatever part came from the cache
        for n in range(1, 4):
            for flags in itertools.product((False, None), repeat=n):
                for cached in list(itertools.product((False, True), repeat=n)) + ['sync']:
                    cfg += 1
                    db = 'sqlite:///' + os.path.join(tmp, 'u%d.sqlite' % cfg)
                    state['chain'] = [make_tx(i, 100 + i) for i in range(n)]
                    for t, kn in zip(state["chain"], flags):
                        t.outputs[0].spent = kn
                        t.outputs[1].spent = kn
                    state['down'] = False
                    want = [t.txid for t in state['chain']]
                    sync = cached == 'sync'          # the whole address history is in the cache (gettransactions), then getutxos
                    if sync:
                        cached = (True,) * n
                    scen = {'outputs_spent_flag_in_cache': [repr(k) for k in flags], 'transactions_cached': 'all, by gettransactions' if sync else list(cached)}
                    cases += 1
                    try:
                        srv = Service(network=net, cache_uri=db)
                        if sync:
                            srv.gettransactions(address)
                        else:
                            for t, c in zip(state['chain'], cached):
                                if c:
                                    srv.gettransaction(t.txid)
                        srv = Service(network=net, cache_uri=db)
                        got = [u['txid'] for u in srv.getutxos(address)]
                        if got != want:
                            # recorded finding: an earlier transaction that is NOT in the cache while a later one is - its output is skipped
                            gap = {t.txid for i, t in enumerate(state['chain']) if not cached[i] and any(cached[i + 1:])}
                            missing = [w for w in want if w not in got]
                            pinned = bool(gap) and set(missing) <= gap and [w for w in want if w in got] == got
                            fail('getutxos with a partially filled cache', scen, repr([g[-6:] for g in got]), repr([w[-6:] for w in want]),
                                 'F-C20-getutxos-cache-gap' if pinned else None)
                        else:
                            ok += 1
                    except Exception as e:
                        fail('getutxos with a partially filled cache', scen, 'raised %s: %s' % (type(e).__name__, str(e)[:150]), 'all unspent outputs')
        # fee estimates: one confirmation target per cache group (high / medium / low); what the cache serves for a target afterwards must be what
        # the provider answered for that target (or the query fails) - never the stored answer of another target
        for targets in ((1, 2, 10), (1, 4, 25), (2, 1, 6), (5, 1, 100)):
            cfg += 1
            db = 'sqlite:///' + os.path.join(tmp, 'f%d.sqlite' % cfg)
            state['down'] = False
            cold = {}
            cases += 1
            try:
                for b in targets:
                    cold[b] = Service(network=net, cache_uri=db).estimatefee(b)
                if any(cold[b] != 100000 // b for b in targets):
                    fail('estimatefee cold', {'targets': list(targets)}, repr(cold), repr({b: 100000 // b for b in targets}))
                else:
                    ok += 1
            except Exception as e:
                fail('estimatefee cold', {'targets': list(targets)}, 'raised %s: %s' % (type(e).__name__, str(e)[:120]), 'the provider answers')
                continue
            state['down'] = True
            for b in targets:
                cases += 1
                try:
                    got = Service(network=net, cache_uri=db).estimatefee(b)
                    if got != cold[b]:
                        fail('estimatefee warm', {'targets': list(targets), 'blocks': b}, repr(got), repr(cold[b]))
                    else:
                        ok += 1
                except ServiceError:
                    ok += 1
                except Exception as e:
                    if 'provider down' in str(e) or type(e).__name__ == 'Down':
                        ok += 1
                    else:
                        fail('estimatefee warm', {'targets': list(targets), 'blocks': b}, 'raised %s: %s' % (type(e).__name__, str(e)[:120]), 'stored answer or ServiceError')
            state['down'] = False
        # fee estimate with no provider answering and nothing cached: an error - the network's default fee is invented data (recorded finding);
        # a provider answer outside the network's fee limits is returned as it was given - the library replaces it by the limit (same finding)
        from bitcoinlib.networks import Network as _Network
        nw = _Network(net)
        for scen_name, down, answer in (('no provider answers, nothing cached', True, None), ('provider answers 50', False, 50), ('provider answers 5000000', False, 5000000)):
            cfg += 1
            cases += 1
            db = 'sqlite:///' + os.path.join(tmp, 'e%d.sqlite' % cfg)
            state['down'], state['fee_answer'] = down, answer
            try:
                got = Service(network=net, cache_uri=db).estimatefee(3)
                if answer is not None and got == answer:
                    ok += 1
                else:
                    pinned = (answer is None and got == nw.fee_default) or (answer is not None and got in (nw.fee_min, nw.fee_max))
                    fail('estimatefee: ' + scen_name, {'blocks': 3}, repr(got), 'ServiceError' if answer is None else repr(answer), 'F-C20-estimatefee-default-and-limits' if pinned else None)
            except ServiceError:
                ok += 1
            except Exception as e:
                if type(e).__name__ == 'Down':
                    ok += 1
                else:
                    fail('estimatefee: ' + scen_name, {'blocks': 3}, 'raised %s: %s' % (type(e).__name__, str(e)[:120]), 'ServiceError' if answer is None else repr(answer))
            state['down'], state['fee_answer'] = False, None
    finally:
        for m, f in orig.items():
            if f is None:
                if hasattr(bt.BitcoinLibTestClient, m):
                    delattr(bt.BitcoinLibTestClient, m)
            else:
                setattr(bt.BitcoinLibTestClient, m, f)
        shutil.rmtree(tmp, ignore_errors=True)
    res = {'contract': 'service-cache[bounded]', 'target': 'Service.gettransactions / gettransaction, Cache.gettransactions / store_transaction / _parse_db_transaction',
           'status': 'ok', 'bounded': 'chains of 1..%d transactions x every non-decreasing block-height assignment from 3 heights x every after_txid x provider up / down; one uncacheable transaction anywhere in the answer; getutxos with partially filled caches; block pages (7 transactions, page sizes 2 / 3 / 7) cold and from the cache; fee estimates per target, without any provider, and outside the fee limits' % maxn,
           'paths': cases, 'obligations': [{'name': 'service-cache#bounded', 'kind': 'bounded', 'paths': cases, 'discharged': ok, 'failed': failed,
                                            'unknown': 0, 'secs': 0.0, 'solvers': {'native': cases}, 'known': known}],
           'notes': [], 'wall_s': time.time() - t0, 'fuzz': {'runs': 0, 'failures': []}, 'props': ['C20']}
    return res
