"""BOUNDED stand-in for C11 at the text level (never counted as proved): for sampled valid strings of every kind
(P2PKH / P2SH addresses and bech32(m) addresses of every network, WIF keys, extended keys, BIP38 keys) EVERY single-character
substitution, insertion, deletion and adjacent transposition, plus case changes, dropped / added leading '1' characters, is
given to each decoding entry point of the library.  Oracle: the independent decoders in spec/base58.py and spec/bech32.py.
A string the oracle rejects must raise; a string the oracle accepts must decode to the oracle's payload."""
import random
import time

from spec import base58 as b58, bech32 as b32


def mutations(s, alphabet, rng, limit):
    out = set()
    for i in range(len(s)):
        for c in alphabet:
            if c != s[i]:
                out.add(s[:i] + c + s[i + 1:])
        out.add(s[:i] + s[i + 1:])
        if i + 1 < len(s) and s[i] != s[i + 1]:
            out.add(s[:i] + s[i + 1] + s[i] + s[i + 2:])
    for i in range(len(s) + 1):
        for c in rng.sample(alphabet, 4):
            out.add(s[:i] + c + s[i:])
    # characters OUTSIDE the alphabet: the other case of every letter, the look-alikes base58 / bech32 leave out, punctuation
    for i in range(len(s)):
        for c in {s[i].swapcase(), '0', 'O', 'I', 'l', 'b', 'i', 'o', '1', ' ', '+', '/'}:
            if c != s[i] and c not in alphabet:
                out.add(s[:i] + c + s[i + 1:])
    out.add(s.upper())
    out.add(s.lower())
    out.add(s[:len(s) // 2].upper() + s[len(s) // 2:])
    out.add(s.lstrip('1'))
    out.add('1' + s)
    out.add(s[1:])
    out.add(s + s[-1])
    out.discard(s)
    out = sorted(out)
    if len(out) > limit:
        out = rng.sample(out, limit)
    return out


def run(tier, seed, opens):
    from bitcoinlib.keys import Key, HDKey, Address, deserialize_address, bip38_decrypt
    from bitcoinlib.encoding import addr_base58_to_pubkeyhash, addr_bech32_to_pubkeyhash
    from bitcoinlib.networks import NETWORK_DEFINITIONS
    t0 = time.time()
    rng = random.Random(1000 + seed)
    listed = {o.get('id') for o in opens}
    per_string = 600 if tier == 'quick' else 100000
    n_samples = 1 if tier == 'quick' else 6
    cases = ok = 0
    failed, known = [], {}

    def record(entry, s, what, pid=None):
        cex = {'input': {'entry_point': entry, 'string': s}, 'observed': what, 'expected': 'rejected (raises) - the string is not a canonical, '
               'checksummed encoding', 'confirmed': True, 'obligation': 'text-decoders#bounded'}
        if pid and pid in listed:
            known.setdefault(pid, [])
            if len(known[pid]) < 2:
                known[pid].append(cex)
        elif len(failed) < 8:
            failed.append(cex)

    def check(entry, fn, s, spec_payload, extract, pid_of=None):
        """fn(s) must raise iff spec_payload is None; otherwise extract(result) == spec_payload"""
        nonlocal cases, ok
        cases += 1
        try:
            r = fn(s)
        except Exception:
            if spec_payload is None:
                ok += 1
            else:
                record(entry, s, 'raises although the oracle accepts the string')
            return
        if spec_payload is None:
            record(entry, s, 'accepted: %r' % (extract(r),), pid_of(s, r) if pid_of else None)
            return
        if extract(r) == spec_payload:
            ok += 1
        else:
            record(entry, s, 'decoded to %r, oracle says %r' % (extract(r), spec_payload))

    prefixes_b58, hrps = set(), set()
    for n, d in NETWORK_DEFINITIONS.items():
        prefixes_b58.add(bytes.fromhex(d['prefix_address']))
        prefixes_b58.add(bytes.fromhex(d['prefix_address_p2sh']))
        hrps.add(d['prefix_bech32'])

    def spec_addr58(s):
        p = b58.check_decode(s)
        if p is None or len(p) != 21 or p[:1] not in prefixes_b58:
            return None
        return p[1:]

    def spec_bech(s):
        r = b32.decode(s)
        if r is None or r[0] not in hrps:
            return None
        return r[2]

    def pid_b58(s, r):
        raw = b58.decode(s)
        if raw is not None and len(raw) < 25:
            return 'F-C11-base58-missing-leading-1'
        if raw is not None and len(raw) > 25:
            return 'F-C11-base58-long-payload'
        return None

    for _ in range(n_samples):
        for prefix in sorted(prefixes_b58):
            payload = bytes(rng.getrandbits(8) for _ in range(20))
            if rng.random() < 0.5:
                payload = b'\x00' * rng.randint(1, 3) + payload[3:]
            variants = [prefix + payload]
            for full in variants:
                s = b58.check_encode(full)
                for m in [s] + mutations(s, b58.ALPHABET, rng, per_string):
                    sp = spec_addr58(m)
                    check('addr_base58_to_pubkeyhash', addr_base58_to_pubkeyhash, m, sp, lambda r: r, pid_b58)
                    check('deserialize_address', deserialize_address, m, sp, lambda r: r['public_key_hash_bytes'], pid_b58)
                    check('Address.parse', Address.parse, m, None if sp is None else (sp, m), lambda r: (r.hash_bytes, r.address), pid_b58)
        for hrp in sorted(hrps):
            for witver, ln in ((0, 20), (0, 32), (1, 32)):
                s = b32.encode(hrp, witver, list(bytes(rng.getrandbits(8) for _ in range(ln))))
                for m in [s] + mutations(s, b32.CHARSET, rng, per_string):
                    sp = spec_bech(m)
                    check('addr_bech32_to_pubkeyhash', addr_bech32_to_pubkeyhash, m, sp, lambda r: r)
                    check('deserialize_address', deserialize_address, m, sp, lambda r: r['public_key_hash_bytes'])
                    # the Address object: same payload, and re-encoding gives the identical string (whatever the witness version)
                    # (an all-upper-case string is valid Bech32; Address.parse refuses it, which the property allows: not checked)
                    if sp is None or m == m.lower():
                        check('Address.parse', Address.parse, m, None if sp is None else (sp, m), lambda r: (r.hash_bytes, r.address))
        # every witness version 0..16 with the right AND the wrong checksum constant (BIP350: v0 <-> Bech32, v1..16 <-> Bech32m)
        for hrp in sorted(hrps)[:3]:
            for witver in range(17):
                prog = list(bytes(rng.getrandbits(8) for _ in range(32 if witver != 0 else rng.choice([20, 32]))))
                for const in (1, b32.BECH32M_CONST):
                    data = [witver] + b32.convertbits(prog, 8, 5)
                    pm = b32.polymod(b32.hrp_expand(hrp) + data + [0] * 6) ^ const
                    m = hrp + '1' + ''.join(b32.CHARSET[d] for d in data + [(pm >> 5 * (5 - i)) & 31 for i in range(6)])
                    sp = spec_bech(m)
                    check('addr_bech32_to_pubkeyhash', addr_bech32_to_pubkeyhash, m, sp, lambda r: r)
                    check('deserialize_address', deserialize_address, m, sp, lambda r: r['public_key_hash_bytes'])
                    check('Address.parse', Address.parse, m, None if sp is None else (sp, m), lambda r: (r.hash_bytes, r.address))
        # WIF and extended keys (bitcoin + one other network)
        for net in ('bitcoin', 'litecoin'):
            k = Key(rng.randrange(1, 2 ** 255), network=net, compressed=rng.random() < 0.5)
            s = k.wif()
            # correctly checksummed strings whose payload is not a key: wrong length, scalar 0, scalar n, scalar 2^256-1
            pw = bytes.fromhex(NETWORK_DEFINITIONS[net]['prefix_wif'])
            N_ = 0xFFFFFFFFFFFFFFFFFFFFFFFFFFFFFFFEBAAEDCE6AF48A03BBFD25E8CD0364141
            crafted = [b58.check_encode(pw + body + flag) for flag in (b'', b'\x01')
                       for body in (b'\x00' * 32, N_.to_bytes(32, 'big'), b'\xff' * 32, bytes(rng.getrandbits(8) for _ in range(31)),
                                    bytes(rng.getrandbits(8) | 2 for _ in range(33)), bytes(rng.getrandbits(8) for _ in range(16)), b'')]
            for m in [s] + crafted + mutations(s, b58.ALPHABET, rng, per_string):
                p = b58.check_decode(m)
                okm = p is not None and len(p) in (33, 34) and p[:1] == pw and (len(p) == 33 or p[-1] == 1) and 0 < int.from_bytes(p[1:33], 'big') < N_
                sec = int.from_bytes(p[1:33], 'big') if okm else None
                check('Key(wif)', lambda x: Key(x, network=net), m, sec, lambda r: r.secret)
            hk = HDKey(network=net)
            for s in (hk.wif_private(), hk.wif_public()):
                for m in [s] + mutations(s, b58.ALPHABET, rng, per_string // 2):
                    p = b58.check_decode(m)
                    okm = p is not None and len(p) == 78
                    payload = p[45:78] if okm else None
                    check('HDKey(extended key)', lambda x: HDKey(x, network=net), m, payload,
                          lambda r: (b'\x00' + r.private_byte) if r.is_private else r.public_byte,
                          lambda s_, r: 'F-C11-hdkey-no-checksum')
    # BIP38 encrypted keys (scrypt makes each try slow: few mutants)
    try:
        k = Key(rng.randrange(1, 2 ** 255))
        enc_wif = k.encrypt('pw')
        muts = mutations(enc_wif, b58.ALPHABET, rng, 30 if tier == 'quick' else 400)
        for m in [enc_wif] + muts:
            p = b58.check_decode(m)
            okm = p is not None and len(p) == 39
            check('bip38_decrypt', lambda x: bip38_decrypt(x, 'pw'), m, (k.secret if m == enc_wif else None) if okm or m == enc_wif else None,
                  lambda r: int.from_bytes(r[0], 'big') if isinstance(r, tuple) else r, lambda s_, r: 'F-C11-bip38-outer-checksum')
    except Exception as e:
        failed.append({'input': {'entry_point': 'bip38_decrypt'}, 'observed': 'harness error %r' % e, 'confirmed': False, 'obligation': 'text-decoders#bounded'})
    res = {'contract': 'text-decoders[bounded]', 'target': 'addr_base58_to_pubkeyhash, addr_bech32_to_pubkeyhash, deserialize_address, Address.parse, Key(wif), HDKey(extended)',
           'status': 'ok', 'bounded': 'every single-character substitution / insertion / deletion / transposition, case changes, leading-1 changes of '
           '%d sampled strings per kind and network (at most %d mutants per string)' % (n_samples, per_string),
           'paths': cases, 'obligations': [{'name': 'text-decoders#bounded-vs-reference-decoders', 'kind': 'bounded', 'paths': cases, 'discharged': ok,
                                            'failed': failed, 'unknown': 0, 'secs': 0.0, 'solvers': {'native': cases}, 'known': known}],
           'notes': [], 'wall_s': time.time() - t0, 'fuzz': {'runs': 0, 'failures': []}, 'props': ['C11']}
    return res
