"""C17, last sentence - BOUNDED native stand-in (never counted as proved): "amounts placed in transaction outputs and fees are always non-negative
integers of the smallest unit".  The value contracts of C17 cover the conversion; here the places where amounts ENTER a transaction are driven:

  * Output(...) and Transaction.add_output(...) with integers, Value objects, amount texts, floats with and without decimals, negative numbers:
    the stored amount is the exact number of smallest units (computed here with Fractions from the text), or the call fails - never a float, a
    negative number, or whole coins taken for smallest units;
  * Wallet.transaction_create / send with explicitly named inputs that do not cover the outputs, fee left open: refused, or a transaction whose
    fee = inputs - outputs is a non-negative integer (own arithmetic on the values supplied)."""
import os
import random
import shutil
import tempfile
import time
from fractions import Fraction


def run(tier, seed, opens):
    from bitcoinlib.transactions import Output, Transaction
    from bitcoinlib.values import Value
    from bitcoinlib.wallets import Wallet, WalletError
    from bitcoinlib.transactions import TransactionError
    from bitcoinlib.keys import HDKey
    t0 = time.time()
    random.seed(1717 + seed)
    rng = random.Random(17170 + seed)
    failed, cases, ok = [], 0, 0

    def fail(what, inp, observed, expected):
        if len(failed) < 8 and not any(f['what'] == what for f in failed):
            failed.append({'input': inp, 'observed': observed, 'expected': expected, 'confirmed': True, 'obligation': 'output-amounts#bounded', 'what': what})

    addr = '1KcyuWgVfrGsKdXxfkCYeoPjGKt8JAxSHs'
    n_units = [0, 1, 546, 10 ** 8, 123456789, 21 * 10 ** 14] + [rng.randrange(0, 21 * 10 ** 14) for _ in range(6 if tier == 'quick' else 200)]
    entries = []
    for n in n_units:
        entries.append((n, n, 'int'))
        btc = Fraction(n, 10 ** 8)
        text = '%d.%08d BTC' % (n // 10 ** 8, n % 10 ** 8)
        entries.append((text, n, 'text'))
        entries.append((Value(text), n, 'Value object'))
        entries.append((float(n), n if float(n) == n else None, 'float without decimals'))
    entries += [(1000.5, None, 'float with decimals'), (-5, None, 'negative integer'), (-1.0, None, 'negative float'), ('-0.00000001 BTC', None, 'negative text')]
    for maker in ('Output', 'add_output'):
        for arg, want, kind in entries:
            cases += 1
            inp = {'call': '%s(%r, address)' % (maker, arg), 'kind': kind}
            try:
                if maker == 'Output':
                    v = Output(arg, addr).value
                else:
                    t = Transaction(network='bitcoin')
                    t.add_output(arg, addr)
                    v = t.outputs[0].value
            except Exception:
                ok += 1          # refusing is always allowed
                continue
            if isinstance(v, bool) or int(v) != v or v < 0 or isinstance(v, float):
                fail('%s with a %s' % (maker, kind), inp, 'stored amount %r' % (v,), 'a non-negative integer or a refusal')
            elif want is None:
                fail('%s with a %s' % (maker, kind), inp, 'stored amount %r' % (v,), 'a refusal')
            elif int(v) != want:
                fail('%s with a %s' % (maker, kind), inp, 'stored amount %r' % (v,), repr(want))
            else:
                ok += 1
    # explicitly named inputs that do not cover the outputs
    tmp = tempfile.mkdtemp(prefix='c17-', dir=os.environ.get('BCL_DATA_DIR'))
    try:
        db = 'sqlite:///' + os.path.join(tmp, 'w.sqlite')
        for wn, wt in enumerate(('segwit', 'legacy')):
            w = Wallet.create('c17w%d' % wn, network='bitcoinlib_test', db_uri=db, witness_type=wt)
            k = w.get_key()
            ops = []
            for j in range(2):
                txid = '%064x' % rng.getrandbits(256)
                w.utxo_add(k.address, 100000000, txid, j, confirmations=10)
                ops.append((txid, j))
            dest = HDKey(network='bitcoinlib_test', witness_type=wt).address()
            for amount in (150000000, '1.5 TST', 100000001, 99990000):
                for call in ('transaction_create', 'send'):
                    cases += 1
                    inp = {'wallet': wt, 'call': '%s([(dest, %r)], input_arr=[one output of 100000000], fee=None)' % (call, amount)}
                    try:
                        t = getattr(w, call)([(dest, amount)], input_arr=[ops[0]], fee=None)
                    except (WalletError, TransactionError, ValueError):
                        ok += 1
                        continue
                    outs = [o.value for o in t.outputs]
                    real_fee = 100000000 - sum(outs)
                    if t.fee is None or t.fee < 0 or int(t.fee) != t.fee or real_fee < 0 or any(o < 0 or int(o) != o for o in outs) or t.fee != real_fee:
                        fail('explicit inputs that do not cover the outputs', inp, 'outputs %s, fee %r' % (outs, t.fee), 'a refusal, or fee = inputs - outputs >= 0')
                    else:
                        ok += 1
    finally:
        shutil.rmtree(tmp, ignore_errors=True)
    return {'contract': 'output-amounts[bounded]', 'target': 'Output.__init__, Transaction.add_output, Wallet.transaction_create (fee left open, explicit inputs)', 'status': 'ok',
            'bounded': '%d amounts x int / text / Value / float forms through Output and add_output, negative and fractional amounts, overdrawn explicit inputs' % len(n_units),
            'paths': cases, 'obligations': [{'name': 'output-amounts#bounded', 'kind': 'bounded', 'paths': cases, 'discharged': ok, 'failed': failed, 'unknown': 0, 'secs': 0.0,
                                             'solvers': {'native': cases}, 'known': {}}],
            'notes': [], 'wall_s': time.time() - t0, 'fuzz': {'runs': 0, 'failures': []}, 'props': ['C17']}
