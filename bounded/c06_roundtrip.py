"""BOUNDED stand-in for C06 (never counted as proved): random well-formed transactions - legacy and segwit, input / output /
witness-item counts incl. 0, 1, 252, 253 (CompactSize boundary), empty and one-byte scripts and witness items, coinbase
inputs, non-standard scripts - are serialised by the independent writer spec.wire.ser_tx, parsed by the library and
re-serialised; the library's txid is compared with the double-SHA256 of the witness-stripped reference serialisation; API-built
transactions are read back by the independent parser."""
import hashlib
import random
import time

from spec import wire


def dsha(b):
    return hashlib.sha256(hashlib.sha256(b).digest()).digest()


def truncated_push(sc):
    """does the script end inside a data push (a push opcode announcing more bytes than remain)?"""
    i = 0
    while i < len(sc):
        op = sc[i]
        i += 1
        if 1 <= op <= 75:
            n = op
        elif op == 76:
            if i + 1 > len(sc):
                return True
            n = sc[i]
            i += 1
        elif op == 77:
            if i + 2 > len(sc):
                return True
            n = sc[i] + 256 * sc[i + 1]
            i += 2
        elif op == 78:
            if i + 4 > len(sc):
                return True
            n = int.from_bytes(sc[i:i + 4], 'little')
            i += 4
        else:
            continue
        if i + n > len(sc):
            return True
        i += n
    return False


def rand_script(rng, allow_special=True):
    r = rng.random()
    if allow_special and r < 0.06:
        return b''
    if allow_special and r < 0.12:
        return bytes([rng.choice([0x00, 0x51, 0x6a, 0xff, 0x01])])
    if r < 0.5:
        h = bytes(rng.getrandbits(8) for _ in range(20))
        return rng.choice([b'\x76\xa9\x14' + h + b'\x88\xac', b'\xa9\x14' + h + b'\x87', b'\x00\x14' + h])
    if r < 0.6:
        return b'\x6a' + bytes([rng.randint(1, 40)]) + bytes(rng.getrandbits(8) for _ in range(40))[:rng.randint(1, 40)]
    n = rng.choice([1, 2, 3, 33, 75, 76, 77, 252, 253, 254, 300])
    return bytes(rng.getrandbits(8) for _ in range(n))


def rand_tx(rng, tier):
    segwit = rng.random() < 0.5
    big = tier != 'quick' and rng.random() < 0.05
    nin = rng.choice([1, 1, 2, 3, 5] + ([252, 253] if big else []))
    nout = rng.choice([1, 1, 2, 3, 7] + ([252, 253, 254] if big else []))      # a transaction without outputs is not well-formed
    ins = []
    for k in range(nin):
        coinbase = k == 0 and rng.random() < 0.1
        txid = b'\x00' * 32 if coinbase else bytes(rng.getrandbits(8) for _ in range(32))
        vout = 0xffffffff if coinbase else rng.choice([0, 1, 2, 255, 65536, rng.getrandbits(32)])
        if not segwit:
            script = rand_script(rng)
        elif rng.random() < 0.25:
            script = b'\x16\x00\x14' + bytes(rng.getrandbits(8) for _ in range(20))       # P2SH-P2WPKH: push of the witness program
        elif rng.random() < 0.1:
            script = rand_script(rng)                                                   # odd: arbitrary scriptSig next to a witness
        else:
            script = b''
        wit = []
        if segwit:
            wit = [rng.choice([b'', b'\x00', b'\x01', bytes(rng.getrandbits(8) for _ in range(rng.choice([1, 32, 71, 72, 73, 253])))])
                   for _ in range(rng.choice([0, 1, 2, 2, 3]))]
        ins.append((txid, vout, script, rng.choice([0xffffffff, 0xfffffffe, 0, 1, rng.getrandbits(32)]), wit))
    outs = [(rng.choice([0, 1, 546, 10 ** 8, 21 * 10 ** 14, rng.getrandbits(50)]), rand_script(rng)) for _ in range(nout)]
    if segwit and not any(i[4] for i in ins):
        ins[0] = ins[0][:4] + ([b'\x01'],)
    return rng.choice([1, 2, 0x7fffffff, 0x20000000, 0, 0xffffffff, 3]), ins, outs, rng.choice([0, 1, 499999999, 500000000, 0xffffffff]), segwit


def run(tier, seed, opens):
    from bitcoinlib.transactions import Transaction
    t0 = time.time()
    rng = random.Random(4242 + seed)
    listed = {o.get('id') for o in opens}
    n = 400 if tier == 'quick' else 20000
    cases = ok = 0
    failed, known = [], {}

    def fail(what, raw, observed, expected, pid=None):
        cex = {'input': {'raw_hex': raw.hex() if len(raw) < 4000 else raw[:200].hex() + '...(%d bytes)' % len(raw)}, 'observed': observed,
               'expected': expected, 'confirmed': True, 'obligation': 'Transaction#bounded', 'what': what}
        if pid and pid in listed:
            known.setdefault(pid, [])
            if len(known[pid]) < 2:
                known[pid].append(cex)
        elif len(failed) < 8:
            failed.append(cex)

    for _ in range(n):
        version, ins, outs, locktime, segwit = rand_tx(rng, tier)
        raw = wire.ser_tx(version, ins, outs, locktime, segwit)
        stripped = wire.ser_tx(version, ins, outs, locktime, False)
        zero_item = any(i[2] == b'\x00' for i in ins) or any(o[1] == b'\x00' for o in outs) or any(w in (b'\x00', b'') for i in ins for w in i[4])
        odd_sig = segwit and any(i[2] and i[4] and not (len(i[2]) == 23 and i[2][:3] == b'\x16\x00\x14') for i in ins)
        coinbase_wit = segwit and any(i[0] == b'\x00' * 32 and i[4] for i in ins)
        trunc = any(truncated_push(sc) for sc in [i[2] for i in ins] + [o[1] for o in outs])
        pid = ('F-varstr-00' if zero_item else 'F-C06-witness-with-nonstandard-scriptsig' if odd_sig else
               'F-C06-coinbase-witness' if coinbase_wit else 'F-C06-truncated-push-script' if trunc else None)
        cases += 1
        try:
            t = Transaction.parse(raw, strict=False)
        except Exception as e:
            fail('parse', raw, 'raises %r' % e, 'parses', pid)
            continue
        back = t.raw()
        txid_ok = t.txid == dsha(stripped)[::-1].hex()
        if back == raw and txid_ok:
            ok += 1
        else:
            what = 'round trip' if back != raw else 'txid'
            fail(what, raw, (back.hex()[:300] if back != raw else t.txid), (raw.hex()[:300] if back != raw else dsha(stripped)[::-1].hex()), pid)
    # the DEFAULT (strict) reader on transactions with standard scripts only: P2PKH scriptSigs <sig> <pubkey> (DER-shaped signature, 33-byte key), P2WPKH
    # and P2SH-P2WPKH witnesses, standard output scripts.  It may refuse (strict), but what it accepts must serialise back to the same bytes.  A scriptSig
    # whose signature is pushed with OP_PUSHDATA1 (legal, not minimal) is rebuilt with the minimal push: recorded finding, pinned to exactly that difference
    from spec.pins_c18 import lex as _lex
    def _sig(ht=1):
        rr = bytes([rng.randrange(1, 0x7f)]) + bytes(rng.getrandbits(8) for _ in range(31))
        ss = bytes([rng.randrange(1, 0x7f)]) + bytes(rng.getrandbits(8) for _ in range(31))
        d = b'\x02\x20' + rr + b'\x02\x20' + ss
        return b'\x30' + bytes([len(d)]) + d + bytes([ht])
    def _pubk():
        return bytes([rng.choice([2, 3])]) + bytes(rng.getrandbits(8) for _ in range(32))
    std_out = lambda: rng.choice([b'\x76\xa9\x14' + bytes(rng.getrandbits(8) for _ in range(20)) + b'\x88\xac', b'\xa9\x14' + bytes(rng.getrandbits(8) for _ in range(20)) + b'\x87',
                                  b'\x00\x14' + bytes(rng.getrandbits(8) for _ in range(20)), b'\x00\x20' + bytes(rng.getrandbits(8) for _ in range(32)), b'\x51\x20' + bytes(rng.getrandbits(8) for _ in range(32))])
    for _ in range(40 if tier == 'quick' else 1500):
        cases += 1
        sins, nonminimal = [], False
        for k in range(rng.choice([1, 1, 2, 3])):
            kind = rng.choice(['p2pkh', 'p2pkh', 'p2wpkh', 'p2sh-p2wpkh'])
            sg, pk = _sig(), _pubk()
            if kind == 'p2pkh':
                if rng.random() < 0.2:
                    script, nonminimal = b'\x4c' + bytes([len(sg)]) + sg + bytes([len(pk)]) + pk, True
                else:
                    script = bytes([len(sg)]) + sg + bytes([len(pk)]) + pk
                wit = []
            else:
                import hashlib as _hl
                script = b'' if kind == 'p2wpkh' else b'\x16\x00\x14' + _hl.new('ripemd160', _hl.sha256(pk).digest()).digest()      # the program of THIS key
                wit = [sg, pk]
            sins.append((bytes(rng.getrandbits(8) for _ in range(32)), rng.choice([0, 1, 5]), script, rng.choice([0xffffffff, 0xfffffffe, 0]), wit))
        souts = [(rng.choice([546, 10 ** 8, rng.getrandbits(40)]), std_out()) for _ in range(rng.choice([1, 2]))]
        segw = any(i[4] for i in sins)
        raw = wire.ser_tx(rng.choice([1, 2]), sins, souts, rng.choice([0, 500000]), segw)
        try:
            back = Transaction.parse(raw).raw()
        except Exception:
            ok += 1          # a strict reader may refuse
            continue
        if back == raw:
            ok += 1
            continue
        pid = None
        if nonminimal:
            try:
                v1, i1, o1, l1, w1, u1 = wire.parse_tx(raw)
                v2, i2, o2, l2, w2, u2 = wire.parse_tx(back)
                same_but_scripts = (v1, o1, l1, w1) == (v2, o2, l2, w2) and [(a, b, d, e) for a, b, c, d, e in i1] == [(a, b, d, e) for a, b, c, d, e in i2]
                if same_but_scripts and all(x[2] == y[2] or (x[2][:1] == b'\x4c' and _lex(x[2]) == _lex(y[2])) for x, y in zip(i1, i2)):
                    pid = 'F-C06-strict-rebuilds-nonminimal-push'
            except Exception:
                pass
        fail('round trip through the default (strict) reader', raw, back.hex()[:300], raw.hex()[:300], pid)
    # transactions built through the API: the bytes, read by the independent parser, carry exactly the fields that were supplied
    from bitcoinlib.transactions import Input, Output
    for _ in range(60 if tier == 'quick' else 3000):
        cases += 1
        version = rng.choice([2, 3, 2])          # (add_input deliberately raises version 1 to 2 for relative lock-time sequences)
        locktime = rng.choice([0, 1, 499999999, 500000000, 0xfffffffe])
        n_in, n_out = rng.choice([1, 1, 2, 3]), rng.choice([1, 2, 3])
        ins = [(bytes(rng.getrandbits(8) for _ in range(32)), rng.choice([0, 1, 7, 65535, 0xfffffffe]), rng.choice([0, 1, 0xfffffffd, 0xfffffffe, 0xffffffff, rng.getrandbits(32)]))
               for _ in range(n_in)]
        outs = [(rng.choice([0, 1, 546, 10 ** 8, 21 * 10 ** 14]), rng.choice([b'\x51', b'\x76\xa9\x14' + bytes(20) + b'\x88\xac', b'\x00\x14' + bytes(range(20)), b'\xa9\x14' + bytes(range(1, 21)) + b'\x87']))
                for _ in range(n_out)]
        supplied = {'version': version, 'locktime': locktime, 'inputs': [(a.hex(), b, c) for a, b, c in ins], 'outputs': [(v, sc.hex()) for v, sc in outs]}
        try:
            via = rng.choice(['add', 'objects'])
            if via == 'add':
                t = Transaction(version=version, locktime=locktime, network='bitcoin', witness_type='legacy')
                for txid, vout, seq in ins:
                    t.add_input(prev_txid=txid, output_n=vout, sequence=seq, witness_type='legacy')
                for v, sc in outs:
                    t.add_output(v, lock_script=sc)
            else:
                t = Transaction([Input(prev_txid=txid, output_n=vout, sequence=seq, witness_type='legacy', index_n=k) for k, (txid, vout, seq) in enumerate(ins)],
                                [Output(v, lock_script=sc, output_n=k, strict=False) for k, (v, sc) in enumerate(outs)],
                                version=version, locktime=locktime, network='bitcoin', witness_type='legacy')
            raw = t.raw()
            pv, pins, pouts, plock, pwit, used = wire.parse_tx(raw)
            back = {'version': pv, 'locktime': plock, 'inputs': [(a[::-1].hex(), b, d) for a, b, c, d, e in pins], 'outputs': [(v, sc.hex()) for v, sc in pouts]}
            if back == supplied and used == len(raw):
                ok += 1
            else:
                fail('API-built transaction read back', raw, repr(back)[:300], repr(supplied)[:300])
        except Exception as e:
            fail('API-built transaction', b'', 'raises %r (supplied %s)' % (e, repr(supplied)[:200]), 'a transaction')
    # signed transactions changed through the setter API (absolute / relative lock times): what the object REPORTS afterwards (version, lock time,
    # sequences, outputs) is what the independent parser reads from its bytes; relative locks are BIP68-encoded and need version >= 2
    from bitcoinlib.keys import Key
    for _ in range(24 if tier == 'quick' else 600):
        cases += 1
        wt = rng.choice(['legacy', 'segwit'])
        version = rng.choice([1, 1, 2, 3])
        n_in = rng.choice([1, 2])
        which = rng.randrange(n_in)
        op, arg = rng.choice([('set_locktime_relative_blocks', rng.choice([1, 100, 65535])), ('set_locktime_relative_time', rng.choice([512, 3600, 512 * 65535])),
                              ('set_locktime_blocks', rng.choice([1, 650000, 499999999])), ('set_locktime_time', rng.choice([500000001, 1700000000])), (None, None)])
        supplied = {'witness_type': wt, 'version': version, 'inputs': n_in, 'call': '%s(%r, input %d)' % (op, arg, which) if op and 'relative' in op else '%s(%r)' % (op, arg)}
        try:
            t = Transaction(version=version, network='bitcoin', witness_type=wt)
            for k in range(n_in):
                t.add_input(prev_txid=bytes(rng.getrandbits(8) for _ in range(32)), output_n=k, keys=[Key(rng.randrange(1, 2 ** 250))], value=100000, witness_type=wt)
            t.add_output(150000 if n_in == 2 else 90000, lock_script=b'\x00\x14' + bytes(range(20)))
            t.sign()
            if op is not None:
                if 'relative' in op:
                    getattr(t, op)(arg, which)
                else:
                    getattr(t, op)(arg)
            raw = t.raw()
            pv, pins, pouts, plock, pwit, used = wire.parse_tx(raw)
            back = {'version': pv, 'locktime': plock, 'sequences': [d for a, b, c, d, e in pins], 'outputs': [(v, sc.hex()) for v, sc in pouts]}
            reported = {'version': t.version_int, 'locktime': t.locktime, 'sequences': [i.sequence for i in t.inputs], 'outputs': [(o.value, o.lock_script.hex()) for o in t.outputs]}
            problems = []
            if back != reported or used != len(raw):
                problems.append('the object reports %r, its bytes say %r' % (reported, back))
            if op == 'set_locktime_relative_blocks' and not (pv >= 2 and back['sequences'][which] == arg):
                problems.append('BIP68 block lock %d on input %d serialised as version %d, sequence %#x' % (arg, which, pv, back['sequences'][which]))
            if op == 'set_locktime_relative_time' and not (pv >= 2 and back['sequences'][which] == (1 << 22) | (arg // 512)):
                problems.append('BIP68 time lock %d s on input %d serialised as version %d, sequence %#x' % (arg, which, pv, back['sequences'][which]))
            if op in ('set_locktime_blocks', 'set_locktime_time') and plock != arg:
                problems.append('lock time %d serialised as %d' % (arg, plock))
            if problems:
                fail('API-built transaction changed through %s' % op, raw, '; '.join(problems)[:400], repr(supplied))
            else:
                ok += 1
        except Exception as e:
            fail('API-built transaction changed through %s' % op, b'', 'raises %r (supplied %s)' % (e, repr(supplied)[:200]), 'a transaction')
    res = {'contract': 'Transaction.parse/raw[bounded]', 'target': 'bitcoinlib.transactions.Transaction.parse_bytesio, raw, txid', 'status': 'ok', 'props': ['C06'],
           'bounded': '%d random well-formed transactions (see module docstring for the shape distribution)' % n,
           'paths': cases, 'obligations': [{'name': 'Transaction#bounded-parse-raw-roundtrip', 'kind': 'bounded', 'paths': cases, 'discharged': ok,
                                            'failed': failed, 'unknown': 0, 'secs': 0.0, 'solvers': {'native': cases}, 'known': known}],
           'notes': [], 'wall_s': time.time() - t0, 'fuzz': {'runs': 0, 'failures': []}}
    return res
