"""BOUNDED stand-in for the history part of C10 (never counted as proved): m-of-n cosigner wallets on the offline test network;
for every ORDERED choice of m signers and every hand-off representation (Transaction object, dictionary, raw hex) the spend is
created by the first signer, imported and signed by the others in that order.  Checked with an oracle that does not use
Input.verify / Transaction.verify:

  * every cosigner wallet derives the same address and the same redeem script  OP_m <n keys> OP_n OP_CHECKMULTISIG;
  * with fewer than m distinct signers the spend does not verify;
  * with m distinct signers the unlocking data satisfies CHECKMULTISIG (signatures valid for keys at strictly increasing
    positions of the redeem script, checked with the pure-Python ECDSA of spec/ec.py on the digest of signature_hash) and
    Transaction.verify() reports True."""
import itertools
import os
import shutil
import tempfile
import time

from spec import ec
from spec.pins_c18 import lex


def _der(sig):
    """(r, s, hash_type) of DER signature + hash type byte, or None"""
    try:
        d, ht = sig[:-1], sig[-1]
        if d[0] != 0x30 or d[1] != len(d) - 2 or d[2] != 2:
            return None
        lr = d[3]
        r = int.from_bytes(d[4:4 + lr], 'big')
        if d[4 + lr] != 2:
            return None
        ls = d[5 + lr]
        if 6 + lr + ls != len(d):
            return None
        return r, int.from_bytes(d[6 + lr:], 'big'), ht
    except IndexError:
        return None


def _point(pub):
    if len(pub) == 33 and pub[0] in (2, 3):
        x = int.from_bytes(pub[1:], 'big')
        y = pow(x ** 3 + 7, (ec.P + 1) // 4, ec.P)
        if y % 2 != pub[0] % 2:
            y = ec.P - y
        return (x, y) if ec.on_curve((x, y)) else None
    if len(pub) == 65 and pub[0] == 4:
        pt = (int.from_bytes(pub[1:33], 'big'), int.from_bytes(pub[33:], 'big'))
        return pt if ec.on_curve(pt) else None
    return None


def ecdsa_ok(digest, r, s, pub):
    q = _point(pub)
    if q is None or not (1 <= r < ec.N and 1 <= s < ec.N):
        return False
    z = int.from_bytes(digest, 'big')
    w = pow(s, -1, ec.N)
    pt = ec.add(ec.mul_g(z * w % ec.N), ec.mul(r * w % ec.N, q))
    return pt is not None and pt[0] % ec.N == r


def checkmultisig(digest, sigs, redeem):
    """consensus CHECKMULTISIG on the stack  0 sigs... / redeem script items  (in-order matching); (ok, why)"""
    it = lex(redeem)
    if it is None or len(it) < 4 or it[-1] != 0xae or not isinstance(it[0], int) or not isinstance(it[-2], int):
        return False, 'redeem script is not m <keys> n CHECKMULTISIG'
    m, n = it[0] - 80, it[-2] - 80
    keys = it[1:-2]
    if not (1 <= m <= n <= 16) or len(keys) != n or not all(isinstance(k, bytes) for k in keys):
        return False, 'bad m/n/key count'
    if len(sigs) != m:
        return False, '%d signatures for m = %d' % (len(sigs), m)
    k = 0
    for sg in sigs:
        d = _der(sg)
        if d is None:
            return False, 'signature not DER'
        while k < n and not ecdsa_ok(digest, d[0], d[1], keys[k]):
            k += 1
        if k >= n:
            return False, 'signatures do not match keys in order'
        k += 1
    return True, ''


def unlocking_items(inp):
    """(signatures, redeem script) as carried by the input's unlocking data"""
    if inp.witness_type == 'legacy':
        it = lex(inp.unlocking_script) or []
        data = [x for x in it[1:]]
    else:
        data = list(inp.witnesses[1:])
    if not data:
        return [], b''
    return [x for x in data[:-1] if isinstance(x, bytes)], data[-1] if isinstance(data[-1], bytes) else b''


def run(tier, seed, opens):
    from bitcoinlib.wallets import Wallet
    from bitcoinlib.keys import HDKey
    t0 = time.time()
    import random as _random
    _random.seed(1010 + seed)           # the library itself draws from the global generator (output order, number of change outputs)
    listed = {o.get('id') for o in opens}
    tmp = tempfile.mkdtemp(prefix='c10-', dir=os.environ.get('BCL_DATA_DIR'))
    db = 'sqlite:///' + os.path.join(tmp, 'w.sqlite')
    net = 'bitcoinlib_test'
    import random
    rng = random.Random(1010 + seed)
    configs = [(2, 3), (2, 2)] if tier == 'quick' else [(2, 3), (2, 2), (1, 2), (3, 3), (3, 4)]
    cases = ok = 0
    failed, known = [], {}

    def fail(what, inp, observed, expected, pid=None):
        if pid is not None and pid in listed:
            known.setdefault(pid, [])
            if len(known[pid]) < 2:
                known[pid].append({'input': inp, 'observed': observed, 'expected': expected, 'confirmed': True,
                                   'obligation': 'multisig-handoff#bounded', 'what': what})
            return
        if len(failed) < 6:
            failed.append({'input': inp, 'observed': observed, 'expected': expected, 'confirmed': True,
                           'obligation': 'multisig-handoff#bounded', 'what': what})

    def handoff(t, w, rep):
        if rep == 'object':
            return w.transaction_import(t)
        if rep == 'dict':
            return w.transaction_import(t.as_dict())
        return w.transaction_import_raw(t.raw_hex())

    try:
        wn = 0
        for (m, n) in configs:
            for wt in ('legacy', 'p2sh-segwit', 'segwit'):
                keys = [HDKey.from_seed(bytes(rng.getrandbits(8) for _ in range(32)), network=net, witness_type=wt) for _ in range(n)]
                dest = HDKey.from_seed(bytes(rng.getrandbits(8) for _ in range(32)), network=net, witness_type=wt).address()
                wallets = []
                for i in range(n):
                    kl = [keys[j] if j == i else keys[j].public_master(multisig=True) for j in range(n)]
                    w = Wallet.create('c10-%d' % wn, kl, sigs_required=m, network=net, sort_keys=True, cosigner_id=0, witness_type=wt, db_uri=db)
                    wn += 1
                    w.new_key()
                    w.utxos_update()
                    wallets.append(w)
                cases += 1
                addrs = {w.addresslist()[0] if w.addresslist() else None for w in wallets}
                if len(addrs) != 1:
                    fail('cosigners derive different addresses', {'m': m, 'n': n, 'witness_type': wt}, sorted(map(str, addrs)), 'one address')
                else:
                    ok += 1
                # the dictionary hand-off carries signatures as 64-byte r||s strings: none may be lost on import, whatever its bytes look like
                # (an r that starts with 0x30 looks like the first byte of a DER signature)
                cases += 1
                try:
                    w0 = wallets[0]
                    u = w0.utxos()[0]
                    t = w0.transaction_create([(dest, u['value'] - 50000)], [(u['txid'], u['output_n'], u['key_id'], u['value'])], fee=50000)
                    t.sign()
                    d = t.as_dict()
                    crafted = '30' + '11' * 31 + '00' * 31 + '01'
                    d['inputs'][0]['signatures'] = [crafted]
                    t2 = wallets[1 % n].transaction_import(d)
                    got = [sg.hex() if hasattr(sg, 'hex') else str(sg) for sg in t2.inputs[0].signatures]
                    if len(got) != 1 or got[0][:128] != crafted:
                        fail('dict hand-off of a signature whose r starts with 0x30', {'m': m, 'n': n, 'witness_type': wt, 'signature': crafted},
                             'imported input holds %d signature(s): %s' % (len(got), [g[:16] for g in got]), 'the one signature that was handed over')
                    else:
                        ok += 1
                except Exception as e:
                    fail('dict hand-off of a signature whose r starts with 0x30', {'m': m, 'n': n, 'witness_type': wt},
                         'raised %s: %s' % (type(e).__name__, str(e)[:160]), 'no exception')
                for order in itertools.permutations(range(n), m):
                    for rep in ('object', 'dict', 'raw'):
                        cases += 1
                        # the creator's lock time (0 = the library's default; a block height; a time stamp) is part of what every cosigner signs
                        lt = (0, 650000, 1700000000)[cases % 3]
                        rbf = (cases // 3) % 2 == 1          # the creator's sequence numbers (opt-in replace-by-fee: fffffffd) are signed as well
                        scen = {'m': m, 'n': n, 'witness_type': wt, 'signing_order': list(order), 'handoff': rep, 'locktime': lt, 'replace_by_fee': rbf}
                        try:
                            w0 = wallets[order[0]]
                            u = w0.utxos()[0]
                            t = w0.transaction_create([(dest, u['value'] - 50000)], [(u['txid'], u['output_n'], u['key_id'], u['value'])], fee=50000,
                                                      **dict({'locktime': lt} if lt else {}, **({'replace_by_fee': True} if rbf else {})))
                            t.sign()
                            lt_created = t.locktime
                            seq_created = [i.sequence for i in t.inputs]
                            problems = []
                            too_early = False
                            carried = True
                            for step, wi in enumerate(order[1:], start=1):
                                if t.verify():
                                    too_early = True
                                    problems.append('verifies with only %d of %d signers' % (step, m))
                                before = [len(i.signatures) for i in t.inputs]
                                t = handoff(t, wallets[wi], rep)
                                if t.locktime != lt_created:
                                    problems.append('lock time %d became %d on import' % (lt_created, t.locktime))
                                if [i.sequence for i in t.inputs] != seq_created:
                                    problems.append('sequence numbers %s became %s on import' % (['%x' % q for q in seq_created], ['%x' % i.sequence for i in t.inputs]))
                                if [len(i.signatures) for i in t.inputs] != before:
                                    carried = False
                                if t.verify():
                                    too_early = True
                                    problems.append('verifies after import with only %d of %d signers' % (step, m))
                                t.sign()
                            for inp in t.inputs:
                                digest = t.signature_hash(inp.index_n, witness_type=inp.witness_type)
                                sigs, redeem = unlocking_items(inp)
                                good, why = checkmultisig(digest, sigs, redeem)
                                if not good:
                                    problems.append('input %d: unlocking data does not satisfy CHECKMULTISIG (%s)' % (inp.index_n, why))
                            if not t.verify():
                                problems.append('Transaction.verify() is False after %d distinct cosigners signed' % m)
                            if problems:
                                # pinned: the raw serialisation of a partially signed multisig input carries no signatures at all
                                pid = 'F-C10-raw-handoff-drops-signatures' if (rep == 'raw' and not carried and not too_early) else None
                                fail('multisig hand-off', scen, '; '.join(problems), 'spend signed by m distinct cosigners verifies', pid)
                            else:
                                ok += 1
                        except Exception as e:
                            fail('multisig hand-off raised', scen, '%s: %s' % (type(e).__name__, str(e)[:200]), 'no exception')
                for w in wallets:
                    w.session.close()
    finally:
        shutil.rmtree(tmp, ignore_errors=True)
    res = {'contract': 'multisig-handoff[bounded]', 'target': 'Wallet.transaction_import / WalletTransaction.sign / Transaction.sign / Input.update_scripts',
           'status': 'ok', 'bounded': 'm-of-n in %s x 3 witness types x every ordered choice of m signers x hand-off as object / dict / raw hex' % (configs,),
           'paths': cases, 'obligations': [{'name': 'multisig-handoff#bounded', 'kind': 'bounded', 'paths': cases, 'discharged': ok, 'failed': failed,
                                            'unknown': 0, 'secs': 0.0, 'solvers': {'native': cases}, 'known': known}],
           'notes': [], 'wall_s': time.time() - t0, 'fuzz': {'runs': 0, 'failures': []}, 'props': ['C10']}
    return res
