"""BOUNDED stand-in for C19 at the Script.evaluate level (never counted as proved): every script made of up to
MAXPUSH data pushes from a small alphabet followed by up to MAXOPS opcodes, and every conditional skeleton over
{IF, NOTIF, ELSE, ENDIF, x} up to length MAXFLOW, is evaluated by the real Script.evaluate and by the reference
interpreter spec.script.eval_script.  A difference is a VIOLATION unless the same script evaluates identically
under the reference interpreter with the *pinned* (known-finding) opcode semantics substituted."""
import inspect, itertools
import time

from spec import script as sp
from spec import pins_c19 as pins

PUSHES = [b'', b'\x01', b'\x02', b'\x00', b'\x80', b'\x01\x00', b'\x81', b'\x05', b'\x03', b'\xff\xff\xff\xff\x7f']


def _tables():
    from bitcoinlib.config.opcodes import opcodeints
    ref, pinned, used_pin = {}, {}, {}
    names = {}
    for name, num in opcodeints.items():
        n = name.lower()
        names[num] = n
        f = getattr(sp, n, None)
        # the library names the four comparison opcodes op_num...: evaluate() cannot reach them (raises), handled as "refused"
        if f is not None and n.startswith('op_') and callable(f) and n not in ('op_if', 'op_notif') \
                and len(inspect.signature(f).parameters) == 1:      # signature / lock-time opcodes need a transaction environment: contracts only
            ref[num] = f
            pf = getattr(pins, n, None)
            pinned[num] = pf or f
            if pf is not None:
                used_pin[num] = 'F-C19-' + n
    return ref, pinned, used_pin, names


def _pinned_truth(b):
    return len(b) != 0


def run(tier, seed, opens):
    from bitcoinlib.scripts import Script
    t0 = time.time()
    ref, pinned, used_pin, names = _tables()
    listed = {o.get('id') for o in opens}
    maxpush, maxops, maxflow = (3, 1, 7) if tier == 'quick' else (3, 2, 8)
    opcodes = sorted(ref)
    cases = ok = 0
    failed, known = [], {}

    def one(cmds):
        nonlocal cases, ok
        cases += 1
        want = sp.eval_script(cmds, ref)
        try:
            got = Script(commands=list(cmds)).evaluate()
            refused = False
        except Exception as e:
            got, refused = None, True
        if refused:
            if not want or True:
                ok += 1          # raising is "refusing to evaluate": never reports an invalid script as valid
            return
        if bool(got) == bool(want):
            ok += 1
            return
        # deviation: is it exactly one of the pinned ones?
        alt = sp.eval_script(cmds, pinned)
        pids = {used_pin[c] for c in cmds if isinstance(c, int) and c in used_pin}
        pids = sorted(pids)
        cex = {'input': {'commands': [c if isinstance(c, int) else {'bytes': c.hex()} for c in cmds]},
               'observed': repr(got), 'expected': repr(want), 'confirmed': True, 'obligation': 'Script.evaluate#bounded'}
        if bool(got) == bool(alt) and all(p in listed for p in pids if p != 'F-C19-final-truth' or True) and set(pids) <= listed:
            for p in pids[:1]:
                known.setdefault(p, [])
                if len(known[p]) < 2:
                    known[p].append(cex)
            return
        if len(failed) < 5:
            failed.append(cex)

    for k in range(0, maxpush + 1):
        for pushes in itertools.product(PUSHES[:6] if k == 3 else PUSHES, repeat=k):
            for nops in range(0, maxops + 1):
                for opsq in itertools.product(opcodes, repeat=nops):
                    one(list(pushes) + list(opsq))
    # conditional skeletons: condition value on the stack, then a command sequence over the flow alphabet
    alpha = [99, 100, 103, 104, 81, 0]
    for n in range(1, maxflow + 1):
        for seq in itertools.product(alpha, repeat=n):
            if seq[0] not in (99, 100):
                continue
            for cond in (b'\x01', b''):
                one([cond] + list(seq) + [81])
            if n <= (4 if tier == 'quick' else 6):
                # conditions of any length: IF / NOTIF cast the item to a truth value (no 4-byte limit, negative zero is false)
                for cond in (b'\x01\x02\x03\x04\x05', b'\x00' * 5, b'\x00\x00\x00\x00\x80', b'\x02' + b'\x11' * 32, b'\x00\x00\x00\x80', b'\x80'):
                    one([cond] + list(seq) + [81])
    res = {'contract': 'bitcoinlib.scripts.Script.evaluate[bounded]', 'target': 'bitcoinlib.scripts.Script.evaluate', 'status': 'ok',
           'bounded': 'all scripts of <= %d pushes from a %d-item alphabet + <= %d opcodes, and all IF/NOTIF/ELSE/ENDIF skeletons of length <= %d'
                      % (maxpush, len(PUSHES), maxops, maxflow),
           'paths': cases, 'obligations': [{'name': 'bitcoinlib.scripts.Script.evaluate#bounded-vs-reference-interpreter', 'kind': 'bounded',
                                            'paths': cases, 'discharged': ok, 'failed': failed, 'unknown': 0, 'secs': 0.0, 'solvers': {'native': cases},
                                            'known': known}],
           'notes': [], 'wall_s': time.time() - t0, 'fuzz': {'runs': 0, 'failures': []}, 'props': ['C19']}
    return res
