"""BOUNDED stand-in for the history part of C09 (never counted as proved; index bookkeeping is SQL / ORM code outside the verifier):
single-signature HD wallets for every witness type on three networks are driven through random sequences of new_key / new_key_change /
get_key(s) / key_for_path (also out of order) / new_account / reopen.  Oracle, independent of the wallet code: BIP32 private derivation with
spec/bip32.py + spec/ec.py (real HMAC-SHA512, pure-Python secp256k1) from the master seed, address encodings from spec/base58.py /
spec/bech32.py, and the network constants below (written out here, not read from networks.json).

Checked after every step: the key's path is m/purpose'/coin'/account'/change/index for the wallet's witness type and network; its address and
public key are what the oracle derives for that path; new_key / new_key_change return a key that was not in the wallet before, at the lowest
index above every index issued on that branch (sequential branches: exactly the count); no two keys of the wallet share an address; a wallet
recreated from the same seed, and a watch-only wallet from the account public key, give the same addresses for the same paths."""
import hashlib
import hmac
import os
import random
import shutil
import tempfile
import time

from spec import ec, base58, bech32

NETS = {'bitcoin': dict(coin=0, p2pkh=0x00, p2sh=0x05, hrp='bc'), 'testnet': dict(coin=1, p2pkh=0x6f, p2sh=0xc4, hrp='tb'),
        'litecoin': dict(coin=2, p2pkh=0x30, p2sh=0x32, hrp='ltc')}
PURPOSE = {'legacy': 44, 'p2sh-segwit': 49, 'segwit': 84}


def _ser_p(pt):
    return bytes([2 + (pt[1] & 1)]) + pt[0].to_bytes(32, 'big')


def _h160(b):
    return hashlib.new('ripemd160', hashlib.sha256(b).digest()).digest()


def master(seed):
    i = hmac.new(b'Bitcoin seed', seed, hashlib.sha512).digest()
    return int.from_bytes(i[:32], 'big'), i[32:]


def ckd(k, c, i):
    if i >= 0x80000000:
        data = b'\x00' + k.to_bytes(32, 'big') + i.to_bytes(4, 'big')
    else:
        data = _ser_p(ec.mul_g(k)) + i.to_bytes(4, 'big')
    d = hmac.new(c, data, hashlib.sha512).digest()
    return (int.from_bytes(d[:32], 'big') + k) % ec.N, d[32:]


_cache = {}


def derive(seed, path):
    key = (seed, tuple(path))
    if key not in _cache:
        if not path:
            _cache[key] = master(seed)
        else:
            k, c = derive(seed, path[:-1])
            _cache[key] = ckd(k, c, path[-1])
    return _cache[key]


def address(pub, wt, net):
    n = NETS[net]
    if wt == 'legacy':
        return base58.check_encode(bytes([n['p2pkh']]) + _h160(pub))
    if wt == 'p2sh-segwit':
        return base58.check_encode(bytes([n['p2sh']]) + _h160(b'\x00\x14' + _h160(pub)))
    return bech32.encode(n['hrp'], 0, _h160(pub))


def run(tier, seed, opens):
    from bitcoinlib.wallets import Wallet
    from bitcoinlib.keys import HDKey
    t0 = time.time()
    import random as _random
    _random.seed(909 + seed)           # the library itself draws from the global generator (output order, number of change outputs)
    rng = random.Random(909 + seed)
    tmp = tempfile.mkdtemp(prefix='c09-', dir=os.environ.get('BCL_DATA_DIR'))
    cases = ok = 0
    failed, known = [], {}
    n_wallets = 9 if tier == 'quick' else 45
    n_steps = 14 if tier == 'quick' else 40

    def fail(what, inp, observed, expected):
        if len(failed) < 6:
            failed.append({'input': inp, 'observed': observed, 'expected': expected, 'confirmed': True, 'obligation': 'wallet-keys#bounded', 'what': what})

    try:
        for wn in range(n_wallets):
            wt = ['segwit', 'legacy', 'p2sh-segwit'][wn % 3]
            net = ['bitcoin', 'testnet', 'litecoin'][(wn // 3) % 3]
            sd = bytes(rng.getrandbits(8) for _ in range(32))
            db = 'sqlite:///' + os.path.join(tmp, 'w%d.sqlite' % wn)
            name = 'c09-%d' % wn
            w = Wallet.create(name, keys=HDKey.from_seed(sd, network=net, witness_type=wt), network=net, witness_type=wt, db_uri=db)
            coin, purpose = NETS[net]['coin'], PURPOSE[wt]
            H = 0x80000000
            history = []
            issued = {}                 # (account, change) -> set of indices present in the wallet
            sequential = {}             # (account, change) -> True while only new_key-style calls touched the branch
            accounts = {0}
            for x in w.keys(depth=5):                      # Wallet.create already issues the first receiving (and possibly change) key
                pp = x.path.split('/')
                issued.setdefault((int(pp[3].rstrip("'")), int(pp[4]), wt), set()).add(int(pp[5]))

            def check_key(k, what, acc=None, change=None, idx=None, rw=None):
                nonlocal cases, ok
                cases += 1
                scen = {'wallet': {'witness_type': wt, 'network': net, 'seed': sd.hex()}, 'history': list(history)}
                parts = k.path.split('/')
                kw = rw or {v: t for t, v in PURPOSE.items()}.get(int(parts[1].rstrip("'")) if len(parts) > 1 and parts[1].rstrip("'").isdigit() else -1, wt)
                kpurpose = PURPOSE[kw]
                try:
                    p_acc, p_change, p_idx = int(parts[3].rstrip("'")), int(parts[4]), int(parts[5])
                except Exception:
                    fail(what, scen, 'path %r' % k.path, "m/%d'/%d'/a'/c/i" % (kpurpose, coin))
                    return None
                want_prefix = "m/%d'/%d'/%d'" % (kpurpose, coin, p_acc)
                problems = []
                if not k.path.startswith(want_prefix + '/') or len(parts) != 6:
                    problems.append('path %s does not follow %s/change/index' % (k.path, want_prefix))
                if acc is not None and (p_acc, p_change) != (acc, change):
                    problems.append('path %s is not on branch account %d change %d' % (k.path, acc, change))
                if idx is not None and p_idx != idx:
                    problems.append('index %d handed out, expected %d' % (p_idx, idx))
                sk, _ = derive(sd, [kpurpose + H, coin + H, p_acc + H, p_change, p_idx])
                pub = _ser_p(ec.mul_g(sk))
                if k.address != address(pub, kw, net):
                    problems.append('address %s is not the BIP32 derivation for %s as %s (%s)' % (k.address, k.path, kw, address(pub, kw, net)))
                if problems:
                    fail(what, scen, '; '.join(problems), 'key at the documented path with the BIP32-derived address')
                else:
                    ok += 1
                return p_acc, p_change, p_idx

            # scripted histories first (the same for every wallet), then random ones
            script = [('key_for_path', 0, 0, 2), ('key_for_path', 0, 0, 1), ('new_key', 0), ('new_key', 0), ('new_keys3', 0), ('new_key', 0), ('get_keys', 0), ('new_account',),
                      ('new_key', 0), ('set_default_account', 1), ('new_key', 0), ('new_key_change', 0), ('get_key', 0), ('key_for_path', 0, 1, 3),
                      ('key_for_path', 0, 1, 1), ('reopen',), ('new_key_change', 0), ('new_key', 1), ('set_default_account', 0),
                      ('full_path', 1, 0, 3), ('new_key', 1), ('new_key', 0), ('get_keys_change', 0), ('get_key_change', 1), ('get_keys_change', 1),
                      ('get_keys', 0, 'other'), ('new_key', 0, 'other'), ('new_key', 0, 'other'), ('new_key_change', 0, 'other'), ('reopen',), ('new_key', 0, 'other')]
            for step in range(len(script) + n_steps):
                forced = script[step] if step < len(script) else None
                op = forced[0] if forced else rng.choice(['new_key', 'new_key', 'new_key_change', 'get_key', 'get_keys', 'get_key_change', 'get_keys_change', 'key_for_path', 'key_for_path', 'new_account', 'reopen', 'new_keys3', 'full_path'])
                acc = forced[1] if forced and len(forced) > 1 else rng.choice(sorted(accounts))
                others = [t for t in ('legacy', 'p2sh-segwit', 'segwit') if t != wt]
                if forced:
                    rw = others[wn % 2] if forced[-1] == 'other' else wt
                else:
                    rw = wt if rng.random() < 0.7 else rng.choice(others)
                tag = '' if rw == wt else ', witness_type=%s' % rw
                try:
                    if op in ('new_key', 'new_key_change'):
                        change = 1 if op == 'new_key_change' else 0
                        before = {x.address for x in w.keys(depth=5)}
                        k = w.new_key(account_id=acc, change=change, witness_type=rw) if change == 0 else w.new_key_change(account_id=acc, witness_type=rw)
                        history.append('%s(account=%d%s)' % (op, acc, tag))
                        have = issued.setdefault((acc, change, rw), set())
                        expect = (max(have) + 1) if have else 0
                        r = check_key(k, op, acc, change, expect, rw)
                        cases += 1
                        if k.address in before:
                            fail(op, {'wallet': {'witness_type': wt, 'network': net, 'seed': sd.hex()}, 'history': list(history)},
                                 'returned the existing key %s (%s)' % (k.path, k.address), 'a new key')
                        else:
                            ok += 1
                        if r:
                            have.add(r[2])
                    elif op == 'new_keys3':
                        # bulk creation: three new consecutive indices in one call
                        before = {x.address for x in w.keys(depth=5)}
                        ks = w.new_keys(account_id=acc, number_of_keys=3, witness_type=rw)
                        history.append('new_keys(account=%d, number_of_keys=3%s)' % (acc, tag))
                        have = issued.setdefault((acc, 0, rw), set())
                        for k in ks:
                            expect = (max(have) + 1) if have else 0
                            r = check_key(k, op, acc, 0, expect, rw)
                            cases += 1
                            if k.address in before:
                                fail(op, {'wallet': {'witness_type': wt, 'network': net, 'seed': sd.hex()}, 'history': list(history)},
                                     'returned the existing key %s' % k.path, 'new keys')
                            else:
                                ok += 1
                            if r:
                                have.add(r[2])
                    elif op in ('get_key', 'get_keys', 'get_key_change', 'get_keys_change'):
                        chg = 1 if op.endswith('change') else 0
                        if op == 'get_key':
                            ks = [w.get_key(account_id=acc, witness_type=rw)]
                        elif op == 'get_keys':
                            ks = w.get_keys(account_id=acc, number_of_keys=3, witness_type=rw)
                        elif op == 'get_key_change':
                            ks = [w.get_key_change(account_id=acc, witness_type=rw)]
                        else:
                            ks = w.get_keys_change(account_id=acc, number_of_keys=3, witness_type=rw)
                        history.append('%s(account=%d%s)' % (op, acc, tag))
                        got_idx = []
                        for k in ks:
                            r = check_key(k, op, acc, chg, None, rw)
                            if r:
                                issued.setdefault((acc, chg, rw), set()).add(r[2])
                                got_idx.append(r[2])
                        if len(ks) > 1:
                            # several unused keys asked for in one call: that many DIFFERENT keys, none handed out twice
                            cases += 1
                            if len(ks) != 3 or len({k.address for k in ks}) != len(ks) or len(set(got_idx)) != len(got_idx):
                                fail(op, {'wallet': {'witness_type': wt, 'network': net, 'seed': sd.hex()}, 'history': list(history)},
                                     '%d keys with address indices %s' % (len(ks), got_idx), '3 different keys')
                            else:
                                ok += 1
                    elif op == 'key_for_path':
                        change, idx = (forced[2], forced[3]) if forced else (rng.choice([0, 1]), rng.randrange(0, 7))
                        k = w.key_for_path([change, idx], account_id=acc, witness_type=rw)
                        history.append('key_for_path([%d, %d], account=%d%s)' % (change, idx, acc, tag))
                        r = check_key(k, op, acc, change, idx, rw)
                        if r:
                            issued.setdefault((acc, change, rw), set()).add(idx)
                    elif op == 'full_path':
                        # the complete path is given as text, without an account_id argument: the key belongs to the account its path names
                        change, idx = (forced[2], forced[3]) if forced else (rng.choice([0, 1]), rng.randrange(0, 7))
                        full = "m/%d'/%d'/%d'/%d/%d" % (PURPOSE[wt], coin, acc, change, idx)
                        k = w.key_for_path(full)
                        history.append('key_for_path(%r)' % full)
                        r = check_key(k, op, acc, change, idx, wt)
                        cases += 1
                        if getattr(k, 'account_id', acc) != acc:
                            fail(op, {'wallet': {'witness_type': wt, 'network': net, 'seed': sd.hex()}, 'history': list(history)},
                                 'key %s is filed under account %r' % (k.path, getattr(k, 'account_id', None)), 'account %d' % acc)
                        else:
                            ok += 1
                        if r:
                            issued.setdefault((acc, change, wt), set()).add(idx)
                    elif op == 'set_default_account':
                        w.default_account_id = acc
                        history.append('default_account_id = %d' % acc)
                    elif op == 'new_account':
                        if len(accounts) < 3:
                            a = w.new_account()
                            history.append('new_account()')
                            accounts.add(a.account_id)
                            # new_account creates the first receiving and change key of the account
                            for x in w.keys(account_id=a.account_id, depth=5):
                                parts = x.path.split('/')
                                issued.setdefault((a.account_id, int(parts[4]), wt), set()).add(int(parts[5]))
                    else:
                        w.session.close()
                        w = Wallet(name, db_uri=db)
                        history.append('reopen')
                except Exception as e:
                    cases += 1
                    fail(op, {'wallet': {'witness_type': wt, 'network': net, 'seed': sd.hex()}, 'history': list(history) + [op]},
                         'raised %s: %s' % (type(e).__name__, str(e)[:160]), 'no exception')
            # the wallet's own first keys (created by Wallet.create) and global checks
            allk = w.keys(depth=5)
            cases += 1
            addrs = [x.address for x in allk]
            if len(set(addrs)) != len(addrs):
                fail('distinct addresses', {'wallet': {'witness_type': wt, 'network': net, 'seed': sd.hex()}, 'history': list(history)},
                     'two keys of the wallet share an address', 'all distinct')
            else:
                ok += 1
            for x in allk:
                check_key(x, 'wallet key list')
            # recreate from the same seed / watch-only from the account public key
            if wn % 3 == 0:
                cases += 1
                try:
                    w2 = Wallet.create(name + '-re', keys=HDKey.from_seed(sd, network=net, witness_type=wt), network=net, witness_type=wt,
                                       db_uri='sqlite:///' + os.path.join(tmp, 'w%d-re.sqlite' % wn))
                    pm = w.public_master(account_id=0)
                    w3 = Wallet.create(name + '-pub', keys=pm.key().wif_public(), network=net, witness_type=wt,
                                       db_uri='sqlite:///' + os.path.join(tmp, 'w%d-pub.sqlite' % wn))
                    bad = []
                    for ch in (0, 1):
                        for i in range(4):
                            sk, _ = derive(sd, [purpose + H, coin + H, H, ch, i])
                            want = address(_ser_p(ec.mul_g(sk)), wt, net)
                            a2 = w2.key_for_path([ch, i]).address
                            a3 = w3.key_for_path([ch, i]).address
                            if a2 != want or a3 != want:
                                bad.append((ch, i, a2, a3, want))
                    if bad:
                        fail('restore', {'wallet': {'witness_type': wt, 'network': net, 'seed': sd.hex()}}, repr(bad[:2]), 'same addresses after restore / watch-only')
                    else:
                        ok += 1
                    w2.session.close()
                    w3.session.close()
                except Exception as e:
                    fail('restore', {'wallet': {'witness_type': wt, 'network': net, 'seed': sd.hex()}}, 'raised %s: %s' % (type(e).__name__, str(e)[:160]), 'no exception')
            w.session.close()
        # wallets created from a mnemonic sentence and from an extended private key: same addresses as BIP39 -> BIP32 derivation gives
        from spec import bip39 as _bip39
        from bitcoinlib.mnemonic import Mnemonic
        for j, (wt, net) in enumerate((('segwit', 'bitcoin'), ('legacy', 'testnet'), ('p2sh-segwit', 'litecoin'))):
            cases += 1
            try:
                ent = bytes(rng.getrandbits(8) for _ in range(16))
                words = Mnemonic().to_mnemonic(ent)
                sd2 = _bip39.seed(words, '')
                wm = Wallet.create('c09-mn-%d' % j, keys=words, network=net, witness_type=wt, db_uri='sqlite:///' + os.path.join(tmp, 'mn%d.sqlite' % j))
                xprv = HDKey.from_seed(sd2, network=net, witness_type=wt).wif_private()
                wx = Wallet.create('c09-xp-%d' % j, keys=xprv, network=net, witness_type=wt, db_uri='sqlite:///' + os.path.join(tmp, 'xp%d.sqlite' % j))
                coin, purpose, H = NETS[net]['coin'], PURPOSE[wt], 0x80000000
                bad = []
                for ch in (0, 1):
                    for i in range(3):
                        sk, _ = derive(sd2, [purpose + H, coin + H, H, ch, i])
                        want = address(_ser_p(ec.mul_g(sk)), wt, net)
                        got = (wm.key_for_path([ch, i]).address, wx.key_for_path([ch, i]).address)
                        if got != (want, want):
                            bad.append((ch, i, got, want))
                if bad:
                    fail('restore from mnemonic / extended key', {'witness_type': wt, 'network': net, 'mnemonic': words}, repr(bad[:2]), 'BIP39 + BIP32 addresses')
                else:
                    ok += 1
                wm.session.close()
                wx.session.close()
            except Exception as e:
                fail('restore from mnemonic / extended key', {'witness_type': wt, 'network': net}, 'raised %s: %s' % (type(e).__name__, str(e)[:160]), 'no exception')
    finally:
        shutil.rmtree(tmp, ignore_errors=True)
    res = {'contract': 'wallet-keys[bounded]', 'target': 'Wallet.new_key(s) / new_key_change / get_key(s) / key_for_path / new_account / create',
           'status': 'ok', 'bounded': '%d wallets (3 witness types x 3 networks) x %d random steps each, restore + watch-only for every third wallet' % (n_wallets, n_steps),
           'paths': cases, 'obligations': [{'name': 'wallet-keys#bounded', 'kind': 'bounded', 'paths': cases, 'discharged': ok, 'failed': failed,
                                            'unknown': 0, 'secs': 0.0, 'solvers': {'native': cases}, 'known': known}],
           'notes': [], 'wall_s': time.time() - t0, 'fuzz': {'runs': 0, 'failures': []}, 'props': ['C09']}
    return res
