"""C16, wallet level - BOUNDED native stand-in (never counted as proved).

The deductive part of C16 covers Key.public / HDKey.public / HDKey.wif(public export).  The views of WalletKey, Wallet and wallet
transactions go through SQLAlchemy and cannot be brought within the verifier's reach; here they are driven natively.

Oracle (independent of the library): the private scalars of a wallet are derived from its seed with the BIP32 oracle of bounded/c09_wallet
(HMAC-SHA512 + spec.ec) along the path text of every key row; the private values the library itself stored are added to that set.  A view
"contains private key material" when one of those scalars occurs in it in ANY of these forms: the 32 raw bytes (big or little endian, so
pickled integers are found too), an integer leaf equal to the scalar, a decimal or hexadecimal text of it, or a base58 / hex token whose
decoded bytes contain the raw scalar (that is every WIF and every extended private key, whatever the prefix and the network).

Views checked for every wallet: as_dict(), as_json(), repr, info(detail 0..5), keys(as_dict=True) under every single search filter,
wif(is_private=False), public_master() (text, dictionary, every attribute of the key object, its pickle), every wallet key's as_dict(), repr,
key().public() and WalletKey.public(), address lists, transactions as dictionaries / JSON / repr / info / export.  Then a watch-only wallet
is created from the public master export in a database of its own: every view of it INCLUDING the include_private ones, and the bytes of its
database file, must be free of the scalars.  Finally, in a child process with DB_FIELD_ENCRYPTION_KEY set, the database file of a private
wallet must not contain a scalar or a private WIF in plaintext.

Bound: 3 witness types x 3 networks HD wallets + single-key wallets + 2-of-3 multisig wallets + bitcoinlib_test wallets with a signed
transaction; a handful of keys per wallet."""
import contextlib
import io
import json
import os
import pickle
import random
import re
import shutil
import subprocess
import sys
import tempfile
import time

from spec import base58 as sbase58
from bounded.c09_wallet import derive

B58 = '123456789ABCDEFGHJKLMNPQRSTUVWXYZabcdefghijkmnopqrstuvwxyz'
_B58TOK = re.compile('[' + B58 + ']{40,}')
_HEXTOK = re.compile('[0-9a-fA-F]{64,}')
_DECTOK = re.compile('[0-9]{60,80}')


def _b58raw(s):
    n = 0
    for ch in s:
        n = n * 58 + B58.index(ch)
    pad = len(s) - len(s.lstrip('1'))
    return b'\x00' * pad + n.to_bytes((n.bit_length() + 7) // 8, 'big')


class Secrets:
    def __init__(self):
        self.be = {}

    def add(self, k, where):
        if isinstance(k, (bytes, bytearray)):
            k = int.from_bytes(bytes(k)[-32:], 'big')
        if k:
            self.be.setdefault(k.to_bytes(32, 'big'), where)

    def in_bytes(self, b):
        for i in range(len(b) - 31):
            w = b[i:i + 32]
            if w in self.be:
                return self.be[w], 'raw bytes'
            if w[::-1] in self.be:
                return self.be[w[::-1]], 'raw bytes, little endian'
        return None

    def in_text(self, s):
        for m in _HEXTOK.finditer(s):
            h = m.group(0)
            for off in (0, 1):
                hh = h[off:]
                hh = hh[:len(hh) // 2 * 2]
                r = self.in_bytes(bytes.fromhex(hh))
                if r:
                    return r[0], 'hexadecimal text'
        for m in _DECTOK.finditer(s):
            v = int(m.group(0))
            if v < 2 ** 256 and v.to_bytes(32, 'big') in self.be:
                return self.be[v.to_bytes(32, 'big')], 'decimal text'
        for m in _B58TOK.finditer(s):
            r = self.in_bytes(_b58raw(m.group(0)))
            if r:
                return r[0], 'base58 text (WIF / extended private key)'
        return None

    def scan(self, obj, deep=False, _seen=None, _path=''):
        """first occurrence of a scalar in obj: (path, which key, form) or None"""
        if _seen is None:
            _seen = set()
        if obj is None or isinstance(obj, (bool, float)):
            return None
        if isinstance(obj, int):
            if 0 < obj < 2 ** 256 and obj.to_bytes(32, 'big') in self.be:
                return _path, self.be[obj.to_bytes(32, 'big')], 'integer'
            return None
        if isinstance(obj, str):
            r = self.in_text(obj)
            return (_path, r[0], r[1]) if r else None
        if isinstance(obj, (bytes, bytearray)):
            b = bytes(obj)
            r = self.in_bytes(b) or self.in_text(b.decode('latin-1'))
            return (_path, r[0], r[1]) if r else None
        if id(obj) in _seen:
            return None
        _seen.add(id(obj))
        if isinstance(obj, dict):
            for k, v in obj.items():
                r = self.scan(k, deep, _seen, _path + '.<key>') or self.scan(v, deep, _seen, '%s[%r]' % (_path, k))
                if r:
                    return r
            return None
        if isinstance(obj, (list, tuple, set, frozenset)):
            for i, v in enumerate(obj):
                r = self.scan(v, deep, _seen, '%s[%d]' % (_path, i))
                if r:
                    return r
            return None
        if deep and hasattr(obj, '__dict__') and not type(obj).__module__.startswith('sqlalchemy'):
            for k, v in vars(obj).items():
                if type(v).__module__.startswith(('sqlalchemy', 'bitcoinlib.wallets', 'bitcoinlib.db')) and not isinstance(v, (list, dict)):
                    continue
                r = self.scan(v, deep, _seen, '%s.%s' % (_path, k))
                if r:
                    return r
        return None


class _Repr(str):
    """a repr together with the one field of it a recorded finding is about"""
    field = None
    pid = None


def _repr_with_wif(obj, pid):
    r = _Repr(repr(obj))
    w = getattr(obj, 'wif', None)
    r.field = ('wif=%s' % w) if isinstance(w, str) and w and ('wif=%s' % w) in r else (("wif='%s'" % w) if isinstance(w, str) and w and ("wif='%s'" % w) in r else None)
    r.pid = pid
    return r


def _printed(fn, *a, **kw):
    buf = io.StringIO()
    with contextlib.redirect_stdout(buf):
        fn(*a, **kw)
    return buf.getvalue()


def _path_ints(path):
    out = []
    for p in path.split('/'):
        if p in ('m', 'M', ''):
            continue
        hard = p[-1] in "'hHpP"
        out.append(int(p.rstrip("'hHpP")) + (0x80000000 if hard else 0))
    return out


def collect_secrets(w, seeds, sec):
    """private scalars of every key row: oracle derivation along the row's path + what the library stored"""
    from bitcoinlib.db import DbKey
    wallets = [w] + list(getattr(w, 'cosigner', []) or [])
    for cw in wallets:
        sd = seeds.get(cw.wallet_id) or seeds.get(cw.name)
        for row in cw.session.query(DbKey).filter_by(wallet_id=cw.wallet_id).all():
            if row.private:
                sec.add(bytes(row.private), 'key %s of wallet %s (stored)' % (row.path, cw.name))
            if sd is not None and row.path and row.path.startswith('m'):
                try:
                    sec.add(derive(sd, _path_ints(row.path))[0], 'key %s of wallet %s' % (row.path, cw.name))
                except Exception:
                    pass
    return sec


KEY_FILTERS = [{}, {'is_private': True}, {'is_private': False}, {'depth': 0}, {'depth': 3}, {'depth': 5}, {'used': False}, {'used': True}, {'change': 0},
               {'change': 1}, {'account_id': 0}, {'is_active': True}, {'is_active': False}, {'has_balance': False}, {'has_balance': True},
               {'is_private': True, 'depth': 0}, {'is_private': True, 'used': False}]


def public_views(w, watch_only=False):
    """(description, thunk, deep) for everything the wallet presents as public"""
    inc = [False] + ([True] if watch_only else [])
    for ip in inc:
        kw = {'include_private': True} if ip else {}
        tag = 'include_private=True' if ip else ''
        yield 'Wallet.as_dict(%s)' % tag, (lambda kw=kw: w.as_dict(**kw)), False
        yield 'Wallet.as_json(%s)' % tag, (lambda kw=kw: w.as_json(**kw)), False
        for f in KEY_FILTERS:
            f2 = dict(f, **kw)
            yield 'Wallet.keys(as_dict=True%s)' % ''.join(', %s=%r' % kv for kv in f2.items()), (lambda f2=f2: w.keys(as_dict=True, **f2)), False
    yield 'repr(Wallet)', (lambda: repr(w)), False
    for d in range(0, 6):
        yield 'Wallet.info(detail=%d)' % d, (lambda d=d: _printed(w.info, d)), False
    yield 'Wallet.wif(is_private=False)', (lambda: w.wif(is_private=False)), False
    if watch_only:
        yield 'Wallet.wif(is_private=True)', (lambda: w.wif(is_private=True)), False
    yield 'Wallet.addresslist()', (lambda: w.addresslist()), False
    yield 'Wallet.accounts() / networks(as_dict=True)', (lambda: [w.accounts(), w.networks(as_dict=True)]), False
    yield 'Wallet.utxos()', (lambda: w.utxos()), False
    yield 'Wallet.transactions(as_dict=True)', (lambda: w.transactions(as_dict=True)), False
    yield 'Wallet.transactions_export()', (lambda: w.transactions_export()), False

    def pm():
        p = w.public_master()
        return p if isinstance(p, list) else [p]
    yield 'Wallet.public_master(): wif, as_dict(), repr', (lambda: [[p.wif, p.as_dict(), repr(p)] for p in pm()]), False
    yield 'Wallet.public_master().key(): every attribute', (lambda: [p.key() for p in pm()]), True
    yield 'pickle of Wallet.public_master().key()', (lambda: [pickle.dumps(p.key()) for p in pm()]), False
    yield 'Wallet.public_master().key(): as_dict(), as_json(), repr, info()', \
        (lambda: [[p.key().as_dict(), p.key().as_json(), repr(p.key()), _printed(p.key().info)] for p in pm()]), False


def key_views(w, key_id, watch_only=False):
    def wk():
        return w.key(key_id)
    yield 'WalletKey.as_dict()', (lambda: wk().as_dict()), False
    yield 'repr(WalletKey)', (lambda: _repr_with_wif(wk(), 'F-C16-walletkey-repr-private-wif')), False
    yield 'repr of the row Wallet.keys(key_id=...) returns', (lambda: _repr_with_wif(w.keys(key_id=key_id)[0], 'F-C16-dbkey-repr-private-wif')), False
    yield 'WalletKey.key().public(): every attribute', (lambda: wk().key().public()), True
    yield 'pickle of WalletKey.key().public()', (lambda: pickle.dumps(wk().key().public())), False
    yield 'WalletKey.key().public(): as_dict(), as_json(), repr, info()', \
        (lambda: (lambda k: [k.as_dict(), k.as_json(), repr(k), _printed(k.info)])(wk().key().public())), False
    yield 'WalletKey.key(): as_dict(), as_json() (default), address object', \
        (lambda: (lambda k: [k.as_dict(), k.as_json(), k.address_obj.as_dict(), repr(k.address_obj)])(wk().key())), False
    yield 'WalletKey.public(): every attribute', (lambda: wk().public()), True
    yield 'WalletKey.public(): wif, as_dict(), repr', (lambda: (lambda p: [p.wif, p.as_dict(), repr(p), p.key_private])(wk().public())), False
    if watch_only:
        yield 'WalletKey (watch-only): every attribute, as_dict(include_private=True)', (lambda: wk()), True


def tx_views(t):
    yield 'WalletTransaction.as_dict()', (lambda: t.as_dict()), False
    yield 'WalletTransaction.as_json()', (lambda: t.as_json()), False
    yield 'repr(WalletTransaction)', (lambda: repr(t)), False
    yield 'WalletTransaction.info()', (lambda: _printed(t.info)), False
    yield 'WalletTransaction.export()', (lambda: t.export()), False
    yield 'WalletTransaction.raw_hex()', (lambda: t.raw_hex()), False
    yield 'Input / Output dictionaries and repr', (lambda: [[i.as_dict(), repr(i)] for i in t.inputs] + [[o.as_dict(), repr(o)] for o in t.outputs]), False


def run(tier, seed, opens):
    t0 = time.time()
    random.seed(1616 + seed)
    rng = random.Random(16160 + seed)
    tmp = tempfile.mkdtemp(prefix='c16views_')
    failed, cases, ok = [], 0, 0
    notes = []
    known = {}
    listed = {o.get('id') for o in opens}

    def fail(what, inp, observed, expected='no private key material', pid=None):
        if pid is not None and pid in listed:
            known.setdefault(pid, [])
            if len(known[pid]) < 2:
                known[pid].append({'input': inp, 'observed': observed, 'expected': expected, 'confirmed': True, 'obligation': 'wallet-views#bounded', 'what': what})
            return
        if len(failed) < 8 and not any(f['what'] == what and f['input'].get('wallet') == inp.get('wallet') for f in failed):
            failed.append({'input': inp, 'observed': observed, 'expected': expected, 'confirmed': True, 'obligation': 'wallet-views#bounded', 'what': what})

    def check(views, sec, inp):
        nonlocal cases, ok
        for name, thunk, deep in views:
            cases += 1
            try:
                v = thunk()
            except Exception as e:
                # a view that cannot be produced shows nothing; not this property's business
                ok += 1
                continue
            r = sec.scan(v, deep=deep)
            if r:
                pid = None
                if isinstance(v, _Repr) and v.field and not sec.scan(str(v).replace(v.field, '', 1)):
                    # recorded finding: the repr shows the stored WIF field of a private key, and nothing else of it
                    pid = v.pid
                fail(name, inp, 'contains the private key of %s as %s at %s' % (r[1], r[2], r[0] or '<top>'), pid=pid)
            else:
                ok += 1

    try:
        from bitcoinlib.wallets import Wallet
        from bitcoinlib.keys import HDKey, Key
        from bitcoinlib.mnemonic import Mnemonic
        configs = []
        wts = ['legacy', 'p2sh-segwit', 'segwit']
        nets = ['bitcoin', 'testnet', 'litecoin']
        for wt in wts:
            for net in (nets if tier != 'quick' else [nets[(seed + wts.index(wt)) % 3]]):
                configs.append(('hd', wt, net))
        configs.append(('single', rng.choice(wts), 'bitcoin'))
        configs.append(('multisig', 'legacy' if tier == 'quick' else rng.choice(wts), 'bitcoin'))
        if tier != 'quick':
            configs.append(('multisig', 'segwit', 'testnet'))
            configs.append(('single', 'legacy', 'litecoin'))
        configs.append(('tx', 'segwit', 'bitcoinlib_test'))
        configs.append(('tx', 'legacy', 'bitcoinlib_test'))
        n = 0
        for kind, wt, net in configs:
            n += 1
            db = 'sqlite:///' + os.path.join(tmp, 'w%d.sqlite' % n)
            sd = bytes(rng.getrandbits(8) for _ in range(32))
            inp = {'wallet': '%s wallet, %s, %s' % (kind, wt, net), 'seed': sd.hex()}
            sec = Secrets()
            seeds = {}
            try:
                if kind in ('hd', 'tx'):
                    hk = HDKey.from_seed(sd, network=net, witness_type=wt)
                    w = Wallet.create('v%d' % n, keys=hk, network=net, witness_type=wt, db_uri=db)
                    seeds[w.wallet_id] = sd
                    w.new_key()
                    w.new_key(change=1) if hasattr(w, 'new_key') else None
                    w.get_key()
                    if kind == 'hd':
                        w.new_account()
                        w.new_key(account_id=1)
                elif kind == 'single':
                    k = Key(derive(sd, [])[0], network=net)
                    sec.add(derive(sd, [])[0], 'the single key')
                    w = Wallet.create('v%d' % n, keys=k, network=net, witness_type=wt, scheme='single', db_uri=db)
                else:
                    hk = HDKey.from_seed(sd, network=net, witness_type=wt, multisig=True)
                    others = [HDKey.from_seed(bytes(rng.getrandbits(8) for _ in range(32)), network=net, witness_type=wt, multisig=True) for _ in range(2)]
                    pubs = [o.public_master_multisig(witness_type=wt) for o in others]
                    w = Wallet.create('v%d' % n, keys=[hk] + pubs, sigs_required=2, network=net, witness_type=wt, db_uri=db)
                    for cw in w.cosigner:
                        if cw.main_key and cw.main_key.is_private:
                            seeds[cw.wallet_id] = sd
                    w.new_key()
                    w.get_key()
                txs = []
                if kind == 'tx':
                    w.utxos_update()
                    dest = Key(rng.getrandbits(200) + 1, network=net).address(encoding='bech32' if wt == 'segwit' else 'base58') \
                        if False else w.new_key().address
                    t = w.send_to(dest, 20000, fee=1000, offline=True) if 'offline' in Wallet.send_to.__code__.co_varnames else w.send_to(dest, 20000, fee=1000)
                    txs.append(t)
                    txs += list(w.transactions())[:2]
            except Exception as e:
                notes.append('wallet %s could not be set up: %s: %s' % (inp['wallet'], type(e).__name__, str(e)[:120]))
                continue
            collect_secrets(w, seeds, sec)
            sec.add(derive(sd, [])[0], 'm of the wallet seed')
            if len(sec.be) < (1 if kind == 'single' else 4):
                fail('harness: secrets of the wallet', inp, 'only %d private scalars known' % len(sec.be), 'the private keys of the wallet rows')
                continue
            # vacuity guard: the private views DO contain the scalars (the scanner sees them where they are)
            cases += 1
            if not sec.scan(w.wif(is_private=True)):
                fail('harness: scanner', inp, 'private WIF export not recognised as private', 'a hit')
            elif kind != 'multisig' and not sec.scan(w.keys(as_dict=True, include_private=True)):
                fail('harness: scanner', inp, 'keys(include_private=True) not recognised as private', 'a hit')
            else:
                ok += 1
            check(public_views(w), sec, inp)
            ids = [k.id for k in w.keys()]
            pick = ids if len(ids) <= 6 else [ids[0]] + rng.sample(ids[1:], 5)
            for kid in pick:
                check(key_views(w, kid), sec, dict(inp, key_id=kid))
            for t in txs:
                check(tx_views(t), sec, dict(inp, txid=t.txid))
            # watch-only wallet from the public export, in a database of its own
            if kind in ('hd', 'tx', 'multisig'):
                try:
                    exp = w.wif(is_private=False)
                    db2path = os.path.join(tmp, 'w%d_watch.sqlite' % n)
                    if isinstance(exp, list):
                        w2 = Wallet.create('watch%d' % n, keys=exp, sigs_required=2, cosigner_id=w.cosigner_id, network=net, witness_type=wt, db_uri='sqlite:///' + db2path)
                    else:
                        w2 = Wallet.create('watch%d' % n, keys=exp, network=net, witness_type=wt, db_uri='sqlite:///' + db2path)
                    w2.new_key()
                    w2.get_key()
                except Exception as e:
                    notes.append('watch-only wallet of %s could not be set up: %s: %s' % (inp['wallet'], type(e).__name__, str(e)[:120]))
                    w2 = None
                if w2 is not None:
                    inp2 = dict(inp, wallet='watch-only wallet made from wif(is_private=False) of the ' + inp['wallet'])
                    # same addresses as the private wallet (else the export is not the wallet's export and the check is vacuous)
                    cases += 1
                    a1 = set(w.addresslist())
                    a2 = set(w2.addresslist())
                    if not (a1 & a2):
                        fail('harness: watch-only export', inp2, 'no address in common with the private wallet', 'the same receiving addresses')
                    else:
                        ok += 1
                    check(public_views(w2, watch_only=True), sec, inp2)
                    for kid in [k.id for k in w2.keys()][:5]:
                        check(key_views(w2, kid, watch_only=True), sec, dict(inp2, key_id=kid))
                    try:
                        w2.session.commit()
                        w2.session.close()
                    except Exception:
                        pass
                    cases += 1
                    r = sec.scan(open(db2path, 'rb').read())
                    if r:
                        fail('database file of the watch-only wallet', inp2, 'contains the private key of %s as %s' % (r[1], r[2]))
                    else:
                        ok += 1
            try:
                w.session.close()
            except Exception:
                pass
        # a plain (non-wallet) signed Transaction: dictionaries, JSON, repr, info must be clean; its pickle / deep copy (Transaction.save() pickles)
        # carries the signing keys - recorded finding, pinned narrowly: with the private Key objects of Input.keys replaced by their public
        # versions and Signature.secret / Signature.k cleared, the copy must be clean
        import copy
        from bitcoinlib.transactions import Transaction
        for wt in ('segwit', 'legacy'):
            ksec = rng.randrange(1, 2 ** 255)
            sec = Secrets()
            sec.add(ksec, 'the signing key')
            inp = {'wallet': 'plain Transaction, %s, signed with one key' % wt, 'private_key': '%064x' % ksec}
            try:
                kk = Key(ksec, network='bitcoin')
                tp = Transaction(network='bitcoin', witness_type=wt)
                tp.add_input('%064x' % rng.getrandbits(256), 0, keys=[kk.public()] if rng.random() < 0.5 else [kk], value=100000, witness_type=wt)
                tp.add_output(90000, Key(rng.randrange(1, 2 ** 255), network='bitcoin').address())
                tp.sign(kk)
            except Exception as e:
                notes.append('plain transaction could not be set up: %s' % e)
                continue
            check([('Transaction.as_dict()', (lambda: tp.as_dict()), False), ('Transaction.as_json()', (lambda: tp.as_json()), False), ('repr(Transaction)', (lambda: repr(tp)), False),
                   ('Transaction.info()', (lambda: _printed(tp.info)), False), ('Transaction.raw_hex()', (lambda: tp.raw_hex()), False),
                   ('Input / Output / Signature dictionaries and repr', (lambda: [[i.as_dict(), repr(i), [repr(sg) for sg in i.signatures]] for i in tp.inputs] + [[o.as_dict(), repr(o)] for o in tp.outputs]), False)],
                  sec, inp)
            cases += 1
            r = sec.scan(pickle.dumps(tp)) or sec.scan(copy.deepcopy(tp), deep=True)
            if not r:
                ok += 1
            else:
                clean = copy.deepcopy(tp)
                for i in clean.inputs:
                    i.keys = [k.public() if getattr(k, 'is_private', False) else k for k in i.keys]
                    for sg in i.signatures:
                        sg.secret = None
                        sg.k = None
                r2 = sec.scan(pickle.dumps(clean)) or sec.scan(clean, deep=True)
                fail('pickle / copy of a signed Transaction', inp, 'contains the private key of %s as %s%s' % (r[1], r[2], '' if not r2 else ' (also outside Input.keys / Signature.secret / Signature.k: %s)' % (r2[0],)),
                     pid=None if r2 else 'F-C16-signed-transaction-pickle')
        # database field encryption (child process: the key is read from the environment at import)
        for wt, net, mode in ([('segwit', 'bitcoin', 'key'), ('legacy', 'bitcoin', 'password')] if tier == 'quick' else
                              [('segwit', 'bitcoin', 'key'), ('legacy', 'litecoin', 'password'), ('p2sh-segwit', 'testnet', 'key'), ('segwit', 'testnet', 'password')]):
            cases += 1
            sd = bytes(rng.getrandbits(8) for _ in range(32))
            dbp = os.path.join(tmp, 'enc_%s_%s.sqlite' % (wt, mode))
            env = {k: v for k, v in os.environ.items() if k not in ('DB_FIELD_ENCRYPTION_KEY', 'DB_FIELD_ENCRYPTION_PASSWORD')}
            if mode == 'key':
                env['DB_FIELD_ENCRYPTION_KEY'] = bytes(rng.getrandbits(8) for _ in range(32)).hex()
            else:
                env['DB_FIELD_ENCRYPTION_PASSWORD'] = 'correct horse %d' % rng.getrandbits(40)
            child = subprocess.run([sys.executable, '-m', 'bounded.c16_views', '--child', dbp, sd.hex(), wt, net], env=env, capture_output=True, text=True,
                                   cwd=os.path.dirname(os.path.dirname(os.path.abspath(__file__))), timeout=300)
            inp = {'wallet': 'hd wallet, %s, %s, DB_FIELD_ENCRYPTION_%s set' % (wt, net, mode.upper()), 'seed': sd.hex()}
            try:
                info = json.loads(child.stdout.strip().splitlines()[-1])
            except Exception:
                notes.append('encrypted wallet child failed: %s' % (child.stderr.strip()[-200:]))
                continue
            sec = Secrets()
            for p in info['paths']:
                sec.add(derive(sd, _path_ints(p))[0], 'key %s' % p)
            for h in info['stored']:
                sec.add(bytes.fromhex(h), 'a stored key')
            data = open(dbp, 'rb').read()
            r = sec.scan(data)
            wifs = [x for x in info['wifs'] if x.encode() in data]
            if not info['encrypted']:
                notes.append('field encryption did not switch on in the child')
            elif r:
                fail('database file with field encryption on', inp, 'contains the private key of %s as %s in plaintext' % (r[1], r[2]))
            elif wifs:
                fail('database file with field encryption on', inp, 'contains the private WIF %s... in plaintext' % wifs[0][:12])
            elif len(sec.be) < 4:
                fail('harness: secrets of the encrypted wallet', inp, 'only %d scalars' % len(sec.be), 'the private keys of the wallet rows')
            else:
                ok += 1
    finally:
        shutil.rmtree(tmp, ignore_errors=True)
    return {'contract': 'wallet-views[bounded]', 'target': 'Wallet.as_dict / as_json / info / keys(as_dict) / wif / public_master, WalletKey.as_dict / public, WalletTransaction views, db.EncryptedBinary / EncryptedString',
            'status': 'ok', 'bounded': '%d wallets (HD x witness type x network, single key, 2-of-3 multisig, bitcoinlib_test with a signed transaction), their watch-only exports and database files, field encryption in a child process' % len(configs),
            'paths': cases, 'obligations': [{'name': 'wallet-views#bounded', 'kind': 'bounded', 'paths': cases, 'discharged': ok, 'failed': failed, 'unknown': 0, 'secs': 0.0,
                                             'solvers': {'native': cases}, 'known': known}],
            'notes': notes, 'wall_s': time.time() - t0, 'fuzz': {'runs': 0, 'failures': []}, 'props': ['C16']}


def _child(dbp, sdhex, wt, net):
    from bitcoinlib.wallets import Wallet
    from bitcoinlib.keys import HDKey
    from bitcoinlib.db import DbKey, EncryptedBinary
    sd = bytes.fromhex(sdhex)
    w = Wallet.create('enc', keys=HDKey.from_seed(sd, network=net, witness_type=wt), network=net, witness_type=wt, db_uri='sqlite:///' + dbp)
    w.new_key()
    w.new_key(change=1)
    rows = w.session.query(DbKey).filter_by(wallet_id=w.wallet_id).all()
    out = {'paths': [r.path for r in rows if r.path and r.is_private], 'stored': [bytes(r.private).hex() for r in rows if r.private],
           'wifs': [r.wif for r in rows if r.is_private and r.wif], 'encrypted': EncryptedBinary.key is not None}
    w.session.commit()
    w.session.close()
    print(json.dumps(out))


if __name__ == '__main__':
    if len(sys.argv) > 1 and sys.argv[1] == '--child':
        _child(*sys.argv[2:6])
