#!/usr/bin/env python3
"""check_stable.py <junit.xml>: are all BASELINE stable_pass tests passing in this run?"""
import json, sys, xml.etree.ElementTree as ET
stable = set(json.load(open('/root/.vp/BASELINE.json'))['stable_pass'])
passed = set()
for tc in ET.parse(sys.argv[1]).getroot().iter('testcase'):
    if not any(ch.tag in ('failure', 'error', 'skipped') for ch in tc):
        cn = tc.get('classname')
        if cn.startswith('repo.'):
            cn = cn[5:]
        passed.add('%s::%s' % (cn, tc.get('name')))
missing = sorted(stable - passed)
print('stable_pass: %d, passing now: %d, missing: %d' % (len(stable), len(stable & passed), len(missing)))
for m in missing[:20]:
    print('  MISSING', m)
sys.exit(1 if missing else 0)
