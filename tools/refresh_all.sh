#!/bin/sh
# re-runs every claimed check (quick) on the current tree; prints one line per property
cd /verif
for p in $(python3 -c "import json; print(' '.join(c['property_id'] for c in json.load(open('MANIFEST.json'))['checks']))"); do
  ./check $p --tier quick > /tmp/refresh_$p.out 2>&1; rc=$?; echo "$p rc=$rc $(tail -1 /tmp/refresh_$p.out | cut -c1-150)"; rm -f /tmp/refresh_$p.out
done
