#!/bin/sh
# usage: tools/run_seed.sh <seed-dir-name> <property>...   applies seeded/<name>/patch.diff to /repo, runs the checks, undoes it,
# then re-runs the checks on the restored tree so that evidence/ never holds results of a seeded tree
seed=$1; shift
cd /verif
git -C /repo diff --quiet || { echo "/repo has uncommitted changes"; exit 9; }
git -C /repo apply /verif/seeded/$seed/patch.diff || { echo "patch does not apply"; exit 9; }
for p in "$@"; do ./check $p --tier quick; echo "seed=$seed property=$p rc=$?"; done
git -C /repo checkout -- .
# (RUN_SEED_NORESTORE=1: the caller re-runs every check on the restored tree itself, as tools/run_all_seeds.sh does at its end)
[ -n "$RUN_SEED_NORESTORE" ] || for p in "$@"; do ./check $p --tier quick > /dev/null 2>&1; echo "restored tree: property=$p rc=$?"; done
