#!/usr/bin/env python3
"""Confirms a seeded change delivered by a sub-agent in /tmp/wt/<id>/ and files it under /verif/seeded/<name>/.
usage: confirm_seed.py <wt-id> <seed-name>"""
import json, os, shutil, subprocess, sys, xml.etree.ElementTree as ET
wt, name = sys.argv[1], sys.argv[2]
base = '/tmp/wt/%s' % wt
repo = base + '/repo'
env = dict(os.environ, PYTHONPATH=repo, BCL_DATA_DIR=base + '/bcl-confirm')
def run(cmd, **kw):
    return subprocess.run(cmd, shell=True, capture_output=True, text=True, env=env, **kw)
diff = run('git -C %s diff' % repo).stdout
assert diff.strip(), 'no change in worktree'
with_change = run('cd %s && /venv/bin/python demo.py' % base)
# (no git stash: the stash list is shared by all worktrees of /repo and concurrent sub-agents would pop each other's entries)
open(base + '/confirm.diff', 'w').write(diff)
assert run('git -C %s apply -R %s/confirm.diff' % (repo, base)).returncode == 0, 'cannot reverse the change'
try:
    without = run('cd %s && /venv/bin/python demo.py' % base)
finally:
    assert run('git -C %s apply %s/confirm.diff' % (repo, base)).returncode == 0, 'cannot re-apply the change'
print('demo with change rc=%d, without rc=%d' % (with_change.returncode, without.returncode))
stable = set(json.load(open('/root/.vp/BASELINE.json'))['stable_pass'])
passed = set()
for tc in ET.parse(base + '/after.xml').getroot().iter('testcase'):
    if not any(ch.tag in ('failure', 'error', 'skipped') for ch in tc):
        cn = tc.get('classname')
        if cn.startswith('repo.'):
            cn = cn[5:]
        passed.add('%s::%s' % (cn, tc.get('name')))
missing = stable - passed
print('stable_pass tests not passing with the change: %d' % len(missing), sorted(missing)[:5])
ok = with_change.returncode != 0 and without.returncode == 0 and not missing
dst = '/verif/seeded/%s' % name
if ok:
    os.makedirs(dst, exist_ok=True)
    open(dst + '/patch.diff', 'w').write(diff)
    shutil.copy(base + '/demo.py', dst + '/demo.py')
    meta = json.load(open(base + '/meta.json'))
    meta['confirmed'] = {'demo_rc_with_change': with_change.returncode, 'demo_rc_without_change': without.returncode,
                         'demo_output_with_change_tail': (with_change.stdout + with_change.stderr)[-600:],
                         'stable_pass_tests_all_passing_with_change': True,
                         'how': 'tools/confirm_seed.py: demo.py run in the scratch worktree with and without the change (git stash); '
                                'junit XML of the full suite with the change compared with BASELINE.json stable_pass'}
    json.dump(meta, open(dst + '/meta.json', 'w'), indent=1)
    print('filed under', dst)
else:
    print('NOT CONFIRMED'); print(with_change.stdout[-500:], with_change.stderr[-500:]); print(without.stdout[-300:], without.stderr[-300:])
