#!/bin/sh
# regression over every filed seed: applies each, runs the check of its property (plus extra properties listed below), restores the tree
cd /verif
for d in seeded/*/; do
  s=$(basename $d)
  p=$(python3 -c "import json; print(json.load(open('$d/meta.json'))['property'])")
  extra=""
  case $s in C12-b) extra="C15";; C04-c) extra="C12";; C06-a|C06-b) extra="C18";; esac
  RUN_SEED_NORESTORE=1 tools/run_seed.sh $s $p $extra 2>&1 | grep -E "^seed=|does not apply|uncommitted"
done
# evidence must never hold results of a seeded tree: every check once more on the restored tree
tools/refresh_all.sh
