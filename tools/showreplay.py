#!/usr/bin/env python3
import json, sys, re
def ab(o):
    if isinstance(o, dict):
        if set(o) == {'bytes'} and len(o['bytes']) > 24:
            return {'bytes': o['bytes'][:12] + '..(%d bytes)' % (len(o['bytes']) // 2)}
        return {k: ab(v) for k, v in o.items()}
    if isinstance(o, list):
        return [ab(x) for x in o]
    if isinstance(o, str) and len(o) > 300:
        return re.sub(r"[0-9a-f]{40,}", lambda m: m.group(0)[:12] + '..', o)[:400]
    return o
for f in sys.argv[1:]:
    d = json.load(open(f))
    print('==', d['obligation'], '|', d.get('why'))
    print(json.dumps(ab(d['counterexample']))[:1200])
