import argparse
import atexit
import json
import os
import shutil
import sys
import tempfile

ROOT = os.path.dirname(os.path.dirname(os.path.abspath(__file__)))


def main():
    ap = argparse.ArgumentParser()
    ap.add_argument('prop', nargs='*')
    ap.add_argument('--tier', default=os.environ.get('VERIF_TIER', 'quick'))
    ap.add_argument('--replay')
    ap.add_argument('--relock', action='store_true')
    ap.add_argument('--selftest', action='store_true')
    a = ap.parse_args()
    if a.tier not in ('quick', 'thorough'):
        a.tier = 'quick'
    seed = int(os.environ.get('VERIF_SEED', '0') or 0)
    sys.path.insert(0, ROOT)
    # the library under analysis must be /repo's working tree, with its data files taken from that tree
    scratch = tempfile.mkdtemp(prefix='bcl-', dir=os.path.join(ROOT, 'scratch') if os.path.isdir(os.path.join(ROOT, 'scratch')) else None)
    atexit.register(shutil.rmtree, scratch, True)
    os.environ['BCL_DATA_DIR'] = scratch
    os.environ.setdefault('PYTHONHASHSEED', '0')
    sys.path.insert(0, '/repo')
    import bitcoinlib
    if not os.path.realpath(bitcoinlib.__file__).startswith('/repo/bitcoinlib/'):
        print('CHECKER-ERROR: bitcoinlib resolves to %s, not /repo' % bitcoinlib.__file__)
        return 3
    from pyvc import runner
    if a.replay:
        from pyvc import replaycmd
        return replaycmd.run(a.replay)
    if a.relock:
        runner.relock(a.prop)
        return 0
    if a.selftest:
        from pyvc import selfcheck
        return selfcheck.main(a.prop)
    rc = 0
    for p in a.prop:
        rc = max(rc, runner.run_property(p, a.tier, seed))
    return rc


if __name__ == '__main__':
    sys.exit(main())
