"""Operator semantics on the value domain (DESIGN §2.3)."""
import z3
from .values import *
from .ctx import PyRaise, Unsupported, Infeasible

_simplify = z3.simplify


def wrap_int(t):
    if isinstance(t, int):
        return t
    t = _simplify(t)
    if z3.is_int_value(t):
        return t.as_long()
    return SInt(t)


def wrap_bool(t):
    if isinstance(t, bool):
        return t
    t = _simplify(t)
    if z3.is_true(t):
        return True
    if z3.is_false(t):
        return False
    return SBool(t)


def int_term(v):
    if isinstance(v, bool):
        return z3.IntVal(1 if v else 0)
    if isinstance(v, int):
        return z3.IntVal(v)
    if isinstance(v, SInt):
        return v.t
    if isinstance(v, SBool):
        return z3.If(v.t, z3.IntVal(1), z3.IntVal(0))
    if isinstance(v, z3.ArithRef):
        return v
    raise TypeError('int expected, got %r' % (v,))


def is_intlike(v):
    return isinstance(v, (int, SInt, SBool)) and not isinstance(v, Sym) or isinstance(v, (SInt, SBool))


def bool_term(v):
    if isinstance(v, bool):
        return z3.BoolVal(v)
    if isinstance(v, SBool):
        return v.t
    raise TypeError('bool expected, got %r' % (v,))


def truth_term(ctx, v):
    """z3 Bool (or Python bool) describing Python truthiness of v, without forking."""
    if isinstance(v, SBool):
        return v.t
    if isinstance(v, SInt):
        return v.t != 0
    if isinstance(v, SFloat):
        return v.t != 0
    if isinstance(v, (SBytes, SStr)):
        n = v.length()
        return (n != 0) if not isinstance(n, int) else (n != 0)
    if isinstance(v, SList):
        if v.tail:
            return True
        return (v.n != 0) if not isinstance(v.n, int) else v.n != 0
    if isinstance(v, Rec):
        ip = getattr(ctx, 'interp', None)
        if hasattr(v.cls, '__bool__') and ip is not None:
            return truth_term(ctx, ip.call(ip.getattr(v, '__bool__'), []))
        if hasattr(v.cls, '__len__') and ip is not None:
            n = ip.call(ip.getattr(v, '__len__'), [])
            return (n != 0) if isinstance(n, int) else int_term(n) != 0
        if hasattr(v.cls, '__len__') or hasattr(v.cls, '__bool__'):
            raise Unsupported('truthiness of object with __len__/__bool__: %s' % v.cls.__name__)
        return True
    if isinstance(v, Opaque):
        raise Unsupported('truthiness of opaque value %s' % v.name)
    ip = getattr(ctx, 'interp', None)
    if ip is not None and isinstance(v, Sym):
        for k, fn in ip.reg.sym_truth.items():
            if isinstance(v, k):
                return fn(ip, v)
    return bool(v)


def truth(ctx, v):
    t = truth_term(ctx, v)
    if isinstance(t, bool):
        return t
    return ctx.branch(t)


def pyraise(exc_cls, msg='', implicit=True):
    raise PyRaise(exc_cls(msg), implicit=implicit)


# ---------------------------------------------------------------------------------------------------
# integers

def _pos_divisor(ctx, b):
    """Returns z3 term of divisor after making sure it is > 0 on this path (forks / raises)."""
    if isinstance(b, int):
        if b == 0:
            pyraise(ZeroDivisionError, 'division by zero')
        if b < 0:
            raise Unsupported('negative concrete divisor')
        return z3.IntVal(b)
    t = int_term(b)
    if ctx.branch(t == 0):
        pyraise(ZeroDivisionError, 'division by zero')
    if not ctx.branch(t > 0):
        raise Unsupported('divisor may be negative')
    return t


def _pow256(c):
    j = 0
    while c > 1:
        if c % 256:
            return None
        c //= 256
        j += 1
    return j


def is_byte_term(ctx, e):
    if isinstance(e, int):
        return 0 <= e <= 255
    if z3.is_int_value(e):
        return 0 <= e.as_long() <= 255
    if e.get_id() in ctx.byte_terms:
        return True
    if z3.is_app_of(e, z3.Z3_OP_MOD) and z3.is_int_value(e.arg(1)) and 0 < e.arg(1).as_long() <= 256:
        return True
    return False


def bytesum_digits(ctx, t):
    """little-endian digit list [d_0, d_1, ...] if t is syntactically sum(d_i * 256^i) with byte-valued d_i"""
    t = z3.simplify(t)
    if z3.is_int_value(t):
        return None
    terms = list(t.children()) if z3.is_app_of(t, z3.Z3_OP_ADD) else [t]
    digits = {}
    for x in terms:
        coef, e = 1, x
        if z3.is_int_value(x):
            v = x.as_long()
            if v < 0:
                return None
            j = 0
            while v:
                if j in digits:
                    return None
                digits[j] = v % 256
                v //= 256
                j += 1
            continue
        if z3.is_app_of(x, z3.Z3_OP_MUL) and x.num_args() == 2 and z3.is_int_value(x.arg(0)):
            coef, e = x.arg(0).as_long(), x.arg(1)
        j = _pow256(coef) if coef >= 1 else None
        if j is None or j in digits or not is_byte_term(ctx, e):
            return None
        digits[j] = e
    if not digits or (len(terms) == 1 and 0 in digits and not z3.is_app_of(t, z3.Z3_OP_ADD) and len(digits) == 1
                      and not (t.get_id() in ctx.byte_terms)):
        # a lone byte term is its own single digit only if registered as a byte
        if not digits:
            return None
    n = max(digits) + 1
    return [digits.get(i, 0) for i in range(n)]


def digits_value(digits):
    r = z3.IntVal(0)
    for i, d in enumerate(digits):
        r = r + (z3.IntVal(d) if isinstance(d, int) else d) * z3.IntVal(256 ** i)
    return r


def _div(t, d):
    """floor division by a positive divisor; (x div c1) div c2 is normalised to x div (c1*c2)"""
    if z3.is_int_value(d) and z3.is_app_of(t, z3.Z3_OP_IDIV) and z3.is_int_value(t.arg(1)) and t.arg(1).as_long() > 0:
        return t.arg(0) / z3.IntVal(t.arg(1).as_long() * d.as_long())
    return t / d


def _is_pow2(n):
    return n > 0 and n & (n - 1) == 0


def int_binop(ctx, op, a, b):
    ta, tb = int_term(a), int_term(b)
    if op == 'Add':
        return wrap_int(ta + tb)
    if op == 'Sub':
        return wrap_int(ta - tb)
    if op == 'Mult':
        return wrap_int(ta * tb)
    if op in ('FloorDiv', 'Mod', 'RShift', 'BitAnd') and isinstance(b, int) and not isinstance(a, int):
        # cutting whole bytes out of a value that is syntactically a sum of bytes: digit selection, no division needed
        k = None
        if op == 'RShift' and b >= 0 and b % 8 == 0:
            k = ('hi', b // 8)
        elif op == 'FloorDiv' and b > 0 and _pow256(b) is not None:
            k = ('hi', _pow256(b))
        elif op == 'Mod' and b > 0 and _pow256(b) is not None:
            k = ('lo', _pow256(b))
        elif op == 'BitAnd' and b >= 0 and _is_pow2(b + 1) and _pow256(b + 1) is not None:
            k = ('lo', _pow256(b + 1))
        if k is not None:
            digits = bytesum_digits(ctx, ta)
            if digits is not None:
                part = digits[k[1]:] if k[0] == 'hi' else digits[:k[1]]
                return wrap_int(digits_value(part))
    if op == 'FloorDiv':
        d = _pos_divisor(ctx, b)
        return wrap_int(_div(ta, d))
    if op == 'Mod':
        d = _pos_divisor(ctx, b)
        return wrap_int(ta % d)
    if op == 'Pow':
        if isinstance(b, int) and 0 <= b <= 64:
            r = z3.IntVal(1)
            for _ in range(b):
                r = r * ta
            return wrap_int(r)
        if isinstance(a, int) and a == 2:
            e = ctx.concretize(tb, limit=600, what='exponent')
            return 2 ** e
        raise Unsupported('pow with symbolic exponent')
    if op == 'RShift':
        if not isinstance(b, int):
            b = ctx.concretize(tb, limit=600, what='shift amount')
        if b < 0:
            pyraise(ValueError, 'negative shift count')
        return wrap_int(_div(ta, z3.IntVal(2 ** b)))
    if op == 'LShift':
        if not isinstance(b, int):
            b = ctx.concretize(tb, limit=600, what='shift amount')
        if b < 0:
            pyraise(ValueError, 'negative shift count')
        return wrap_int(ta * z3.IntVal(2 ** b))
    if op == 'BitAnd':
        if isinstance(a, int) and not isinstance(b, int):
            a, b, ta, tb = b, a, tb, ta
        if isinstance(b, int):
            if b >= 0 and _is_pow2(b + 1):          # low-bit mask
                return wrap_int(ta % z3.IntVal(b + 1))
            if _is_pow2(b):                          # single bit
                return wrap_int(((ta / z3.IntVal(b)) % 2) * b)
            if b >= 0:
                # general non-negative mask: sum over its maximal runs of set bits [lo, hi) of ((a >> lo) mod 2^(hi-lo)) << lo
                r = z3.IntVal(0)
                lo = 0
                while (1 << lo) <= b:
                    if not (b >> lo) & 1:
                        lo += 1
                        continue
                    hi = lo
                    while (b >> hi) & 1:
                        hi += 1
                    chunk = ta if lo == 0 else _div(ta, z3.IntVal(1 << lo))
                    r = r + (chunk % z3.IntVal(1 << (hi - lo))) * (1 << lo)
                    lo = hi
                return wrap_int(r)
        return bv_binop(ctx, op, a, b)
    if op == 'BitOr':
        if isinstance(a, int) and not isinstance(b, int):
            a, b, ta, tb = b, a, tb, ta
        if isinstance(b, int) and b >= 0:
            # a | c = a + sum of the bits of c that are not set in a   (holds for negative a too, two's complement)
            r = ta
            k = 1
            while k <= b:
                if b & k:
                    bit = _div(ta, z3.IntVal(k)) % 2
                    if ctx.check(bit != 1) == z3.unsat:
                        pass                                  # bit already set on this path
                    elif ctx.check(bit != 0) == z3.unsat:
                        r = r + k                             # bit clear on this path
                    else:
                        r = r + (1 - bit) * k
                k <<= 1
            return wrap_int(r)
        # a | b with disjoint bit ranges (a multiple of 2^k, 0 <= b < 2^k): plain addition
        for x, y in ((ta, tb), (tb, ta)):
            for k in (5, 8, 4, 3, 2, 1, 6, 7, 10, 13, 16, 32):
                m = z3.IntVal(2 ** k)
                if ctx.check(z3.Not(z3.And(y >= 0, y < m))) == z3.unsat:
                    if ctx.check(x % m != 0) == z3.unsat:
                        return wrap_int(x + y)
                    break
        return bv_binop(ctx, op, a, b)
    if op == 'BitXor':
        return bv_binop(ctx, op, a, b)
    raise Unsupported('int operator %s' % op)


BV_WIDTH = 72


def interval(ctx, t, depth=0):
    """syntactic interval [lo, hi] of an integer term from recorded variable bounds, or None"""
    if depth > 400:
        return None
    t = t if not isinstance(t, int) else z3.IntVal(t)
    if z3.is_int_value(t):
        n = t.as_long()
        return n, n
    if not z3.is_app(t):
        return None
    k = t.decl().kind()
    if k == z3.Z3_OP_UNINTERPRETED and t.num_args() == 0:
        return ctx.var_bounds.get(t.decl().name())
    if k == z3.Z3_OP_BV2INT:
        return 0, 2 ** t.arg(0).size() - 1
    ch = [interval(ctx, c, depth + 1) for c in t.children()] if k in (z3.Z3_OP_ADD, z3.Z3_OP_MUL, z3.Z3_OP_SUB, z3.Z3_OP_IDIV, z3.Z3_OP_MOD, z3.Z3_OP_UMINUS) else None
    if ch is not None and any(c is None for c in ch):
        return None
    if k == z3.Z3_OP_ADD:
        return sum(c[0] for c in ch), sum(c[1] for c in ch)
    if k == z3.Z3_OP_SUB:
        return ch[0][0] - sum(c[1] for c in ch[1:]), ch[0][1] - sum(c[0] for c in ch[1:])
    if k == z3.Z3_OP_UMINUS:
        return -ch[0][1], -ch[0][0]
    if k == z3.Z3_OP_MUL:
        lo, hi = ch[0]
        for c in ch[1:]:
            cands = [lo * c[0], lo * c[1], hi * c[0], hi * c[1]]
            lo, hi = min(cands), max(cands)
        return lo, hi
    if k in (z3.Z3_OP_IDIV, z3.Z3_OP_MOD):
        a, d = ch
        if d[0] != d[1] or d[0] <= 0 or a[0] < 0:
            return None
        if k == z3.Z3_OP_IDIV:
            return a[0] // d[0], a[1] // d[0]
        return 0, min(a[1], d[0] - 1)
    if k == z3.Z3_OP_ITE:
        a, b = interval(ctx, t.arg(1), depth + 1), interval(ctx, t.arg(2), depth + 1)
        if a is None or b is None:
            return None
        return min(a[0], b[0]), max(a[1], b[1])
    return None


def _nonneg_bound(ctx, t):
    iv = interval(ctx, t)
    if iv is not None:
        if iv[0] < 0:
            return None
        for k in (8, 16, 32, 40, 64, 72, 128, 256, 264, 520):
            if iv[1] < 2 ** k:
                return k
        return None
    return _nonneg_bound_solver(ctx, t)


def _nonneg_bound_solver(ctx, t):
    """Smallest power-of-two exponent k <= 520 with 0 <= t < 2^k provable on this path, else None."""
    for k in (8, 16, 32, 40, 64, 72, 128, 256, 264, 520):
        if ctx.check(z3.Not(z3.And(t >= 0, t < z3.IntVal(2 ** k)))) == z3.unsat:
            return k
    return None


def bv_binop(ctx, op, a, b):
    """General &, |, ^ on values whose range is proved non-negative and bounded: through bit-vectors."""
    ta, tb = int_term(a), int_term(b)
    ka, kb = _nonneg_bound(ctx, ta), _nonneg_bound(ctx, tb)
    if ka is None or kb is None:
        raise Unsupported('bit operation %s on values of unknown range' % op)
    w = max(ka, kb)
    xa, xb = z3.Int2BV(ta, w), z3.Int2BV(tb, w)
    r = {'BitAnd': xa & xb, 'BitOr': xa | xb, 'BitXor': xa ^ xb}[op]
    return wrap_int(z3.BV2Int(r, False))


def int_compare(op, a, b):
    ta, tb = int_term(a), int_term(b)
    r = {'Eq': ta == tb, 'NotEq': ta != tb, 'Lt': ta < tb, 'LtE': ta <= tb, 'Gt': ta > tb, 'GtE': ta >= tb}[op]
    return wrap_bool(r)


# ---------------------------------------------------------------------------------------------------
# floats: doubles are exact rationals; terms are z3 Reals.  Only comparisons and constant folding
# are handled here; arithmetic with rounding lives in floats.py.

def real_term(v):
    if isinstance(v, SFloat):
        return v.t
    if isinstance(v, bool):
        return z3.RealVal(int(v))
    if isinstance(v, int):
        return z3.RealVal(v)
    if isinstance(v, float):
        from fractions import Fraction
        f = Fraction(v)
        return z3.RealVal(f.numerator) / z3.RealVal(f.denominator)
    if isinstance(v, (SInt, SBool)):
        return z3.ToReal(int_term(v))
    raise TypeError('number expected: %r' % (v,))


def num_compare(op, a, b):
    ta, tb = real_term(a), real_term(b)
    r = {'Eq': ta == tb, 'NotEq': ta != tb, 'Lt': ta < tb, 'LtE': ta <= tb, 'Gt': ta > tb, 'GtE': ta >= tb}[op]
    return wrap_bool(r)


# ---------------------------------------------------------------------------------------------------
# bytes / str sequences

def seq_like(v):
    return isinstance(v, (SBytes, SStr, bytes, bytearray))


def _mk_like(v, items=None, seq=None, parts=None):
    cls = SStr if isinstance(v, (SStr, str)) else SBytes
    if parts is not None:
        r = cls(parts=parts)
        if r.items is None:
            return r
        items = r.items
    if items is not None and all(isinstance(i, int) for i in items):
        if cls is SBytes:
            return bytes(items)
        return ''.join(chr(i) for i in items)
    return cls(items=items, seq=seq)


def as_sseq(v):
    if isinstance(v, (SBytes, SStr)):
        return v
    if isinstance(v, (bytes, bytearray)):
        return SBytes(items=list(v))
    if isinstance(v, str):
        return SStr(items=[ord(c) for c in v])
    raise TypeError('not a byte/str sequence: %r' % (v,))


def seq_concat(a, b):
    a, b = as_sseq(a), as_sseq(b)
    if type(a) is not type(b):
        pyraise(TypeError, "can't concat str and bytes", implicit=True)
    r = _mk_like(a, parts=a.parts + b.parts)
    if isinstance(r, SStr):
        ha, hb = _hex_src(a), _hex_src(b)
        if ha is not None and hb is not None:
            r.hex_src = as_sseq(seq_concat(ha, hb)) if not isinstance(seq_concat(ha, hb), bytes) else SBytes(items=list(seq_concat(ha, hb)))
    return r


def _hex_src(v):
    """bytes denoted by a lower-case hex string value, if known"""
    h = getattr(v, 'hex_src', None)
    if h is not None:
        return h
    if isinstance(v, SStr) and v.items is not None and all(isinstance(i, int) for i in v.items) and len(v.items) % 2 == 0:
        try:
            t = ''.join(chr(i) for i in v.items)
            if t == t.lower():
                return SBytes(items=list(bytes.fromhex(t)))
        except ValueError:
            return None
    return None


def seq_len(v):
    v = as_sseq(v)
    n = v.length()
    return n if isinstance(n, int) else wrap_int(n)


def _item_eq(x, y):
    if isinstance(x, int) and isinstance(y, int):
        return x == y
    return (z3.IntVal(x) if isinstance(x, int) else x) == (z3.IntVal(y) if isinstance(y, int) else y)


def seq_eq_term(a, b):
    a, b = as_sseq(a), as_sseq(b)
    conj = []
    pa, pb = [list(p) if isinstance(p, list) else p for p in a.parts], [list(p) if isinstance(p, list) else p for p in b.parts]
    # strip aligned leading items, identical symbolic parts, and aligned trailing items
    changed = True
    while changed and pa and pb:
        changed = False
        if isinstance(pa[0], list) and isinstance(pb[0], list):
            k = min(len(pa[0]), len(pb[0]))
            for x, y in zip(pa[0][:k], pb[0][:k]):
                r = _item_eq(x, y)
                if r is False:
                    return False
                if r is not True:
                    conj.append(r)
            pa[0], pb[0] = pa[0][k:], pb[0][k:]
            if not pa[0]:
                pa.pop(0)
            if not pb[0]:
                pb.pop(0)
            changed = True
        elif not isinstance(pa[0], list) and not isinstance(pb[0], list) and pa[0].term.eq(pb[0].term):
            pa.pop(0)
            pb.pop(0)
            changed = True
    changed = True
    while changed and pa and pb:
        changed = False
        if isinstance(pa[-1], list) and isinstance(pb[-1], list):
            k = min(len(pa[-1]), len(pb[-1]))
            for x, y in zip(pa[-1][len(pa[-1]) - k:], pb[-1][len(pb[-1]) - k:]):
                r = _item_eq(x, y)
                if r is False:
                    return False
                if r is not True:
                    conj.append(r)
            pa[-1], pb[-1] = pa[-1][:len(pa[-1]) - k], pb[-1][:len(pb[-1]) - k]
            if not pa[-1]:
                pa.pop()
            if not pb[-1]:
                pb.pop()
            changed = True
        elif not isinstance(pa[-1], list) and not isinstance(pb[-1], list) and pa[-1].term.eq(pb[-1].term):
            pa.pop()
            pb.pop()
            changed = True
    if not pa and not pb:
        pass
    elif (not pa or not pb) and all(isinstance(p, list) for p in (pa or pb)):
        return False      # one side has extra items
    else:
        ra, rb = type(a)(parts=pa) if pa else type(a)(items=[]), type(a)(parts=pb) if pb else type(a)(items=[])
        if ra.items is not None or rb.items is not None:
            c, sv = (ra, rb) if ra.items is not None else (rb, ra)
            st = sv.seq_term()
            conj.append(sv.length() == len(c.items))
            conj.append(z3.Length(st) == len(c.items))
            for i, x in enumerate(c.items):
                conj.append(st[i] == (z3.IntVal(x) if isinstance(x, int) else x))
        else:
            conj.append(ra.length() == rb.length())
            conj.append(ra.seq_term() == rb.seq_term())
    if not conj:
        return True
    return z3.And(*conj) if len(conj) > 1 else conj[0]


def seq_index(ctx, v, i):
    v = as_sseq(v)
    if v.items is None and isinstance(i, int):
        # concrete index into the leading / trailing explicit items of a symbolic-length sequence
        lead, trail = v.lead(), v.trail()
        if 0 <= i < len(lead):
            x = lead[i]
            r = x if isinstance(x, int) else wrap_int(x)
            return r if isinstance(v, SBytes) else _char(r)
        if i < 0 and -i <= len(trail):
            x = trail[i]
            r = x if isinstance(x, int) else wrap_int(x)
            return r if isinstance(v, SBytes) else _char(r)
    if v.items is not None:
        n = len(v.items)
        if isinstance(i, int):
            if not -n <= i < n:
                pyraise(IndexError, 'index out of range')
            x = v.items[i]
            r = x if isinstance(x, int) else wrap_int(x)
        else:
            ti = int_term(i)
            if not ctx.branch(z3.And(ti >= -n, ti < n)):
                pyraise(IndexError, 'index out of range')
            k = ctx.concretize(ti, limit=600, what='index')
            x = v.items[k]
            r = x if isinstance(x, int) else wrap_int(x)
        return r if isinstance(v, SBytes) else _char(r)
    n = _simplify(v.length())
    ti = int_term(i)
    if isinstance(i, int) and i < 0:
        idx = n + i
    elif isinstance(i, int):
        idx = ti
    else:
        idx = z3.If(ti < 0, n + ti, ti)
    if not ctx.branch(z3.And(idx >= 0, idx < n)):
        pyraise(IndexError, 'index out of range')
    e = v.seq[_simplify(idx)]
    if isinstance(v, SBytes):
        ctx.byte_fact(e)
        return wrap_int(e)
    return _char(wrap_int(e))


def _char(r):
    if isinstance(r, int):
        return chr(r)
    return SStr(items=[r.t])


def _clamp(t, n):
    """Python slice-bound normalisation for a (possibly negative) bound t and length n (z3 terms)."""
    return z3.If(t < 0, z3.If(n + t < 0, z3.IntVal(0), n + t), z3.If(t > n, n, t))


def seq_slice(ctx, v, lo, hi, step):
    v = as_sseq(v)
    if step is not None and step != 1:
        if step == -1 and lo is None and hi is None:
            if v.items is None:
                v = to_items(ctx, v)
            return _mk_like(v, items=list(reversed(v.items)))
        raise Unsupported('slice step %r' % (step,))
    if v.items is not None and (lo is None or isinstance(lo, int)) and (hi is None or isinstance(hi, int)):
        return _mk_like(v, items=v.items[lo:hi])
    if v.items is not None:
        # symbolic bound on a concrete-length sequence: enumerate
        n = len(v.items)
        tl = z3.IntVal(0) if lo is None else _clamp(int_term(lo), z3.IntVal(n))
        th = z3.IntVal(n) if hi is None else _clamp(int_term(hi), z3.IntVal(n))
        l = ctx.concretize(tl, limit=600, what='slice bound')
        h = ctx.concretize(th, limit=600, what='slice bound')
        return _mk_like(v, items=v.items[l:h])
    # symbolic length: exact syntactic slicing where the bounds fall on explicit items / part boundaries
    trail = v.trail()
    lo0 = 0 if lo is None else lo
    if not isinstance(lo0, int):
        # a symbolic lower bound that is exactly the length of some leading parts
        tlo = _simplify(int_term(lo0))
        acc = z3.IntVal(0)
        for k, p in enumerate(v.parts):
            acc = _simplify(acc + (len(p) if isinstance(p, list) else p.len))
            if acc.eq(tlo):
                rest = type(v)(parts=v.parts[k + 1:]) if v.parts[k + 1:] else type(v)(items=[])
                hi2 = None
                if hi is not None:
                    d = _simplify(int_term(hi) - tlo)
                    hi2 = d.as_long() if z3.is_int_value(d) else SInt(d)
                    if isinstance(hi2, int) and hi2 < 0:
                        hi2 = 0
                    if isinstance(hi2, SInt):
                        if not (ctx.check(z3.Not(tlo >= 0)) == z3.unsat and ctx.check(z3.Not(int_term(hi) >= 0)) == z3.unsat):
                            break
                if ctx.check(z3.Not(tlo >= 0)) != z3.unsat:
                    break
                return seq_slice(ctx, rest if rest.items is None else _mk_like(v, items=rest.items), 0, hi2, None)
    if isinstance(lo0, int) and lo0 >= 0 and (hi is None or (isinstance(hi, int) and hi >= 0)):
        got = _slice_parts(ctx, v, list(v.parts), lo0, hi)
        if got is not None:
            return _mk_like(v, parts=got)
    if isinstance(lo0, int) and lo0 >= 0 and isinstance(hi, int) and hi < 0 and -hi <= len(trail):
        parts = list(v.parts)
        parts[-1] = trail[:len(trail) + hi]
        got = _slice_parts(ctx, v, parts, lo0, None)
        if got is not None:
            return _mk_like(v, parts=got)
    if isinstance(lo0, int) and lo0 < 0 and -lo0 <= len(trail) and (hi is None or (isinstance(hi, int) and hi < 0 and hi >= lo0)):
        return _mk_like(v, items=trail[lo0:hi])
    return _general_slice(ctx, v, lo, hi)


def _general_slice(ctx, v, lo, hi):
    n = _simplify(int_term(v.length()))
    tl = z3.IntVal(0) if lo is None else _clamp(int_term(lo), n)
    th = n if hi is None else _clamp(int_term(hi), n)
    ln = _simplify(z3.If(th - tl < 0, z3.IntVal(0), th - tl))
    whole = v.seq_term()
    sub = _simplify(z3.SubSeq(whole, tl, ln))
    ctx.couple(whole, n)
    if z3.is_int_value(ln):
        # concrete length: explicit items
        k = ln.as_long()
        items = []
        for i in range(k):
            e = _simplify(whole[_simplify(tl + i)])
            if isinstance(v, SBytes):
                ctx.byte_fact(e)
            items.append(e.as_long() if z3.is_int_value(e) else e)
        return _mk_like(v, items=items)
    return _mk_like(v, parts=[SeqPart(sub, ln)])


def _slice_parts(ctx, v, parts, lo, hi):
    """parts[lo:hi] for concrete lo >= 0, hi >= 0 or None; None if not expressible part-wise"""
    out = []
    while parts:
        p = parts[0]
        if hi is not None and hi <= 0:
            return out
        if isinstance(p, list):
            n = len(p)
            if lo >= n:
                lo -= n
                hi = None if hi is None else hi - n
                parts = parts[1:]
                continue
            out.append(p[lo:hi])
            hi = None if hi is None else hi - n
            lo = 0
            parts = parts[1:]
            continue
        # symbolic part
        if lo == 0 and hi is None:
            out.extend(parts)
            return out
        rest = type(v)(parts=parts)
        r = _general_slice(ctx, rest, lo, hi)
        r = as_sseq(r)
        out.extend(r.parts)
        return out
    return out


def to_items(ctx, v, limit=600):
    """Make the length of a sequence concrete on this path (forks over the possible lengths)."""
    v = as_sseq(v)
    if v.items is not None:
        return v
    n = ctx.concretize(_simplify(v.length()), limit=limit, what='sequence length')
    items = []
    for i in range(n):
        e = _simplify(v.seq[i])
        if isinstance(v, SBytes):
            ctx.byte_fact(e)
        items.append(e.as_long() if z3.is_int_value(e) else e)
    return type(v)(items=items)


# ---------------------------------------------------------------------------------------------------
# generic equality

def values_eq(ctx, a, b):
    """Python `a == b` as bool / z3 Bool (never forks)."""
    if a is b and not isinstance(a, float):
        return True
    ip = getattr(ctx, 'interp', None)
    if ip is not None and (isinstance(a, Sym) or isinstance(b, Sym)):
        for fn in ip.reg.sym_eq:
            r = fn(ctx, a, b)
            if r is not NotImplemented:
                return r
    if isinstance(a, (SInt, SBool)) or isinstance(b, (SInt, SBool)):
        if isinstance(a, (int, SInt, SBool)) and isinstance(b, (int, SInt, SBool)):
            return _simplify(int_term(a) == int_term(b))
        if isinstance(a, (float, SFloat)) or isinstance(b, (float, SFloat)):
            return _simplify(real_term(a) == real_term(b))
        return False
    if isinstance(a, SFloat) or isinstance(b, SFloat):
        if isinstance(a, (int, float, SFloat)) and isinstance(b, (int, float, SFloat)):
            return _simplify(real_term(a) == real_term(b))
        return False
    if isinstance(a, (SBytes, SStr)) or isinstance(b, (SBytes, SStr)):
        if not (seq_like(a) or isinstance(a, str)) or not (seq_like(b) or isinstance(b, str)):
            return False
        sa, sb = as_sseq(a), as_sseq(b)
        if type(sa) is not type(sb):
            return False
        r = seq_eq_term(a, b)
        return r if isinstance(r, bool) else _simplify(r)
    if isinstance(a, SList) or isinstance(b, SList):
        return slist_eq(ctx, a, b)
    if isinstance(a, (list, tuple)) and isinstance(b, (list, tuple)):
        if type(a) is not type(b) and not (isinstance(a, list) and isinstance(b, list)):
            return False
        if len(a) != len(b):
            return False
        conj = []
        for x, y in zip(a, b):
            r = values_eq(ctx, x, y)
            if r is False:
                return False
            if r is not True:
                conj.append(r)
        if not conj:
            return True
        return _simplify(z3.And(*conj))
    if isinstance(a, Rec) or isinstance(b, Rec):
        if isinstance(a, Rec) and isinstance(b, Rec):
            if a is b:
                return True
            if a.cls is not b.cls:
                return False
            if '__eq__' in a.cls.__dict__:
                raise Unsupported('__eq__ of %s' % a.cls.__name__)
            return False
        return False
    if isinstance(a, Opaque) or isinstance(b, Opaque):
        raise Unsupported('equality on opaque value')
    if isinstance(a, dict) and isinstance(b, dict):
        if set(a) != set(b):
            return False
        return values_eq(ctx, [a[k] for k in a], [b[k] for k in a])
    try:
        return bool(a == b)
    except Exception as e:
        raise Unsupported('native == failed: %r' % e)


def slist_norm(ctx, l):
    if isinstance(l, SList):
        return l
    return None


def slist_eq(ctx, a, b):
    if isinstance(a, SList) and isinstance(b, SList):
        if a.rid != b.rid:
            raise Unsupported('equality of unrelated symbolic lists')
        a2, b2 = a, b
        # bring both to the same number of elements taken from the unknown prefix
        while a2.taken < b2.taken:
            a2 = slist_materialize(ctx, a2, inplace=False)
        while b2.taken < a2.taken:
            b2 = slist_materialize(ctx, b2, inplace=False)
        return values_eq(ctx, list(a2.tail), list(b2.tail))
    s, o = (a, b) if isinstance(a, SList) else (b, a)
    if not isinstance(o, (list, tuple)):
        return False
    # symbolic list against a concrete-length one: equal iff the unknown prefix has exactly the missing number of
    # elements and all elements agree
    o = list(o)
    k = len(o) - len(s.tail)
    if k < 0:
        return False
    s2 = s
    for _ in range(k):
        s2 = slist_materialize(ctx, s2, inplace=False)
    ncond = (s.n == k) if not isinstance(s.n, int) else (s.n == k)
    if ncond is False:
        return False
    r = values_eq(ctx, list(s2.tail), o)
    if r is False:
        return False
    if ncond is True:
        return r
    return _simplify(z3.And(ncond, r)) if r is not True else _simplify(ncond)


def slist_materialize(ctx, l, inplace=True):
    """Expose one more element of the unknown prefix (caller has established n >= 1)."""
    k = l.taken + 1
    e = l.elem.from_prefix(ctx, l.rid, k)
    n = l.n - 1 if isinstance(l.n, int) else _simplify(l.n - 1)
    if inplace:
        l.tail.insert(0, e)
        l.taken = k
        l.n = n
        return l
    return SList(l.rid, n, [e] + list(l.tail), l.elem, l.cls, k)


def slist_need(ctx, l, k):
    """Make sure the explicit tail has at least k elements; returns False if the list is shorter."""
    while len(l.tail) < k:
        if isinstance(l.n, int):
            ok = l.n >= 1
        else:
            ok = ctx.branch(l.n >= 1)
        if not ok:
            return False
        slist_materialize(ctx, l)
    return True


def slist_len(l):
    if isinstance(l.n, int):
        return l.n + len(l.tail)
    return wrap_int(l.n + len(l.tail))
