"""Loops with inductive invariants (DESIGN §2.8): the invariant cut.

At the loop head: (1) obligation inv.init: the invariant holds on entry; (2) every variable the body may assign
(syntactically, plus the contract's `modifies` attribute paths and ghost variables) is havocked and the invariant is
assumed; then the path forks: (3a) guard true -> one execution of the body -> obligations inv.preserve and variant
decrease -> the path ends (CutPath); `break`, `return` and exceptions inside the body continue normally; (3b) guard false
-> execution continues after the loop."""
import ast
import z3

from .values import *
from .ctx import PyRaise, Unsupported
from . import ops
from .ops import truth_term, int_term


def assigned_names(body):
    names = set()
    for st in body:
        for n in ast.walk(st):
            if isinstance(n, ast.Name) and isinstance(n.ctx, (ast.Store, ast.Del)):
                names.add(n.id)
    return names


def havoc_like(ctx, v, name):
    if isinstance(v, bool):
        return SBool(ctx.fresh_bool(name))
    if isinstance(v, (int, SInt)):
        return SInt(ctx.fresh_int(name))
    if isinstance(v, SBool):
        return SBool(ctx.fresh_bool(name))
    if isinstance(v, (bytes, SBytes)):
        return SBytes(seq=ctx.fresh_seq(name))
    if isinstance(v, (str, SStr)):
        return SStr(seq=ctx.fresh_seq(name))
    if isinstance(v, SArray):
        return SArray(z3.Array(ctx.fresh_name(name), z3.IntSort(), z3.IntSort()))
    if v is None:
        return None
    raise Unsupported('cannot havoc loop variable %s of type %s (declare its type in the loop contract)' % (name, type(v).__name__))


class SArray(Sym):
    """ghost map Int -> Int"""
    pytype = object

    def __init__(self, t):
        self.t = t


def _env(interp, frame, lc):
    env = {}
    f = frame
    while f is not None:
        for k, v in f.locals.items():
            env.setdefault(k, v)
        f = f.parent
    return env


def _call_inv(interp, fn, frame, lc):
    import inspect
    from .interp import Interp
    env = _env(interp, frame, lc)
    names = list(inspect.signature(fn).parameters)
    missing = [n for n in names if n not in env]
    if missing:
        raise Unsupported('loop invariant %s asks for unknown names %s' % (fn.__name__, missing))
    sub = Interp(interp.ctx, interp.reg, modular=False)
    sub.top_name = getattr(interp, 'top_name', '')
    interp.ctx.no_fork += 1
    try:
        r = sub.call(fn, [env[n] for n in names])
    finally:
        interp.ctx.no_fork -= 1
        interp.ctx.interp = interp
    return truth_term(interp.ctx, r)


def while_with_invariant(interp, node, frame, lc, key):
    from .interp import _Break, _Continue, CutPath
    ctx = interp.ctx
    name = '%s#loop%d' % (key[0], key[1])
    # ghost variables start with their declared initial values
    for g, init in lc.ghost.items():
        if g not in frame.locals:
            frame.locals[g] = interp.call(init, []) if callable(init) else init
    t = _call_inv(interp, lc.invariant, frame, lc)
    ctx.oblige(name + '.inv.init', 'inv-init', t, {'line': node.lineno})
    # havoc
    mod = assigned_names(node.body) | set(lc.modifies) | set(lc.ghost)
    for v in sorted(mod):
        if '.' in v:
            continue
        try:
            cur = frame.lookup(v)
        except PyRaise:
            continue
        ty = lc.havoc_types.get(v)
        frame.locals[v] = ty.fresh(ctx, v + '@loop') if ty is not None else havoc_like(ctx, cur, v + '@loop')
    for path in lc.modifies:
        if '.' in path:
            objname, attr = path.split('.', 1)
            obj = frame.lookup(objname)
            cur = interp.getattr(obj, attr)
            interp.setattr(obj, attr, havoc_like(ctx, cur, path + '@loop'))
    ctx.assume(_call_inv(interp, lc.invariant, frame, lc))
    variant0 = None
    if lc.variant is not None:
        ctx.no_fork += 1
        try:
            variant0 = _variant(interp, lc, frame)
        finally:
            ctx.no_fork -= 1
    d = ctx.choose([('body', None), ('exit', None)])
    cond = interp.eval(node.test, frame)
    ct = truth_term(ctx, cond)
    if d == 1:
        ctx.assume(z3.Not(ct) if not isinstance(ct, bool) else (not ct))
        interp.exec_block(node.orelse, frame)
        return
    ctx.assume(ct)
    before = dict(_env(interp, frame, lc))
    try:
        interp.exec_block(node.body, frame)
    except _Break:
        return
    except _Continue:
        pass
    if lc.ghost_step is not None:
        import inspect
        from .interp import Interp
        env = dict(_env(interp, frame, lc))
        for k_, v_ in before.items():
            env['old_' + k_] = v_
        names = list(inspect.signature(lc.ghost_step).parameters)
        sub = Interp(ctx, interp.reg, modular=False)
        upd = sub.call(lc.ghost_step, [env[n] for n in names])
        ctx.interp = interp
        for g, val in upd.items():
            frame.locals[g] = val
    t = _call_inv(interp, lc.invariant, frame, lc)
    ctx.oblige(name + '.inv.preserve', 'inv-preserve', t, {'line': node.lineno})
    if lc.variant is not None:
        v1 = _variant(interp, lc, frame)
        ctx.oblige(name + '.variant', 'variant', z3.And(int_term(variant0) >= 0, int_term(v1) < int_term(variant0)), {})
    else:
        note = 'termination of %s not proved (no variant)' % name
        if note not in ctx.notes:
            ctx.notes.append(note)
    raise CutPath()


def _variant(interp, lc, frame):
    import inspect
    from .interp import Interp
    env = _env(interp, frame, lc)
    names = list(inspect.signature(lc.variant).parameters)
    sub = Interp(interp.ctx, interp.reg, modular=False)
    r = sub.call(lc.variant, [env[n] for n in names])
    interp.ctx.interp = interp
    return r


def for_with_invariant(interp, node, frame, lc, key, it):
    raise Unsupported('for-loop invariants are not implemented; use an index-based specification')
