"""Loops with inductive invariants (DESIGN §2.8): the invariant cut.

At the loop head: (1) obligation inv.init: the invariant holds on entry; (2) every variable the body may assign
(syntactically, plus the contract's `modifies` attribute paths and ghost variables) is havocked and the invariant is
assumed; then the path forks: (3a) guard true -> one execution of the body -> obligations inv.preserve and variant
decrease -> the path ends (CutPath); `break`, `return` and exceptions inside the body continue normally; (3b) guard false
-> execution continues after the loop."""
import ast
import z3

from .values import *
from .ctx import PyRaise, Unsupported
from . import ops
from .ops import truth_term, int_term


def assigned_names(body):
    names = set()
    for st in body:
        for n in ast.walk(st):
            if isinstance(n, ast.Name) and isinstance(n.ctx, (ast.Store, ast.Del)):
                names.add(n.id)
    return names


def havoc_like(ctx, v, name):
    if isinstance(v, bool):
        return SBool(ctx.fresh_bool(name))
    if isinstance(v, (int, SInt)):
        return SInt(ctx.fresh_int(name))
    if isinstance(v, SBool):
        return SBool(ctx.fresh_bool(name))
    if isinstance(v, (bytes, SBytes)):
        return SBytes(seq=ctx.fresh_seq(name))
    if isinstance(v, (str, SStr)):
        return SStr(seq=ctx.fresh_seq(name))
    if isinstance(v, SArray):
        return SArray(z3.Array(ctx.fresh_name(name), z3.IntSort(), z3.IntSort()))
    if v is None:
        return None
    raise Unsupported('cannot havoc loop variable %s of type %s (declare its type in the loop contract)' % (name, type(v).__name__))


class SArray(Sym):
    """ghost map Int -> Int"""
    pytype = object

    def __init__(self, t):
        self.t = t


def _env(interp, frame, lc):
    env = {}
    f = frame
    while f is not None:
        for k, v in f.locals.items():
            env.setdefault(k, v)
        f = f.parent
    return env


def _call_inv(interp, fn, frame, lc):
    import inspect
    from .interp import Interp
    env = _env(interp, frame, lc)
    names = list(inspect.signature(fn).parameters)
    missing = [n for n in names if n not in env]
    if missing:
        raise Unsupported('loop invariant %s asks for unknown names %s' % (fn.__name__, missing))
    sub = Interp(interp.ctx, interp.reg, modular=False)
    sub.top_name = getattr(interp, 'top_name', '')
    interp.ctx.no_fork += 1
    try:
        r = sub.call(fn, [env[n] for n in names])
    finally:
        interp.ctx.no_fork -= 1
        interp.ctx.interp = interp
    return truth_term(interp.ctx, r)


def while_with_invariant(interp, node, frame, lc, key):
    from .interp import _Break, _Continue, CutPath
    ctx = interp.ctx
    name = '%s#loop%d' % (key[0], key[1])
    # ghost variables start with their declared initial values
    for g, init in lc.ghost.items():
        if g not in frame.locals:
            frame.locals[g] = interp.call(init, []) if callable(init) else init
    t = _call_inv(interp, lc.invariant, frame, lc)
    ctx.oblige(name + '.inv.init', 'inv-init', t, {'line': node.lineno})
    # havoc
    mod = assigned_names(node.body) | set(lc.modifies) | set(lc.ghost)
    for v in sorted(mod):
        if '.' in v:
            continue
        try:
            cur = frame.lookup(v)
        except PyRaise:
            continue
        ty = lc.havoc_types.get(v)
        frame.locals[v] = ty.fresh(ctx, v + '@loop') if ty is not None else havoc_like(ctx, cur, v + '@loop')
    for path in lc.modifies:
        if '.' in path:
            objname, attr = path.split('.', 1)
            obj = frame.lookup(objname)
            cur = interp.getattr(obj, attr)
            interp.setattr(obj, attr, havoc_like(ctx, cur, path + '@loop'))
    ctx.assume(_call_inv(interp, lc.invariant, frame, lc))
    variant0 = None
    if lc.variant is not None:
        ctx.no_fork += 1
        try:
            variant0 = _variant(interp, lc, frame)
        finally:
            ctx.no_fork -= 1
    d = ctx.choose([('body', None), ('exit', None)])
    cond = interp.eval(node.test, frame)
    ct = truth_term(ctx, cond)
    if d == 1:
        ctx.assume(z3.Not(ct) if not isinstance(ct, bool) else (not ct))
        interp.exec_block(node.orelse, frame)
        return
    ctx.assume(ct)
    before = dict(_env(interp, frame, lc))
    try:
        interp.exec_block(node.body, frame)
    except _Break:
        return
    except _Continue:
        pass
    if lc.ghost_step is not None:
        import inspect
        from .interp import Interp
        env = dict(_env(interp, frame, lc))
        for k_, v_ in before.items():
            env['old_' + k_] = v_
        names = list(inspect.signature(lc.ghost_step).parameters)
        sub = Interp(ctx, interp.reg, modular=False)
        upd = sub.call(lc.ghost_step, [env[n] for n in names])
        ctx.interp = interp
        for g, val in upd.items():
            frame.locals[g] = val
    t = _call_inv(interp, lc.invariant, frame, lc)
    ctx.oblige(name + '.inv.preserve', 'inv-preserve', t, {'line': node.lineno})
    if lc.variant is not None:
        v1 = _variant(interp, lc, frame)
        ctx.oblige(name + '.variant', 'variant', z3.And(int_term(variant0) >= 0, int_term(v1) < int_term(variant0)), {})
    else:
        note = 'termination of %s not proved (no variant)' % name
        if note not in ctx.notes:
            ctx.notes.append(note)
    raise CutPath()


def _variant(interp, lc, frame):
    import inspect
    from .interp import Interp
    env = _env(interp, frame, lc)
    names = list(inspect.signature(lc.variant).parameters)
    sub = Interp(interp.ctx, interp.reg, modular=False)
    r = sub.call(lc.variant, [env[n] for n in names])
    interp.ctx.interp = interp
    return r


def _call_named(interp, fn, frame, lc):
    """evaluate a contract expression (a `defines` entry) over the current frame"""
    import inspect
    from .interp import Interp
    env = _env(interp, frame, lc)
    names = list(inspect.signature(fn).parameters)
    missing = [n for n in names if n not in env]
    if missing:
        raise Unsupported('loop contract expression %s asks for unknown names %s' % (getattr(fn, '__name__', fn), missing))
    sub = Interp(interp.ctx, interp.reg, modular=False)
    sub.top_name = getattr(interp, 'top_name', '')
    interp.ctx.no_fork += 1
    try:
        r = sub.call(fn, [env[n] for n in names])
    finally:
        interp.ctx.no_fork -= 1
        interp.ctx.interp = interp
    return r


def _full_inv(interp, frame, lc):
    """user invariant AND  v == defines[v](...)  for every defined variable"""
    ctx = interp.ctx
    conj = []
    t = _call_inv(interp, lc.invariant, frame, lc)
    conj.append(t)
    for v, fn in (lc.defines or {}).items():
        want = _call_named(interp, fn, frame, lc)
        have = frame.lookup(v)
        conj.append(ops.values_eq(ctx, have, want))
    terms = []
    for c in conj:
        if c is False:
            return False
        if c is True:
            continue
        terms.append(c if not isinstance(c, (SBool,)) else c.t)
    if not terms:
        return True
    return z3.And(*terms) if len(terms) > 1 else terms[0]


def for_with_invariant(interp, node, frame, lc, key, it):
    """`for x in <list of symbolic length>` with an inductive invariant over the ghost index (number of elements processed).

    inv.init at index 0; then every variable assigned in the body is havocked - except the variables the contract *defines* as an
    expression of the index and of loop-invariant values, which are bound to that expression (this is `assume v == expr` done by
    substitution, so the remaining obligations are structural) - and the user invariant is assumed.  Body path: 0 <= index < len,
    x = element number index (fields are uninterpreted functions of the position), one execution of the body, index + 1,
    obligation inv.preserve, cut.  Exit path: index = len, execution continues after the loop.  Termination: a for loop over a list
    that the body does not modify terminates (the body must not assign the list: checked syntactically on the iterated name)."""
    from .interp import _Break, _Continue, CutPath
    ctx = interp.ctx
    if not isinstance(it, SList):
        return interp.exec_for_plain(node, frame, it)
    if it.tail or it.taken:
        raise Unsupported('for-loop invariant over a partially materialised list')
    if node.orelse:
        raise Unsupported('for ... else with an invariant')
    # soundness of the havoc set: the body may only change local names (attribute / item stores and calls of mutating methods would change
    # state the invariant rule does not havoc) - unless the contract lists the path under `modifies`
    for st in node.body:
        for sub in ast.walk(st):
            if isinstance(sub, (ast.Attribute, ast.Subscript)) and isinstance(sub.ctx, (ast.Store, ast.Del)):
                path = ast.unparse(sub)
                if path not in lc.modifies:
                    raise Unsupported('loop body assigns %s: not covered by the for-loop invariant rule (list it under modifies)' % path)
            if isinstance(sub, ast.Call) and isinstance(sub.func, ast.Attribute) and sub.func.attr in (
                    'append', 'extend', 'insert', 'pop', 'remove', 'clear', 'update', 'add', 'discard', 'sort', 'reverse', 'setdefault', 'popitem'):
                raise Unsupported('loop body calls the mutating method .%s(): not covered by the for-loop invariant rule' % sub.func.attr)
    # the loop variable is not defined by this rule after the loop: refuse functions that read it there
    if isinstance(node.target, ast.Name) and frame.func is not None:
        from .interp import func_ast
        fn = func_ast(frame.func)
        end = getattr(node, 'end_lineno', node.lineno)
        for sub in ast.walk(fn):
            if isinstance(sub, ast.Name) and sub.id == node.target.id and isinstance(sub.ctx, ast.Load) and sub.lineno > end:
                # a later loop re-binding the same name before the read is fine: only reads that are not inside a later for over the same target
                rebinding = [l for l in ast.walk(fn) if isinstance(l, ast.For) and isinstance(l.target, ast.Name) and l.target.id == sub.id
                             and l.lineno > end and l.lineno <= sub.lineno <= getattr(l, 'end_lineno', l.lineno)]
                comp = [c for c in ast.walk(fn) if isinstance(c, (ast.ListComp, ast.GeneratorExp, ast.SetComp, ast.DictComp))
                        and c.lineno <= sub.lineno <= getattr(c, 'end_lineno', c.lineno)
                        and any(isinstance(g.target, ast.Name) and g.target.id == sub.id for g in c.generators)]
                if not rebinding and not comp:
                    raise Unsupported('loop variable %s is read after the loop' % sub.id)
    name = '%s#loop%d' % (key[0], key[1])
    kname = lc.index or 'k'
    n = it.n
    frame.locals[kname] = 0
    for g, init in lc.ghost.items():
        if g not in frame.locals:
            frame.locals[g] = interp.call(init, []) if callable(init) else init
    ctx.oblige(name + '.inv.init', 'inv-init', _full_inv(interp, frame, lc), {'line': node.lineno})
    mod = (assigned_names(node.body) | set(lc.modifies) | set(lc.ghost)) - {kname}
    if isinstance(node.target, ast.Name):
        mod.discard(node.target.id)
    d = ctx.choose([('body', None), ('exit', None)])
    if d == 1:
        kt = n if not isinstance(n, int) else z3.IntVal(n)
        frame.locals[kname] = wrap_int_(kt)
    else:
        kf = ctx.fresh_int(kname + '@loop')
        ctx.assume(z3.And(kf >= 0, kf < (n if not isinstance(n, int) else z3.IntVal(n))))
        frame.locals[kname] = SInt(kf)
    for v in sorted(mod):
        if '.' in v or v in (lc.defines or {}):
            continue
        try:
            cur = frame.lookup(v)
        except PyRaise:
            continue
        ty = lc.havoc_types.get(v)
        frame.locals[v] = ty.fresh(ctx, v + '@loop') if ty is not None else havoc_like(ctx, cur, v + '@loop')
    for path in lc.modifies:
        if '.' in path:
            objname, attr = path.split('.', 1)
            obj = frame.lookup(objname)
            ty = lc.havoc_types.get(path)
            if ty is not None:
                interp.setattr(obj, attr, ty.fresh(ctx, path + '@loop'))
            else:
                interp.setattr(obj, attr, havoc_like(ctx, interp.getattr(obj, attr), path + '@loop'))
    for v, fn in (lc.defines or {}).items():
        frame.locals[v] = _call_named(interp, fn, frame, lc)
    ctx.assume(_call_inv(interp, lc.invariant, frame, lc))
    if d == 1:
        return
    n0 = z3.Int('len_' + it.rid)
    pos = int_term(frame.locals[kname])
    elem = it.elem.from_prefix(ctx, it.rid, z3.simplify(n0 - pos))
    interp.assign(node.target, elem, frame)
    try:
        interp.exec_block(node.body, frame)
    except _Break:
        raise Unsupported('break inside a for loop with an invariant')
    except _Continue:
        pass
    frame.locals[kname] = wrap_int_(z3.simplify(pos + 1))
    ctx.oblige(name + '.inv.preserve', 'inv-preserve', _full_inv(interp, frame, lc), {'line': node.lineno})
    raise CutPath()


def wrap_int_(t):
    return ops.wrap_int(t)
