"""Path context: decisions (re-execution style forking), path condition, obligations."""
import time
import z3


class Infeasible(Exception):
    """Current path has an unsatisfiable path condition; drop it."""


class Unsupported(Exception):
    """Construct outside the executor's subset (DESIGN §2.9): function is out of reach."""


class PathLimit(Exception):
    pass


class PyRaise(Exception):
    """A Python exception raised by the analysed code."""

    def __init__(self, exc, implicit=False, where=None):
        Exception.__init__(self, repr(exc))
        self.exc = exc
        self.implicit = implicit   # raised by a model (IndexError, OverflowError, ...) not by `raise`
        self.where = where


class Obligation:
    __slots__ = ('name', 'kind', 'pc', 'claim', 'info', 'decisions', 'status', 'solver', 'secs', 'model', 'axioms')

    def __init__(self, name, kind, pc, claim, info=None, decisions=None, axioms=None):
        self.name = name
        self.kind = kind
        self.pc = list(pc)
        self.claim = claim
        self.info = info or {}
        self.decisions = list(decisions or [])
        self.status = None
        self.solver = None
        self.secs = 0.0
        self.model = None
        self.axioms = list(axioms or [])


class Ctx:
    FEAS_TIMEOUT_MS = 3000

    def __init__(self, prefix=(), stats=None):
        self.prefix = list(prefix)
        self.pos = 0
        self.decisions = []
        self.alternatives = []
        self.solver = z3.Solver()
        self.solver.set('timeout', self.FEAS_TIMEOUT_MS)
        self.pc = []
        self.axioms = []          # quantified / background facts, only used in proof queries
        self.obligations = []
        self.counter = {}
        self.steps = 0
        self.max_steps = 400000
        self.stats = stats if stats is not None else {}
        self.notes = []           # e.g. 'unrolled loop ... N times'
        self.ghost = {}
        self.symbols = {}         # name -> z3 const (for model extraction)
        self.feas_unknown = 0
        self.byte_terms = set()
        self.ufs = set()
        self.var_bounds = {}      # name of an Int constant -> (lo, hi) stated when it was created
        self.no_fork = 0          # >0 while evaluating invariants / quantifier bodies: and/or/if-expressions build terms
        self.len_terms = {}       # id -> length-like Int term (for small-model preference in counterexamples)
        self.opaque_facts_done = set()
        self.soft = set()         # ids of facts tying z3 sequence lengths to tracked lengths (droppable in proofs)
        self.byte_origin = {}     # z3 ast id of a byte item -> (term, byte index) it was cut from
        self.cover = set()

    # -- fresh symbols -------------------------------------------------------------------------
    def fresh_name(self, base):
        k = self.counter.get(base, 0)
        self.counter[base] = k + 1
        return base if k == 0 else '%s!%d' % (base, k)

    def fresh_int(self, base):
        c = z3.Int(self.fresh_name(base))
        self.symbols[str(c)] = c
        return c

    def fresh_bool(self, base):
        c = z3.Bool(self.fresh_name(base))
        self.symbols[str(c)] = c
        return c

    def fresh_real(self, base):
        c = z3.Real(self.fresh_name(base))
        self.symbols[str(c)] = c
        return c

    COUPLE_MAX = 1024

    def fresh_seq(self, base):
        """fresh sequence symbol with its executor-tracked length; returns values.SeqPart"""
        from .values import SeqPart
        nm = self.fresh_name(base)
        c = z3.Const(nm, z3.SeqSort(z3.IntSort()))
        n = z3.Int('len(%s)' % nm)
        self.symbols[str(c)] = c
        self.symbols[str(n)] = n
        self.fact(n >= 0)
        self.couple(c, n)
        self.len_terms[n.get_id()] = n
        return SeqPart(c, n)

    def couple(self, term, n):
        """tie z3's Length(term) to the tracked length for short sequences only"""
        if isinstance(n, int):
            f = z3.Length(term) == n
        else:
            f = z3.Implies(n <= self.COUPLE_MAX, z3.Length(term) == n)
        f = z3.simplify(f)
        if z3.is_true(f) or f.get_id() in self.soft:
            return
        # only part of the obligations' hypotheses; the path-feasibility solver works without sequence-length
        # coupling (an over-approximation of feasibility, which is sound: infeasible paths yield vacuous obligations)
        self.soft.add(f.get_id())
        self.pc.append(f)

    # -- path condition ---------------------------------------------------------------------------
    def assume(self, cond):
        if isinstance(cond, bool):
            if not cond:
                raise Infeasible()
            return
        cond = z3.simplify(cond)
        if z3.is_true(cond):
            return
        if z3.is_false(cond):
            raise Infeasible()
        self.pc.append(cond)
        self.solver.add(cond)

    def fact(self, cond):
        """A type fact that is true by construction (element of bytes in 0..255 ...)."""
        self.assume(cond)

    def byte_fact(self, e):
        """e is an element of a bytes object: 0 <= e <= 255 by construction"""
        if z3.is_int_value(e):
            return
        if e.get_id() not in self.byte_terms:
            self.byte_terms.add(e.get_id())
            if z3.is_const(e):
                self.var_bounds[str(e)] = (0, 255)
            self.fact(z3.And(e >= 0, e <= 255))

    def check(self, *extra):
        try:
            r = self.solver.check(*extra)
        except z3.Z3Exception:
            r = z3.unknown
        if r == z3.unknown:
            self.feas_unknown += 1
        return r

    def must_be_feasible(self):
        if self.check() == z3.unsat:
            raise Infeasible()

    # -- decisions ---------------------------------------------------------------------------------
    def branch(self, cond):
        """Fork on a symbolic condition; returns the Python bool chosen for this path."""
        if isinstance(cond, bool):
            return cond
        cond = z3.simplify(cond)
        if z3.is_true(cond):
            return True
        if z3.is_false(cond):
            return False
        if self.no_fork:
            # inside an invariant / quantifier body only conditions already decided by the path may be branched on
            if self.check(z3.Not(cond)) == z3.unsat:
                return True
            if self.check(cond) == z3.unsat:
                return False
            raise Unsupported('path split inside an invariant or quantifier body on %s' % str(cond)[:120])
        if self.pos < len(self.prefix):
            d = self.prefix[self.pos]
            self.pos += 1
            self.decisions.append(d)
            self.assume(cond if d else z3.Not(cond))
            return d
        t = self.check(cond) != z3.unsat
        f = self.check(z3.Not(cond)) != z3.unsat
        if not t and not f:
            raise Infeasible()
        if t and f:
            self.alternatives.append(self.decisions + [False])
            d = True
        else:
            d = t
        self.pos += 1
        self.decisions.append(d)
        self.assume(cond if d else z3.Not(cond))
        return d

    def choose(self, options):
        """Fork over a list of (label, cond) alternatives; returns the index chosen."""
        if self.pos < len(self.prefix):
            d = self.prefix[self.pos]
            self.pos += 1
            self.decisions.append(d)
            c = options[d][1]
            if c is not None:
                self.assume(c)
            return d
        feas = [i for i, (_, c) in enumerate(options) if c is None or self.check(c) != z3.unsat]
        if not feas:
            raise Infeasible()
        for i in feas[1:]:
            self.alternatives.append(self.decisions + [i])
        d = feas[0]
        self.pos += 1
        self.decisions.append(d)
        c = options[d][1]
        if c is not None:
            self.assume(c)
        return d

    def concretize(self, term, limit=80, what='value'):
        """Fork over every value `term` can take (finite, small); returns a Python int."""
        if isinstance(term, int):
            return term
        term = z3.simplify(term)
        if z3.is_int_value(term):
            return term.as_long()
        if self.pos < len(self.prefix):
            d = self.prefix[self.pos]
            self.pos += 1
            self.decisions.append(d)
            self.assume(term == d[1])
            return d[1]
        vals = []
        self.solver.push()
        try:
            while True:
                r = self.solver.check()
                if r == z3.unsat:
                    break
                if r == z3.unknown:
                    raise Unsupported('cannot enumerate %s (solver unknown)' % what)
                v = self.solver.model().eval(term, model_completion=True).as_long()
                vals.append(v)
                if len(vals) > limit:
                    raise Unsupported('%s has more than %d possible values; needs an invariant or a bound' % (what, limit))
                self.solver.add(term != v)
        finally:
            self.solver.pop()
        if not vals:
            raise Infeasible()
        vals.sort()
        for v in vals[1:]:
            self.alternatives.append(self.decisions + [('v', v)])
        self.pos += 1
        self.decisions.append(('v', vals[0]))
        self.assume(term == vals[0])
        return vals[0]

    # -- obligations -------------------------------------------------------------------------------
    def oblige(self, name, kind, claim, info=None):
        if isinstance(claim, bool):
            claim = z3.BoolVal(claim)
        ob = Obligation(name, kind, self.pc, claim, info, self.decisions, self.axioms)
        ob.info['soft'] = self.soft
        self.obligations.append(ob)

    def tick(self):
        self.steps += 1
        if self.steps > self.max_steps:
            raise PathLimit('step limit')


class UnsupportedPath:
    """outcome of a path the executor could not follow to its end (kind 'unsupported'); the path condition up to that point is in ctx"""
    kind = 'unsupported'

    def __init__(self, detail):
        self.detail = detail


def explore(run_path, max_paths=4000, time_limit=600, keep_unsupported=False):
    """Depth-first exploration of all decision vectors.  run_path(ctx) executes one path and
    returns an outcome object (or raises Infeasible).  Returns list of (ctx, outcome)."""
    work = [[]]
    results = []
    t0 = time.time()
    n = 0
    while work:
        prefix = work.pop()
        ctx = Ctx(prefix)
        try:
            out = run_path(ctx)
        except Infeasible:
            out = 'infeasible' if ctx.obligations else None
        except Unsupported as e:
            if not keep_unsupported:
                raise
            out = UnsupportedPath(str(e))
            ctx.obligations = []
        for alt in ctx.alternatives:
            work.append(alt)
        if out is not None:
            results.append((ctx, out))
        n += 1
        if n > max_paths:
            raise PathLimit('more than %d paths' % max_paths)
        if time.time() - t0 > time_limit:
            raise PathLimit('exploration time limit %ds' % time_limit)
    return results
