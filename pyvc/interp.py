"""Symbolic interpreter for the Python subset of DESIGN §2.3, run on the *real* source of /repo.

Forking is by re-execution with decision vectors (ctx.Ctx); this file is a plain recursive
evaluator.  Calls: models for builtins, native CPython evaluation when every operand is concrete,
contracts / uninterpreted specs / inlining for Python functions.
"""
import ast
import builtins
import inspect
import types
import z3

from .values import *
from .ctx import PyRaise, Unsupported, Infeasible, PathLimit
from . import ops
from .ops import wrap_int, wrap_bool, int_term, truth, truth_term, pyraise

# ---------------------------------------------------------------------------------------------------
# source access: always from the file the function object was loaded from

_file_cache = {}


def _parse_file(path):
    if path not in _file_cache:
        with open(path, 'rb') as f:
            src = f.read()
        tree = ast.parse(src, path)
        index = {}
        for node in ast.walk(tree):
            if isinstance(node, (ast.FunctionDef, ast.Lambda)):
                first = node.lineno
                if isinstance(node, ast.FunctionDef) and node.decorator_list:
                    first = min([first] + [d.lineno for d in node.decorator_list])
                index.setdefault((getattr(node, 'name', '<lambda>'), first), node)
                index.setdefault((getattr(node, 'name', '<lambda>'), node.lineno), node)
        _file_cache[path] = (tree, index, src)
    return _file_cache[path]


def func_ast(fobj):
    code = fobj.__code__
    tree, index, _ = _parse_file(code.co_filename)
    node = index.get((code.co_name, code.co_firstlineno))
    if node is None:
        # lambdas: several may share a line; pick by column order is impossible from code object -> first match
        raise Unsupported('source of %s not found' % (getattr(fobj, '__qualname__', fobj),))
    return node


def source_file_of(fobj):
    return fobj.__code__.co_filename


# ---------------------------------------------------------------------------------------------------
# interpreter-level callables

_class_attr_cache = {}


def _assigned_in_class(cls, name):
    """does any method of the class hierarchy (source in /repo) assign self.<name>?"""
    key = cls
    if key not in _class_attr_cache:
        names = set()
        for k in cls.__mro__:
            if k is object:
                continue
            try:
                path = inspect.getsourcefile(k)
                tree, _, _ = _parse_file(path)
            except (TypeError, OSError):
                continue
            for node in ast.walk(tree):
                if isinstance(node, ast.ClassDef) and node.name == k.__name__:
                    for n in ast.walk(node):
                        if isinstance(n, ast.Attribute) and isinstance(n.ctx, ast.Store) and isinstance(n.value, ast.Name) and n.value.id == 'self':
                            names.add(n.attr)
                        if isinstance(n, ast.Call) and isinstance(n.func, ast.Name) and n.func.id == 'setattr' and n.args \
                                and isinstance(n.args[0], ast.Name) and n.args[0].id == 'self':
                            if len(n.args) > 1 and isinstance(n.args[1], ast.Constant):
                                names.add(n.args[1].value)
                            else:
                                names.add('*')
        _class_attr_cache[key] = names
    names = _class_attr_cache[key]
    return name in names or '*' in names


def _pure_simple(node):
    """expression without calls / attribute access: constants, names, subscripts, arithmetic"""
    for n in ast.walk(node):
        if not isinstance(n, (ast.Constant, ast.Name, ast.Subscript, ast.BinOp, ast.UnaryOp, ast.Load, ast.operator, ast.unaryop, ast.Index)):
            return False
    return True


class InterpFunction:
    """lambda or nested def closed over an interpreter frame."""

    def __init__(self, node, frame, name='<lambda>'):
        self.node = node
        self.frame = frame
        self.name = name


class BoundMethod:
    def __init__(self, func, self_val):
        self.func = func
        self.self_val = self_val


class SuperProxy:
    """super(cls, obj) for a record object: attribute lookup starts after cls in the MRO of obj's class"""
    def __init__(self, cls, obj):
        self.cls, self.obj = cls, obj


class ModelMethod:
    def __init__(self, name, self_val):
        self.name = name
        self.self_val = self_val


class Frame:
    __slots__ = ('locals', 'globals', 'parent', 'func', 'qualname')

    def __init__(self, locals_, globals_, parent=None, func=None, qualname=None):
        self.locals = locals_
        self.globals = globals_
        self.parent = parent
        self.func = func
        self.qualname = qualname

    def lookup(self, name):
        f = self
        while f is not None:
            if name in f.locals:
                return f.locals[name]
            f = f.parent
        if name in self.globals:
            return self.globals[name]
        if hasattr(builtins, name):
            return getattr(builtins, name)
        raise PyRaise(NameError("name '%s' is not defined" % name), implicit=True)


class _Return(Exception):
    def __init__(self, value):
        self.value = value


class _Break(Exception):
    pass


class _Continue(Exception):
    pass


class CutPath(Exception):
    """End of a loop-body path after its invariant obligation was emitted."""


_BINOPS = {ast.Add: 'Add', ast.Sub: 'Sub', ast.Mult: 'Mult', ast.FloorDiv: 'FloorDiv', ast.Mod: 'Mod',
           ast.Pow: 'Pow', ast.RShift: 'RShift', ast.LShift: 'LShift', ast.BitAnd: 'BitAnd',
           ast.BitOr: 'BitOr', ast.BitXor: 'BitXor', ast.Div: 'Div', ast.MatMult: 'MatMult'}
_CMPOPS = {ast.Eq: 'Eq', ast.NotEq: 'NotEq', ast.Lt: 'Lt', ast.LtE: 'LtE', ast.Gt: 'Gt', ast.GtE: 'GtE',
           ast.Is: 'Is', ast.IsNot: 'IsNot', ast.In: 'In', ast.NotIn: 'NotIn'}

_STRUCTURAL_BUILTINS = {enumerate, zip, reversed, list, tuple, iter, dict}
_SAFE_LIST_METHODS = {'append', 'extend', 'insert', 'clear', 'reverse', 'copy', '__len__', 'pop', 'items', 'keys',
                      'values', 'get', 'update', 'setdefault', '__getitem__', '__setitem__', 'add'}


class Registry:
    """What the interpreter knows about callables: models, contracts, uninterpreted specs."""

    def __init__(self):
        self.models = {}        # callable -> model(interp, args, kwargs)
        self.contracts = {}     # function object -> Contract (applied at call sites when modular)
        self.inline_only = set()
        self.loop_contracts = {}  # (qualname, ordinal) -> LoopContract
        self.ignore_calls = set()  # logger functions etc. treated as pass
        self.attr_models = {}     # (pytype, attrname) -> model(interp, obj)
        self.use_opaque = True
        self.sym_methods = {}     # Sym subclass -> method model(interp, obj, name, args, kwargs)
        self.sym_attrs = {}       # Sym subclass -> attribute model(interp, obj, name)
        self.sym_binops = []      # models for operators on custom symbolic objects
        self.sym_getitem = {}
        self.sym_int = {}
        self.sym_truth = {}
        self.sym_float = {}
        self.sym_eq = []          # equality models for custom symbolic values: fn(ctx, a, b) -> bool / z3 Bool / NotImplemented
        self.sym_calls = {}       # Sym subclass -> call model(interp, obj, args, kwargs)
        self.ctor_models = {}     # class -> assumed constructor model(interp, args, kwargs)

    def model(self, f):
        def deco(fn):
            self.models[f] = fn
            return fn
        return deco


class Interp:
    MAX_UNROLL = 70
    MAX_DEPTH = 60

    def __init__(self, ctx, registry, modular=True, top=None):
        self.ctx = ctx
        self.reg = registry
        self.modular = modular
        self.top = top          # function object under verification (never replaced by its contract)
        self.depth = 0
        ctx.interp = self
        from . import api as _api
        _api._CURRENT[0] = ctx
        self.trace_calls = []
        self.called_contracts = set()
        self.inlined = set()
        self.native_calls = set()
        self.repo_models = set()
        self.opaque_used = set()

    # ------------------------------------------------------------------------------------------
    # calling

    def call_function_ast(self, fobj, node, args, kwargs, closure_frame=None, name=None):
        """Interpret a FunctionDef / Lambda node with already evaluated arguments."""
        self.depth += 1
        if self.depth > self.MAX_DEPTH:
            raise Unsupported('call depth')
        try:
            if fobj is not None:
                sig = inspect.signature(fobj)
                varpos = [p.name for p in sig.parameters.values() if p.kind == p.VAR_POSITIONAL]
                if varpos and varpos[0] in kwargs and not args:
                    # a contract passes *args by name: rebuild the positional call
                    kwargs = dict(kwargs)
                    star = list(kwargs.pop(varpos[0]))
                    pos = []
                    for p in sig.parameters.values():
                        if p.kind in (p.POSITIONAL_ONLY, p.POSITIONAL_OR_KEYWORD) and p.name in kwargs:
                            pos.append(kwargs.pop(p.name))
                        elif p.kind == p.VAR_POSITIONAL:
                            break
                    args = pos + star
                try:
                    ba = sig.bind(*args, **kwargs)
                except TypeError as e:
                    raise PyRaise(e, implicit=True)
                ba.apply_defaults()
                local = dict(ba.arguments)
                parent = None
                if fobj.__closure__:
                    cells = {}
                    for nm, cell in zip(fobj.__code__.co_freevars, fobj.__closure__):
                        try:
                            cells[nm] = cell.cell_contents
                        except ValueError:
                            pass
                    parent = Frame(cells, fobj.__globals__, None, None, fobj.__qualname__)
                frame = Frame(local, fobj.__globals__, parent, fobj, fobj.__qualname__)
            else:
                local = self._bind_ast_args(node.args, args, kwargs, closure_frame)
                frame = Frame(local, closure_frame.globals, closure_frame, None,
                              (closure_frame.qualname or '') + '.' + (name or '<lambda>'))
            if isinstance(node, ast.Lambda):
                return self.eval(node.body, frame)
            if fobj is not None and fobj is self.top:
                for gk, gv in getattr(self, 'ghost_locals', {}).items():
                    local.setdefault(gk, gv)
                self.top_locals = local
            try:
                self.exec_block(node.body, frame)
            except _Return as r:
                return r.value
            return None
        finally:
            self.depth -= 1

    def _bind_ast_args(self, a, args, kwargs, frame):
        names = [x.arg for x in a.posonlyargs + a.args]
        local = {}
        if len(args) > len(names) and not a.vararg:
            raise PyRaise(TypeError('too many positional arguments'), implicit=True)
        for n, v in zip(names, args):
            local[n] = v
        if a.vararg:
            local[a.vararg.arg] = tuple(args[len(names):])
        defaults = a.defaults
        dstart = len(names) - len(defaults)
        for i, n in enumerate(names):
            if n in local:
                continue
            if n in kwargs:
                local[n] = kwargs.pop(n)
            elif i >= dstart:
                local[n] = self.eval(defaults[i - dstart], frame)
            else:
                raise PyRaise(TypeError('missing argument %s' % n), implicit=True)
        for k, d in zip(a.kwonlyargs, a.kw_defaults):
            if k.arg in kwargs:
                local[k.arg] = kwargs.pop(k.arg)
            elif d is not None:
                local[k.arg] = self.eval(d, frame)
        if kwargs:
            if a.kwarg:
                local[a.kwarg.arg] = dict(kwargs)
            else:
                raise PyRaise(TypeError('unexpected keyword arguments %s' % list(kwargs)), implicit=True)
        elif a.kwarg:
            local[a.kwarg.arg] = {}
        return local

    def native(self, f, args, kwargs):
        try:
            return f(*args, **kwargs)
        except PyRaise:
            raise
        except (Unsupported, Infeasible, PathLimit, CutPath):
            raise
        except Exception as e:       # exception raised by real code on concrete inputs
            raise PyRaise(e, implicit=False)

    def call(self, f, args, kwargs=None):
        kwargs = kwargs or {}
        self.ctx.tick()
        if isinstance(f, InterpFunction):
            return self.call_function_ast(None, f.node, list(args), dict(kwargs), f.frame, f.name)
        if isinstance(f, BoundMethod):
            return self.call(f.func, [f.self_val] + list(args), kwargs)
        if isinstance(f, ModelMethod):
            from . import models
            return models.call_method(self, f.self_val, f.name, list(args), kwargs)
        if isinstance(f, Sym):
            for k, fn in self.reg.sym_calls.items():
                if isinstance(f, k):
                    return fn(self, f, list(args), kwargs)
            raise Unsupported('call of symbolic value %r' % (f,))
        try:
            m = self.reg.models.get(f)
        except TypeError:
            m = None
        if m is not None:
            if str(getattr(f, '__module__', '') or '').startswith('bitcoinlib') and f is not self.top:
                # an ASSUMED model of repository code: the proof of the contract under verification rests on it
                self.repo_models.add('%s.%s' % (f.__module__, getattr(f, '__qualname__', getattr(f, '__name__', '?'))))
            return m(self, list(args), kwargs)
        if f in self.reg.ignore_calls:
            return None
        if isinstance(f, types.MethodType):
            slf = f.__self__
            fn = f.__func__
            if fn in self.reg.ignore_calls or getattr(slf, '__class__', None).__name__ in ('Logger', 'RootLogger'):
                return None
            if isinstance(fn, types.FunctionType):
                if is_concrete(slf) and is_concrete(args) and is_concrete(kwargs) and not self._has_contract(fn):
                    self.native_calls.add(getattr(fn, '__qualname__', str(fn)))
                    return self.native(f, args, kwargs)
                return self.call(fn, [slf] + list(args), kwargs)
            return self.call(fn, [slf] + list(args), kwargs)
        if isinstance(f, types.BuiltinMethodType) and not isinstance(f.__self__, types.ModuleType) \
                and f.__self__ is not None and not isinstance(f.__self__, type):
            slf = f.__self__
            if type(slf).__name__ in ('Logger', 'RootLogger'):
                return None
            if isinstance(slf, (list, dict, set)) or isinstance(slf, (bytes, str, int, tuple, bytearray)):
                if f.__name__ in _SAFE_LIST_METHODS and isinstance(slf, (list, dict, set)):
                    if f.__name__ == 'pop' and isinstance(slf, list) and args and not isinstance(args[0], int):
                        t = int_term(args[0])
                        if not self.ctx.branch(z3.And(t >= -len(slf), t < len(slf))):
                            raise PyRaise(IndexError('pop index out of range'), implicit=True)
                        k = self.ctx.concretize(t, limit=200, what='pop index')
                        return self.native(f, [k], {})
                    if not (isinstance(slf, dict) and not is_concrete(args[:1])):
                        return self.native(f, args, kwargs)
                if is_concrete(args) and is_concrete(kwargs) and (is_concrete(slf) or f.__name__ in ('count',)):
                    return self.native(f, args, kwargs)
                from . import models
                return models.call_method(self, slf, f.__name__, list(args), kwargs)
            if is_concrete(args) and is_concrete(kwargs):
                return self.native(f, args, kwargs)
            raise Unsupported('builtin method %s.%s with symbolic arguments' % (type(slf).__name__, f.__name__))
        if isinstance(f, type):
            return self.call_class(f, list(args), kwargs)
        if isinstance(f, types.FunctionType):
            return self.call_pyfunc(f, list(args), kwargs)
        if f in _STRUCTURAL_BUILTINS:
            if all(not isinstance(a, Sym) for a in args):
                return self.native(f, args, kwargs)
            from . import models
            return models.structural(self, f, list(args), kwargs)
        if is_concrete(args) and is_concrete(kwargs):
            return self.native(f, args, kwargs)
        raise Unsupported('call of %r with symbolic arguments' % (f,))

    def _has_contract(self, f):
        return self.modular and f in self.reg.contracts and f is not self.top

    def call_pyfunc(self, f, args, kwargs):
        if f in self.reg.ignore_calls:
            return None
        oq = getattr(f, '_pyvc_opaque', None)
        if oq is not None and self.reg.use_opaque and not kwargs:
            if any(isinstance(a, (SBytes, SStr)) and a.items is None for a in args):
                return self.call_opaque(f, oq, args)
        if self._has_contract(f):
            cs = self.reg.contracts[f]
            for c in (cs if isinstance(cs, list) else [cs]):
                r = c.apply(self, f, args, kwargs)
                if r is not NotImplemented:
                    self.called_contracts.add(c.key)
                    return r
        if f is not self.top and is_concrete(args) and is_concrete(kwargs) and f.__module__ \
                and not f.__module__.startswith('contracts') and not getattr(f, '_pyvc_no_native', False):
            self.native_calls.add(f.__qualname__)
            return self.native(f, args, kwargs)
        node = func_ast(f)
        self.inlined.add('%s.%s' % (f.__module__, f.__qualname__))
        for d in getattr(node, 'decorator_list', []):
            dn = d.id if isinstance(d, ast.Name) else (d.attr if isinstance(d, ast.Attribute) else None)
            if dn not in ('staticmethod', 'classmethod', 'property', 'deprecated', 'uf', 'spec', 'ghost', 'setter', 'getter'):
                if not (isinstance(d, ast.Call)):
                    raise Unsupported('decorator %s on %s' % (ast.dump(d)[:40], f.__qualname__))
        if any(isinstance(n, (ast.Yield, ast.YieldFrom, ast.Await)) for n in ast.walk(node)):
            raise Unsupported('generator %s' % f.__qualname__)
        return self.call_function_ast(f, node, args, kwargs)

    def call_pyfunc_body(self, f, args, kwargs):
        """interpret the body of a Python function, bypassing models and contracts registered for it"""
        return self.call_function_ast(f, func_ast(f), list(args), dict(kwargs))

    def call_opaque(self, f, oq, args):
        from . import models
        ctx = self.ctx
        name = '%s.%s' % (f.__module__.split('.')[-1], f.__name__)
        sorts, terms = [], []
        for a in args:
            if isinstance(a, (bytes, SBytes, str, SStr)):
                sorts.append(IntSeq)
                terms.append(ops.as_sseq(a).seq_term())
            elif isinstance(a, (int, SInt, SBool)):
                sorts.append(z3.IntSort())
                terms.append(int_term(a))
            else:
                raise Unsupported('argument %r of opaque spec %s' % (a, name))
        ctx.ufs.add(name)
        self.opaque_used.add(name)
        if oq['result'] == 'int':
            r = SInt(z3.Function(name, *(sorts + [z3.IntSort()]))(*terms))
        elif oq['result'] == 'bool':
            r = SBool(z3.Function(name, *(sorts + [z3.BoolSort()]))(*terms))
        else:
            app = z3.Function(name, *(sorts + [IntSeq]))(*terms)
            if oq['outlen'] is not None:
                ctx.couple(app, oq['outlen'])
                r = SBytes(seq=SeqPart(app, oq['outlen']))
            else:
                ln = z3.Function(name + '.len', *(sorts + [z3.IntSort()]))(*terms)
                ctx.fact(ln >= 0)
                ctx.couple(app, ln)
                r = SBytes(seq=SeqPart(app, ln))
        if oq['facts'] is not None:
            key = (name, tuple(t.get_id() for t in terms))
            if key not in ctx.opaque_facts_done:
                ctx.opaque_facts_done.add(key)
                sub = Interp(ctx, self.reg, modular=False)
                sub.top_name = getattr(self, 'top_name', '')
                sub.opaque_used = self.opaque_used
                facts = sub.call(oq['facts'], list(args) + [r])
                for fa in self.iterate(facts):
                    ctx.assume(truth_term(ctx, fa))
        return r

    def call_class(self, cls, args, kwargs):
        from . import models
        if cls is super and len(args) == 2 and isinstance(args[0], type) and isinstance(args[1], Rec) and not kwargs:
            if args[0] not in args[1].cls.__mro__:
                raise PyRaise(TypeError('super(type, obj): obj must be an instance or subtype of type'), implicit=True)
            return SuperProxy(args[0], args[1])
        m = self.reg.models.get(cls)
        if m is not None:
            return m(self, args, kwargs)
        cm = self.reg.ctor_models.get(cls)
        if cm is not None and not (is_concrete(args) and is_concrete(kwargs)) and not (self.top is not None and getattr(self.top, '__qualname__', '').startswith(cls.__name__ + '.__init__')):
            return cm(self, args, kwargs)
        if cls in (int, bool, bytes, str, list, tuple, dict, set, float, bytearray, range, frozenset, type, object,
                   enumerate, zip, reversed, map, filter, isinstance):
            return models.call_builtin_type(self, cls, args, kwargs)
        if isinstance(cls, type) and issubclass(cls, BaseException):
            try:
                return cls(*[a if is_concrete(a) else '<symbolic>' for a in args])
            except Exception as e:
                raise PyRaise(e, implicit=True)
        if is_concrete(args) and is_concrete(kwargs) and cls not in self.reg.contracts:
            return self.native(cls, args, kwargs)
        if issubclass(cls, list) and len(args) <= 1 and not kwargs and '__init__' not in cls.__dict__:
            # list subclass (bitcoinlib.scripts.Stack): structure only, elements may be symbolic
            if args and isinstance(args[0], SList):
                a = args[0]
                return SList(a.rid, a.n, list(a.tail), a.elem, cls, a.taken)
            if args and isinstance(args[0], Sym):
                raise Unsupported('%s(<symbolic>)' % cls.__name__)
            return cls(*args)
        init = None
        for k in cls.__mro__:
            if '__init__' in k.__dict__:
                init = k.__dict__['__init__']
                break
        if isinstance(init, types.FunctionType):
            if '__new__' in cls.__dict__:
                raise Unsupported('__new__ in %s' % cls.__name__)
            obj = Rec(cls)
            self.call(init, [obj] + args, kwargs)
            return obj
        raise Unsupported('constructor %s with symbolic arguments' % cls.__name__)

    # ------------------------------------------------------------------------------------------
    # attribute access

    def getattr(self, obj, name):
        if isinstance(obj, SuperProxy):
            mro = obj.obj.cls.__mro__
            for k in mro[mro.index(obj.cls) + 1:]:
                if name in k.__dict__:
                    raw = k.__dict__[name]
                    if isinstance(raw, types.FunctionType):
                        return BoundMethod(raw, obj.obj)
                    raise Unsupported('super().%s is not a plain method' % name)
            raise PyRaise(AttributeError("'super' object has no attribute '%s'" % name), implicit=True)
        if isinstance(obj, Rec):
            if name in obj.attrs:
                return obj.attrs[name]
            if name == '__class__':
                return obj.cls
            if name == '__dict__':
                return obj.attrs
            return self._class_attr(obj.cls, obj, name)
        if isinstance(obj, SList):
            if obj.cls is not list:
                for k in obj.cls.__mro__:
                    if k is list:
                        break
                    if name in k.__dict__:
                        return self._class_attr(obj.cls, obj, name)
            return ModelMethod(name, obj)
        if isinstance(obj, Opaque):
            am = self.reg.attr_models.get((obj.pytype, name))
            if am is not None:
                return am(self, obj)
            raise Unsupported('attribute %s of opaque %s' % (name, obj.name))
        if isinstance(obj, Sym):
            for k, fn in self.reg.sym_attrs.items():
                if isinstance(obj, k):
                    try:
                        return fn(self, obj, name)
                    except Unsupported:
                        break
            return ModelMethod(name, obj)
        # native object
        t = type(obj)
        if not isinstance(obj, (type, types.ModuleType)) and not isinstance(obj, (int, str, bytes, float, list, dict, tuple, set)):
            # a real object: properties implemented in Python are interpreted if the object holds symbolic state
            try:
                raw = inspect.getattr_static(obj, name)
            except AttributeError:
                raw = None
            if isinstance(raw, property) and isinstance(raw.fget, types.FunctionType) and not is_concrete(getattr(obj, '__dict__', {})):
                return self.call(raw.fget, [obj])
        try:
            return getattr(obj, name)
        except AttributeError as e:
            raise PyRaise(e, implicit=True)
        except Exception as e:
            raise PyRaise(e, implicit=False)

    def _class_attr(self, cls, obj, name):
        for k in cls.__mro__:
            if name in k.__dict__:
                raw = k.__dict__[name]
                if isinstance(raw, types.FunctionType):
                    return BoundMethod(raw, obj)
                if isinstance(raw, staticmethod):
                    return raw.__func__
                if isinstance(raw, classmethod):
                    return BoundMethod(raw.__func__, cls)
                if isinstance(raw, property):
                    return self.call(raw.fget, [obj])
                if hasattr(raw, '__get__') and not isinstance(raw, (int, str, bytes, tuple, list, dict, type(None))):
                    if k in (list, object, dict):
                        return ModelMethod(name, obj)
                    raise Unsupported('descriptor %s.%s' % (k.__name__, name))
                return raw
        if obj is not None and isinstance(obj, Rec) and _assigned_in_class(cls, name):
            # the class itself stores this attribute somewhere (a cache set by an earlier call, ...): the contract's record
            # shape does not describe it, so nothing may be concluded about code that reads it
            raise Unsupported("attribute '%s' of %s is assigned by the class but not described by the contract's parameter "
                              "shape (object state left by earlier calls is not covered)" % (name, cls.__name__))
        raise PyRaise(AttributeError("'%s' object has no attribute '%s'" % (cls.__name__, name)), implicit=True)

    def setattr(self, obj, name, value):
        if isinstance(obj, Rec):
            if obj.__dict__.get('list_element'):
                raise Unsupported('assignment to field %s of an element of a symbolic-length list (the element is a view; the write would be lost)' % name)
            raw = None
            for k in obj.cls.__mro__:
                if name in k.__dict__:
                    raw = k.__dict__[name]
                    break
            if isinstance(raw, property):
                if raw.fset is None:
                    raise PyRaise(AttributeError("can't set attribute %s" % name), implicit=True)
                self.call(raw.fset, [obj, value])
                return
            obj.attrs[name] = value
            return
        if isinstance(obj, Sym):
            raise Unsupported('attribute assignment on %r' % obj)
        try:
            setattr(obj, name, value)
        except Exception as e:
            raise PyRaise(e, implicit=True)

    # ------------------------------------------------------------------------------------------
    # statements

    def exec_block(self, stmts, frame):
        for s in stmts:
            self.exec(s, frame)

    def exec(self, node, frame):
        self.ctx.tick()
        m = getattr(self, 'exec_' + type(node).__name__, None)
        if m is None:
            raise Unsupported('statement %s (line %d)' % (type(node).__name__, node.lineno))
        return m(node, frame)

    def exec_Pass(self, node, frame):
        pass

    def exec_Expr(self, node, frame):
        if isinstance(node.value, ast.Constant):
            return   # docstring
        self.eval(node.value, frame)

    def exec_Return(self, node, frame):
        raise _Return(self.eval(node.value, frame) if node.value is not None else None)

    def exec_Break(self, node, frame):
        raise _Break()

    def exec_Continue(self, node, frame):
        raise _Continue()

    def exec_Global(self, node, frame):
        raise Unsupported('global statement')

    def exec_Import(self, node, frame):
        for a in node.names:
            mod = __import__(a.name)
            frame.locals[a.asname or a.name.split('.')[0]] = mod if not a.asname else __import__(a.name, fromlist=['x'])

    def exec_ImportFrom(self, node, frame):
        import importlib
        if node.level:
            pkg = frame.globals.get('__package__') or frame.globals['__name__'].rpartition('.')[0]
            mod = importlib.import_module('.' * node.level + (node.module or ''), pkg)
        else:
            mod = importlib.import_module(node.module)
        for a in node.names:
            frame.locals[a.asname or a.name] = getattr(mod, a.name)

    def exec_Assign(self, node, frame):
        v = self.eval(node.value, frame)
        for t in node.targets:
            self.assign(t, v, frame)

    def exec_AnnAssign(self, node, frame):
        if node.value is not None:
            self.assign(node.target, self.eval(node.value, frame), frame)

    def exec_AugAssign(self, node, frame):
        t = node.target
        opname = _BINOPS[type(node.op)]
        if isinstance(t, ast.Name):
            cur = frame.lookup(t.id)
            rhs = self.eval(node.value, frame)
            if isinstance(cur, list) and opname == 'Add':
                if isinstance(rhs, SList):
                    raise Unsupported('list += symbolic list')
                cur.extend(rhs)
                return
            self.assign(t, self.binop(opname, cur, rhs), frame)
        elif isinstance(t, ast.Attribute):
            obj = self.eval(t.value, frame)
            cur = self.getattr(obj, t.attr)
            rhs = self.eval(node.value, frame)
            if isinstance(cur, list) and opname == 'Add':
                cur.extend(rhs)
                return
            self.setattr(obj, t.attr, self.binop(opname, cur, rhs))
        elif isinstance(t, ast.Subscript):
            obj = self.eval(t.value, frame)
            idx = self.eval_index(t.slice, frame)
            cur = self.getitem(obj, idx)
            rhs = self.eval(node.value, frame)
            self.setitem(obj, idx, self.binop(opname, cur, rhs))
        else:
            raise Unsupported('augmented assignment target')

    def assign(self, t, v, frame):
        if isinstance(t, ast.Name):
            f = frame
            frame.locals[t.id] = v
        elif isinstance(t, (ast.Tuple, ast.List)):
            vals = self.iterate(v)
            starred = [i for i, e in enumerate(t.elts) if isinstance(e, ast.Starred)]
            if starred:
                i = starred[0]
                after = len(t.elts) - i - 1
                if len(vals) < len(t.elts) - 1:
                    pyraise(ValueError, 'not enough values to unpack')
                for e, x in zip(t.elts[:i], vals[:i]):
                    self.assign(e, x, frame)
                self.assign(t.elts[i].value, list(vals[i:len(vals) - after]), frame)
                for e, x in zip(t.elts[i + 1:], vals[len(vals) - after:]):
                    self.assign(e, x, frame)
                return
            if len(vals) != len(t.elts):
                pyraise(ValueError, 'unpack: expected %d values, got %d' % (len(t.elts), len(vals)))
            for e, x in zip(t.elts, vals):
                self.assign(e, x, frame)
        elif isinstance(t, ast.Attribute):
            self.setattr(self.eval(t.value, frame), t.attr, v)
        elif isinstance(t, ast.Subscript):
            obj = self.eval(t.value, frame)
            self.setitem(obj, self.eval_index(t.slice, frame), v)
        else:
            raise Unsupported('assignment target %s' % type(t).__name__)

    def exec_Delete(self, node, frame):
        for t in node.targets:
            if isinstance(t, ast.Name):
                frame.locals.pop(t.id, None)
            elif isinstance(t, ast.Subscript):
                obj = self.eval(t.value, frame)
                idx = self.eval_index(t.slice, frame)
                if isinstance(obj, (list, dict)) and is_concrete(idx):
                    try:
                        del obj[idx]
                    except Exception as e:
                        raise PyRaise(e, implicit=True)
                else:
                    raise Unsupported('del on symbolic container')
            else:
                raise Unsupported('del target')

    def exec_If(self, node, frame):
        if truth(self.ctx, self.eval(node.test, frame)):
            self.exec_block(node.body, frame)
        else:
            self.exec_block(node.orelse, frame)

    def exec_Assert(self, node, frame):
        if not truth(self.ctx, self.eval(node.test, frame)):
            raise PyRaise(AssertionError(), implicit=False)

    def exec_Raise(self, node, frame):
        if node.exc is None:
            cur = frame.lookup('__current_exception__')
            raise PyRaise(cur, implicit=False)
        e = self.eval(node.exc, frame)
        if isinstance(e, type):
            e = e()
        if not isinstance(e, BaseException):
            raise Unsupported('raise of non-exception %r' % (e,))
        raise PyRaise(e, implicit=False, where=node.lineno)

    def exec_Try(self, node, frame):
        try:
            try:
                self.exec_block(node.body, frame)
            except PyRaise as pr:
                for h in node.handlers:
                    if h.type is None:
                        match = True
                    else:
                        ht = self.eval(h.type, frame)
                        match = isinstance(pr.exc, ht)
                    if match:
                        if h.name:
                            frame.locals[h.name] = pr.exc
                        frame.locals['__current_exception__'] = pr.exc
                        self.exec_block(h.body, frame)
                        break
                else:
                    raise
            else:
                self.exec_block(node.orelse, frame)
        finally:
            # note: finalbody runs for interpreter-internal control flow too, as in Python
            if node.finalbody:
                self.exec_block(node.finalbody, frame)

    def exec_With(self, node, frame):
        raise Unsupported('with statement (line %d)' % node.lineno)

    def exec_FunctionDef(self, node, frame):
        frame.locals[node.name] = InterpFunction(node, frame, node.name)

    # -- loops -------------------------------------------------------------------------------------

    def _loop_key(self, node, frame):
        if frame.func is None:
            return None
        fnode = func_ast(frame.func)
        loops = [n for n in ast.walk(fnode) if isinstance(n, (ast.While, ast.For))]
        loops.sort(key=lambda n: (n.lineno, n.col_offset))
        for i, n in enumerate(loops):
            if n.lineno == node.lineno and n.col_offset == node.col_offset:
                return ('%s.%s' % (frame.func.__module__, frame.func.__qualname__), i)
        return None

    def exec_While(self, node, frame):
        key = self._loop_key(node, frame)
        lc = self.reg.loop_contracts.get(key) if key else None
        if lc is not None:
            from .loops import while_with_invariant
            return while_with_invariant(self, node, frame, lc, key)
        n = 0
        symbolic_iters = 0
        while True:
            c = self.eval(node.test, frame)
            tt = truth_term(self.ctx, c)
            if not isinstance(tt, bool):
                symbolic_iters += 1
                if symbolic_iters > self.MAX_UNROLL:
                    raise Unsupported('loop at %s line %d: more than %d symbolic iterations, needs an invariant'
                                      % (frame.qualname, node.lineno, self.MAX_UNROLL))
            if not truth(self.ctx, c):
                self.exec_block(node.orelse, frame)
                return
            n += 1
            try:
                self.exec_block(node.body, frame)
            except _Break:
                return
            except _Continue:
                continue

    def exec_For(self, node, frame):
        key = self._loop_key(node, frame)
        lc = self.reg.loop_contracts.get(key) if key else None
        it = self.eval(node.iter, frame)
        if lc is not None:
            from .loops import for_with_invariant
            return for_with_invariant(self, node, frame, lc, key, it)
        return self.exec_for_plain(node, frame, it)

    def exec_for_plain(self, node, frame, it):
        from . import models
        if isinstance(it, models.SymRange):
            i = it.start
            n = 0
            while True:
                c = ops.int_compare('Lt', i, it.stop)
                tt = truth_term(self.ctx, c)
                if not isinstance(tt, bool):
                    n += 1
                    if n > self.MAX_UNROLL:
                        raise Unsupported('for-range loop at %s line %d needs an invariant' % (frame.qualname, node.lineno))
                if not truth(self.ctx, c):
                    break
                self.assign(node.target, i, frame)
                try:
                    self.exec_block(node.body, frame)
                except _Break:
                    return
                except _Continue:
                    pass
                i = ops.int_binop(self.ctx, 'Add', i, 1)
            self.exec_block(node.orelse, frame)
            return
        if isinstance(it, list):
            # Python iterates a live list by index
            i = 0
            while i < len(it):
                self.assign(node.target, it[i], frame)
                i += 1
                try:
                    self.exec_block(node.body, frame)
                except _Break:
                    return
                except _Continue:
                    continue
            self.exec_block(node.orelse, frame)
            return
        for x in self.iterate(it):
            self.assign(node.target, x, frame)
            try:
                self.exec_block(node.body, frame)
            except _Break:
                return
            except _Continue:
                continue
        self.exec_block(node.orelse, frame)

    def iterate(self, v):
        """Concrete-length list of the elements of an iterable value."""
        if isinstance(v, (list, tuple)):
            return list(v)
        if isinstance(v, (SBytes, SStr)):
            v = ops.to_items(self.ctx, v)
            if isinstance(v, SBytes):
                return [x if isinstance(x, int) else wrap_int(x) for x in v.items]
            return [chr(x) if isinstance(x, int) else SStr(items=[x]) for x in v.items]
        if isinstance(v, SList):
            n = self.ctx.concretize(int_term(ops.slist_len(v)), limit=40, what='list length')
            ops.slist_need(self.ctx, v, n)
            return list(v.tail)
        from . import models
        if isinstance(v, models.SymRange):
            a = self.ctx.concretize(int_term(v.start), what='range start')
            b = self.ctx.concretize(int_term(v.stop), what='range stop')
            return list(range(a, b))
        if isinstance(v, Sym):
            raise Unsupported('iteration over %r' % (v,))
        try:
            return list(v)
        except TypeError as e:
            raise PyRaise(e, implicit=True)

    # ------------------------------------------------------------------------------------------
    # expressions

    def eval(self, node, frame):
        m = getattr(self, 'eval_' + type(node).__name__, None)
        if m is None:
            raise Unsupported('expression %s (line %d)' % (type(node).__name__, getattr(node, 'lineno', 0)))
        return m(node, frame)

    def eval_Constant(self, node, frame):
        return node.value

    def eval_Name(self, node, frame):
        return frame.lookup(node.id)

    def eval_Tuple(self, node, frame):
        return tuple(self._elts(node.elts, frame))

    def eval_List(self, node, frame):
        return self._elts(node.elts, frame)

    def eval_Set(self, node, frame):
        vals = self._elts(node.elts, frame)
        if not is_concrete(vals):
            raise Unsupported('set of symbolic values')
        return set(vals)

    def _elts(self, elts, frame):
        out = []
        for e in elts:
            if isinstance(e, ast.Starred):
                out.extend(self.iterate(self.eval(e.value, frame)))
            else:
                out.append(self.eval(e, frame))
        return out

    def eval_Dict(self, node, frame):
        d = {}
        for k, v in zip(node.keys, node.values):
            if k is None:
                d.update(self.eval(v, frame))
            else:
                kk = self.eval(k, frame)
                if isinstance(kk, Sym):
                    raise Unsupported('symbolic dict key')
                d[kk] = self.eval(v, frame)
        return d

    def eval_JoinedStr(self, node, frame):
        parts = []
        for v in node.values:
            if isinstance(v, ast.Constant):
                parts.append(v.value)
            else:
                x = self.eval(v.value, frame)
                parts.append('<symbolic>' if isinstance(x, Sym) else format(x))
        return ''.join(parts)

    def eval_Lambda(self, node, frame):
        return InterpFunction(node, frame)

    def eval_IfExp(self, node, frame):
        if self.ctx.no_fork:
            c = truth_term(self.ctx, self.eval(node.test, frame))
            if isinstance(c, bool):
                return self.eval(node.body if c else node.orelse, frame)
            if self.ctx.check(z3.Not(c)) == z3.unsat:           # decided by the path condition
                return self.eval(node.body, frame)
            if self.ctx.check(c) == z3.unsat:
                return self.eval(node.orelse, frame)
            a, b = self.eval(node.body, frame), self.eval(node.orelse, frame)
            if isinstance(a, (bytes, SBytes)) and isinstance(b, (bytes, SBytes)):
                sa, sb = ops.as_sseq(a), ops.as_sseq(b)
                la, lb = sa.length(), sb.length()
                lt = z3.If(c, la if not isinstance(la, int) else z3.IntVal(la), lb if not isinstance(lb, int) else z3.IntVal(lb))
                return SBytes(seq=SeqPart(z3.If(c, sa.seq_term(), sb.seq_term()), lt))
            if isinstance(a, (bool, SBool)) and isinstance(b, (bool, SBool)):
                return wrap_bool(z3.If(c, ops.bool_term(a), ops.bool_term(b)))
            if isinstance(a, (int, SInt)) and isinstance(b, (int, SInt)):
                return wrap_int(z3.If(c, int_term(a), int_term(b)))
            raise Unsupported('conditional expression of non-scalar values inside an invariant')
        tv = self.eval(node.test, frame)
        tt = truth_term(self.ctx, tv)
        if not isinstance(tt, bool) and self.reg.bounds.get('merge_ifexp') and _pure_simple(node.body) and _pure_simple(node.orelse):
            # `a if c else b` over plain integer operands: an if-then-else term instead of a path split
            try:
                a, b = self.eval(node.body, frame), self.eval(node.orelse, frame)
                if isinstance(a, (int, SInt)) and isinstance(b, (int, SInt)) and not isinstance(a, bool) and not isinstance(b, bool):
                    return wrap_int(z3.If(tt, int_term(a), int_term(b)))
            except PyRaise:
                pass
        if truth(self.ctx, tv):
            return self.eval(node.body, frame)
        return self.eval(node.orelse, frame)

    def eval_NamedExpr(self, node, frame):
        v = self.eval(node.value, frame)
        self.assign(node.target, v, frame)
        return v

    def eval_BoolOp(self, node, frame):
        is_and = isinstance(node.op, ast.And)
        if self.ctx.no_fork:
            # invariants / quantifier bodies: build the formula, no path split (operands must be side-effect free)
            terms = []
            for e in node.values:
                t = truth_term(self.ctx, self.eval(e, frame))
                if isinstance(t, bool):
                    if is_and and not t:
                        return False
                    if not is_and and t:
                        return True
                    continue
                terms.append(t)
            if not terms:
                return is_and
            return wrap_bool(z3.And(*terms) if is_and else z3.Or(*terms))
        v = None
        for i, e in enumerate(node.values):
            v = self.eval(e, frame)
            if i == len(node.values) - 1:
                return v
            t = truth(self.ctx, v)
            if is_and and not t:
                return v
            if not is_and and t:
                return v
        return v

    def eval_UnaryOp(self, node, frame):
        v = self.eval(node.operand, frame)
        if isinstance(node.op, ast.Not):
            t = truth_term(self.ctx, v)
            return (not t) if isinstance(t, bool) else wrap_bool(z3.Not(t))
        if isinstance(node.op, ast.USub):
            if isinstance(v, (SInt, SBool)):
                return wrap_int(-int_term(v))
            if isinstance(v, SFloat):
                return SFloat(-v.t)
            if isinstance(v, Sym):
                raise Unsupported('unary minus on %r' % v)
            return -v
        if isinstance(node.op, ast.UAdd):
            return v
        if isinstance(node.op, ast.Invert):
            if isinstance(v, (SInt, SBool)):
                return wrap_int(-int_term(v) - 1)
            return ~v
        raise Unsupported('unary op')

    def eval_BinOp(self, node, frame):
        a = self.eval(node.left, frame)
        b = self.eval(node.right, frame)
        return self.binop(_BINOPS[type(node.op)], a, b)

    def binop(self, op, a, b):
        if not isinstance(a, Sym) and not isinstance(b, Sym) and is_concrete(a) and is_concrete(b):
            import operator
            fn = {'Add': operator.add, 'Sub': operator.sub, 'Mult': operator.mul, 'FloorDiv': operator.floordiv,
                  'Mod': operator.mod, 'Pow': operator.pow, 'RShift': operator.rshift, 'LShift': operator.lshift,
                  'BitAnd': operator.and_, 'BitOr': operator.or_, 'BitXor': operator.xor, 'Div': operator.truediv,
                  'MatMult': operator.matmul}[op]
            try:
                return fn(a, b)
            except Exception as e:
                raise PyRaise(e, implicit=True)
        from . import models
        return models.binop(self, op, a, b)

    def eval_Compare(self, node, frame):
        left = self.eval(node.left, frame)
        result = True
        for i, (op, rn) in enumerate(zip(node.ops, node.comparators)):
            right = self.eval(rn, frame)
            r = self.compare(_CMPOPS[type(op)], left, right)
            if self.ctx.no_fork:
                t = truth_term(self.ctx, r)
                result = t if result is True else (wrap_bool(z3.And(ops.bool_term(result) if not isinstance(result, z3.BoolRef) else result, t)) if not isinstance(t, bool) or not t else result)
                if isinstance(t, bool) and not t:
                    return False
                if i == len(node.ops) - 1:
                    return result if not isinstance(result, z3.BoolRef) else wrap_bool(result)
                left = right
                continue
            if i == len(node.ops) - 1:
                return r
            if not truth(self.ctx, r):
                return r
            left = right
        return result

    def compare(self, op, a, b):
        from . import models
        return models.compare(self, op, a, b)

    def eval_Attribute(self, node, frame):
        return self.getattr(self.eval(node.value, frame), node.attr)

    def eval_index(self, s, frame):
        if isinstance(s, ast.Slice):
            return slice(self.eval(s.lower, frame) if s.lower is not None else None,
                         self.eval(s.upper, frame) if s.upper is not None else None,
                         self.eval(s.step, frame) if s.step is not None else None)
        return self.eval(s, frame)

    def eval_Subscript(self, node, frame):
        obj = self.eval(node.value, frame)
        idx = self.eval_index(node.slice, frame)
        return self.getitem(obj, idx)

    def getitem(self, obj, idx):
        from . import models
        return models.getitem(self, obj, idx)

    def setitem(self, obj, idx, v):
        from . import models
        return models.setitem(self, obj, idx, v)

    def eval_Call(self, node, frame):
        fn = node.func
        # logging calls are dropped (DESIGN §2.1)
        if isinstance(fn, ast.Attribute) and isinstance(fn.value, ast.Name) and fn.value.id in ('_logger', 'logger', 'logging'):
            return None
        f = self.eval(fn, frame)
        args = []
        for a in node.args:
            if isinstance(a, ast.Starred):
                args.extend(self.iterate(self.eval(a.value, frame)))
            else:
                args.append(self.eval(a, frame))
        kwargs = {}
        for k in node.keywords:
            if k.arg is None:
                kwargs.update(self.eval(k.value, frame))
            else:
                kwargs[k.arg] = self.eval(k.value, frame)
        if f is print:
            return None
        return self.call(f, args, kwargs)

    def _comp(self, node, frame, elt_fn):
        out = []

        def rec(gi, fr):
            if gi == len(node.generators):
                out.append(elt_fn(fr))
                return
            g = node.generators[gi]
            it = self.eval(g.iter, fr)
            for x in self.iterate(it):
                fr2 = Frame({}, fr.globals, fr, None, fr.qualname)
                self.assign(g.target, x, fr2)
                if all(truth(self.ctx, self.eval(c, fr2)) for c in g.ifs):
                    rec(gi + 1, fr2)
        rec(0, Frame({}, frame.globals, frame, None, frame.qualname))
        return out

    def eval_ListComp(self, node, frame):
        return self._comp(node, frame, lambda fr: self.eval(node.elt, fr))

    def eval_GeneratorExp(self, node, frame):
        return self._comp(node, frame, lambda fr: self.eval(node.elt, fr))

    def eval_SetComp(self, node, frame):
        vals = self._comp(node, frame, lambda fr: self.eval(node.elt, fr))
        if not is_concrete(vals):
            raise Unsupported('set comprehension of symbolic values')
        return set(vals)

    def eval_DictComp(self, node, frame):
        pairs = self._comp(node, frame, lambda fr: (self.eval(node.key, fr), self.eval(node.value, fr)))
        d = {}
        for k, v in pairs:
            if isinstance(k, Sym):
                raise Unsupported('symbolic dict key')
            d[k] = v
        return d

    def eval_Starred(self, node, frame):
        raise Unsupported('starred expression')
