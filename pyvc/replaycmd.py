"""./check <prop> --replay <file>: re-executes a recorded counterexample against the current tree."""
import importlib
import json
import os
import sys


def run(path):
    d = json.load(open(path))
    prop = d['property']
    pmod = importlib.import_module('props.' + prop)
    for m in pmod.CONTRACT_MODULES:
        importlib.import_module(m)
    from pyvc import api, verify
    name = d['obligation']
    key = name.split('#')[0]
    cex = d.get('counterexample') or {}
    print('obligation:', name)
    if cex.get('input') is None:
        print('no concrete input recorded (verifier output follows)')
        print(json.dumps(cex, indent=1)[:3000])
        return 1
    if key.endswith('[bounded]') or key not in api.CONTRACTS:
        if hasattr(pmod, 'replay_extra'):
            return pmod.replay_extra(d)
        print('input:', json.dumps(cex['input'])[:2000])
        print('recorded: observed=%s expected=%s' % (cex.get('observed'), cex.get('expected')))
        return 1
    c = api.CONTRACTS[key]
    rep = verify.replay_native(c, verify.from_jsonable(cex['input']))
    print('input:', json.dumps(cex['input'])[:2000])
    print('observed:', rep.get('observed'), '| state after:', rep.get('state_after'))
    print('specified:', rep.get('expected'))
    print('contract violated on the current tree:', bool(rep.get('confirmed')))
    return 1 if rep.get('confirmed') else 0
