"""Value domain of the pyvc symbolic executor (DESIGN §2.2).

Concrete Python objects are used as they are (ints, bytes, str, lists, tuples, dicts, real library
objects).  Only values with symbolic content get one of the wrappers below.
"""
import z3

IntSeq = z3.SeqSort(z3.IntSort())


class Sym:
    """Base class of symbolic values."""
    pytype = object


class SInt(Sym):
    pytype = int

    def __init__(self, t):
        if isinstance(t, int):
            t = z3.IntVal(t)
        self.t = t

    def __repr__(self):
        return 'SInt(%s)' % self.t


class SBool(Sym):
    pytype = bool

    def __init__(self, t):
        if isinstance(t, bool):
            t = z3.BoolVal(t)
        self.t = t

    def __repr__(self):
        return 'SBool(%s)' % self.t


class SFloat(Sym):
    """A double, represented by a z3 Real that is *exactly* the rational value of the double.
    `exact` says the term is known to be exactly representable (no rounding model needed)."""
    pytype = float

    def __init__(self, t):
        self.t = t

    def __repr__(self):
        return 'SFloat(%s)' % self.t


class SeqPart:
    """A chunk of symbolic length: z3 Seq(Int) term plus its length (int or z3 Int term).  The length
    is tracked by the executor itself; z3's own Length(term) is only tied to it for short sequences
    (see Ctx.couple), because z3 cannot build models of sequences with 2^32 elements."""
    __slots__ = ('term', 'len')

    def __init__(self, term, len_):
        self.term = term
        self.len = len_


class _SeqVal(Sym):
    """Sequence of ints (bytes / code points) with symbolic content: a concatenation of `parts`, each
    either a Python list of items (int or z3 Int term) or a SeqPart.  `items` is the flat item list
    when the length is concrete, else None; `seq` is the z3 term of the whole when it is not."""

    def __init__(self, items=None, seq=None, parts=None):
        if parts is None:
            assert (items is None) != (seq is None)
            parts = [list(items)] if items is not None else [seq]
        norm = []
        for p in parts:
            if isinstance(p, list):
                if not p:
                    continue
                if norm and isinstance(norm[-1], list):
                    norm[-1] = norm[-1] + p
                else:
                    norm.append(list(p))
            else:
                assert isinstance(p, SeqPart), p
                if isinstance(p.len, int) and p.len == 0:
                    continue
                norm.append(p)
        self.parts = norm
        if all(isinstance(p, list) for p in norm):
            self.items = norm[0] if norm else []
            self.seq = None
        else:
            self.items = None
            self.seq = self.seq_term()

    def concrete_len(self):
        return self.items is not None

    def length(self):
        if self.items is not None:
            return len(self.items)
        n = 0
        for p in self.parts:
            n = n + (len(p) if isinstance(p, list) else p.len)
        return n

    def seq_term(self):
        ts = [items_to_seq(p) if isinstance(p, list) else p.term for p in self.parts]
        if not ts:
            return z3.Empty(IntSeq)
        if len(ts) == 1:
            return ts[0]
        return z3.Concat(*ts)

    def lead(self):
        """leading items part (possibly empty list)"""
        return self.parts[0] if self.parts and isinstance(self.parts[0], list) else []

    def trail(self):
        return self.parts[-1] if self.parts and isinstance(self.parts[-1], list) else []


class SBytes(_SeqVal):
    pytype = bytes

    def __repr__(self):
        if self.items is not None:
            return 'SBytes[%d](%s)' % (len(self.items), ','.join(str(i) for i in self.items[:10]))
        return 'SBytes(%s)' % ' ++ '.join(('[%s]' % ','.join(str(i) for i in p[:10])) if isinstance(p, list) else str(p.term) for p in self.parts)


def items_to_seq(items):
    units = [z3.Unit(z3.IntVal(i) if isinstance(i, int) else i) for i in items]
    if not units:
        return z3.Empty(IntSeq)
    if len(units) == 1:
        return units[0]
    return z3.Concat(*units)


def as_sbytes(v):
    if isinstance(v, SBytes):
        return v
    if isinstance(v, (bytes, bytearray)):
        return SBytes(items=list(v))
    raise TypeError('not bytes: %r' % (v,))


class SStr(_SeqVal):
    """str with symbolic content (code points)."""
    pytype = str

    def __repr__(self):
        return 'SStr(%s)' % (self.items if self.items is not None else self.seq)


class SList(Sym):
    """A list of symbolic length:  rest ++ tail, where `rest` is an unknown prefix (identified by
    `rid`, length term `n` >= 0) whose elements are materialised lazily from the right, and `tail`
    is a Python list of values.  `elem` is the TypeDesc of elements, `cls` the Python class
    (list or a subclass such as bitcoinlib.scripts.Stack)."""

    def __init__(self, rid, n, tail, elem, cls=list, taken=0):
        self.rid = rid
        self.n = n          # z3 Int term or int: remaining length of the unmaterialised prefix
        self.tail = tail
        self.elem = elem
        self.cls = cls
        self.taken = taken  # how many elements were materialised from the right of the original prefix

    @property
    def pytype(self):
        return self.cls

    def __repr__(self):
        return 'SList(rest#%s[%s] ++ %r)' % (self.rid, self.n, self.tail)


class Rec(Sym):
    """An object of a (real) Python class with symbolic attribute values; identity is concrete."""

    def __init__(self, cls, attrs=None):
        self.__dict__['cls'] = cls
        self.__dict__['attrs'] = attrs if attrs is not None else {}

    @property
    def pytype(self):
        return self.cls

    def __repr__(self):
        return 'Rec<%s>(%s)' % (self.cls.__name__, ', '.join(sorted(self.attrs)))


class Opaque(Sym):
    """A value about which nothing is known except what assumed contracts say (ORM objects, ...)."""

    def __init__(self, name, pytype=object):
        self.name = name
        self._pytype = pytype

    @property
    def pytype(self):
        return self._pytype

    def __repr__(self):
        return 'Opaque(%s)' % self.name


def is_concrete(v, _depth=0):
    if isinstance(v, Sym):
        return False
    if _depth > 6:
        return True
    if isinstance(v, (list, tuple, set, frozenset)):
        return all(is_concrete(x, _depth + 1) for x in v)
    if isinstance(v, dict):
        return all(is_concrete(x, _depth + 1) for x in v.values()) and all(is_concrete(k, _depth + 1) for k in v)
    return True


def pytype_of(v):
    if isinstance(v, Sym):
        return v.pytype
    return type(v)
