"""Runtime contract checking: the same contract text evaluated natively on random concrete inputs
against the real function.  A bounded stand-in (never counted as proved); it also guards the
verifier: a contract whose obligations were all discharged must not fail natively."""
import copy
import inspect
import random

from . import api
from .verify import replay_native, native_by_name, RecValue, _jsonable

INTERESTING = [0, 1, 2, 0x7f, 0x80, 0xfc, 0xfd, 0xfe, 0xff, 0x100, 0x7fff, 0x8000, 0xfffe, 0xffff, 0x10000,
               0x7fffffff, 0x80000000, 0xfffffffe, 0xffffffff, 0x100000000, 2 ** 63 - 1, 2 ** 63, 2 ** 64 - 1]


def sample(ty, rng):
    if isinstance(ty, api.Secret):
        return sample(ty.inner, rng)
    if isinstance(ty, api._Int):
        lo = ty.lo if ty.lo is not None else -(2 ** 70)
        hi = ty.hi if ty.hi is not None else 2 ** 70
        r = rng.random()
        if ty.lo is not None and ty.hi is not None and r < 0.25:
            # uniform over the declared range, and uniform in the number of bits (large declared ranges are otherwise never visited)
            if rng.random() < 0.5:
                return rng.randint(ty.lo, ty.hi)
            span = ty.hi - ty.lo
            return ty.lo + (rng.getrandbits(rng.randint(1, max(span.bit_length(), 1))) % (span + 1))
        r = rng.random()
        if r < 0.35:
            v = rng.choice(INTERESTING) * rng.choice([1, 1, 1, -1])
            v += rng.choice([0, 0, 1, -1])
        elif r < 0.7:
            v = rng.getrandbits(rng.choice([3, 8, 16, 24, 31, 32, 33, 40, 63, 64, 65])) * rng.choice([1, 1, -1])
        else:
            v = rng.randint(-300, 70000)
        return min(max(v, lo), hi)
    if isinstance(ty, api._Bool):
        return rng.random() < 0.5
    if isinstance(ty, api._Bytes):
        if ty.n is not None:
            n = ty.n
        else:
            n = rng.choice([0, 0, 1, 1, 2, 3, 4, 5, 8, 20, 32, 33, 65, 74, 75, 76, 77, 100, 252, 253, 254, 255, 256, 257, 300, 520])
            if ty.max is not None:
                n = min(n, ty.max)
            if getattr(ty, 'min', None) is not None:
                n = max(n, ty.min)
        mode = rng.random()
        if mode < 0.3:
            v = bytes(rng.choice([0, 0x80, 0xff, 1, 0x7f]) for _ in range(n))
        else:
            v = bytes(rng.getrandbits(8) for _ in range(n))
        if getattr(ty, 'ne', None) is not None and v == ty.ne:
            v = v + b'\x01'
        return v
    if isinstance(ty, api._Str):
        n = ty.n if ty.n is not None else rng.randint(0, 12)
        return ''.join(rng.choice('0123456789abcdefABCDEFxyz \'h/') for _ in range(n))
    if isinstance(ty, api.ListOf):
        items = [sample(ty.elem, rng) for _ in range(rng.choice([0, 1, 2, 2, 3, 3, 4, 5, 6, 7]))]
        return ty.cls(items) if ty.cls is not list else items
    if isinstance(ty, api.FixedList):
        return [sample(ty.elem, rng) for _ in range(ty.n)]
    if isinstance(ty, api.Const):
        return ty.v() if callable(ty.v) and getattr(ty.v, '_factory', False) else copy.deepcopy(ty.v)
    if isinstance(ty, api.RecordOf):
        cls = ty.cls if not isinstance(ty.cls, str) else api.resolve(ty.cls)[0]
        return RecValue(cls, {k: (sample(t, rng) if isinstance(t, api.T) else t) for k, t in ty.fields.items()})
    if hasattr(ty, 'sample'):
        return ty.sample(rng)
    raise TypeError('no sampler for %r' % (ty,))


def _in_range(ty, v):
    if isinstance(ty, api._Int) and isinstance(v, int) and not isinstance(v, bool):
        return (ty.lo is None or v >= ty.lo) and (ty.hi is None or v <= ty.hi)
    if isinstance(ty, api._Bytes) and isinstance(v, (bytes, bytearray)):
        return (ty.n is None or len(v) == ty.n) and (ty.max is None or len(v) <= ty.max) and (getattr(ty, 'min', None) is None or len(v) >= ty.min) \
            and (getattr(ty, 'ne', None) is None or v != ty.ne)
    return True


def fuzz_contract(c, n, seed):
    # deterministic per contract and seed (str hashes are randomised per process: never use hash() here)
    import hashlib as _hl
    rng = random.Random(int.from_bytes(_hl.sha256(c.key.encode()).digest()[:6], 'big') * 1000003 + seed)
    runs = 0
    rejected = 0
    failures = []
    if n <= 0 or c.assumed or c.native_skip:
        return {'runs': 0, 'failures': []}
    sampler = c.__dict__.get('sampler')
    tries = 0
    while runs < n and tries < n * 6:
        tries += 1
        if c.sample is not None:
            env = c.sample(rng)
            # a contract's own sampler has to respect the declared parameter ranges (they are preconditions)
            if any(not _in_range(c.params.get(k), v) for k, v in env.items()):
                rejected += 1
                continue
        else:
            env = {k: (sample(t, rng) if isinstance(t, api.T) else t) for k, t in c.params.items()}
        runs += 1
        warm = None
        if 'self' in c.params and c.build is None and not c.no_history and rng.random() < 0.5:
            # history: one earlier call on the same object with other arguments (state left behind must not matter)
            try:
                warm = c.sample(rng) if c.sample is not None else {k: (sample(t, rng) if isinstance(t, api.T) else t) for k, t in c.params.items()}
                if rng.random() < 0.5:
                    # near-miss arguments: same as the checked call except for one argument
                    keys = [k for k in warm if k != 'self']
                    if keys:
                        keep = rng.choice(keys)
                        warm = dict({k: copy.deepcopy(v) for k, v in env.items() if k != 'self'}, **{keep: warm[keep]})
                        warm['self'] = None
            except Exception:
                warm = None
        envc = copy.deepcopy(env)
        rep = replay_native(c, env, warmup=warm, rng=rng)
        if rep.get('note') and not rep.get('confirmed') and 'requires' in rep.get('note', ''):
            runs -= 1
            rejected += 1
            continue
        if rep.get('confirmed'):
            fl = {'input': {k: _jsonable(v) for k, v in envc.items()}, 'observed': rep.get('observed'), 'expected': rep.get('expected')}
            if rep.get('warmup'):
                fl['after_earlier_call_with'] = rep['warmup']
            if rep.get('perturbed'):
                fl['object_changed_in_between'] = rep['perturbed']
            # classify against pins
            fl['pin'] = rep.get('pin')
            if len(failures) < 5 or fl.get('pin') is None:
                failures.append(fl)
            if len([f for f in failures if f.get('pin') is None]) >= 3:
                break
    return {'runs': runs, 'rejected': rejected, 'failures': failures}


def classify_pin(c, env):
    """which pin (if any) describes the native behaviour on this input"""
    import copy as _c
    f, owner, kind = c.function()
    env2 = _c.deepcopy(env)
    if c.prepare is not None:
        env2.update(native_by_name(c.prepare, env2))
    olds = {'old_' + k: _c.deepcopy(v) for k, v in env2.items()}
    if c.build is not None:
        fn, args, kwargs = native_by_name(c.build, env2)
    else:
        sig = inspect.signature(f)
        kwargs = {k: v for k, v in env2.items() if k in sig.parameters}
        if c.call is not None:
            kwargs.update(native_by_name(c.call, env2))
        kwargs.update(c.kwargs)
        fn, args = f, []
    try:
        result = fn(*args, **kwargs)
    except Exception:
        return None
    penv = dict(env2)
    penv.update(olds)
    penv['result'] = result
    for pid, pfn in c.pins.items():
        try:
            if native_by_name(pfn, penv):
                return pid
        except Exception:
            continue
    return None
