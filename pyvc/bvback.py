"""Bit-vector back end for obligations over bounded non-negative integers with div / mod / shifts by constants (bech32
regrouping, checksums): the integer formula is translated to fixed-width bit-vectors and bit-blasted.

Exactness: every integer sub-term gets an interval [lo, hi] computed from the variable bounds found in the hypotheses;
the translation is refused (returns None) unless every interval fits the width with room to spare, division / modulo
operands are non-negative and divisors are positive constants.  Under these side conditions two's-complement arithmetic
of width W coincides with integer arithmetic, so `unsat` of the translated query proves the integer obligation."""
import z3

W = 160


class NoBV(Exception):
    pass


def _bounds_from(pc):
    """{var id: [lo, hi]} from hypotheses of the shapes  x >= c, x <= c, c <= x, And(...) of those"""
    b = {}

    def visit(f):
        if z3.is_and(f):
            for c in f.children():
                visit(c)
            return
        if z3.is_app(f) and f.num_args() == 2:
            k = f.decl().kind()
            a, c = f.arg(0), f.arg(1)
            if k in (z3.Z3_OP_LE, z3.Z3_OP_GE, z3.Z3_OP_LT, z3.Z3_OP_GT):
                if z3.is_int_value(c) and z3.is_const(a) and a.decl().kind() == z3.Z3_OP_UNINTERPRETED:
                    v, n, op = a, c.as_long(), k
                elif z3.is_int_value(a) and z3.is_const(c) and c.decl().kind() == z3.Z3_OP_UNINTERPRETED:
                    v, n = c, a.as_long()
                    op = {z3.Z3_OP_LE: z3.Z3_OP_GE, z3.Z3_OP_GE: z3.Z3_OP_LE, z3.Z3_OP_LT: z3.Z3_OP_GT, z3.Z3_OP_GT: z3.Z3_OP_LT}[k]
                else:
                    return
                lo, hi = b.setdefault(v.get_id(), [None, None])
                if op == z3.Z3_OP_LE:
                    hi = n if hi is None else min(hi, n)
                elif op == z3.Z3_OP_LT:
                    hi = n - 1 if hi is None else min(hi, n - 1)
                elif op == z3.Z3_OP_GE:
                    lo = n if lo is None else max(lo, n)
                else:
                    lo = n + 1 if lo is None else max(lo, n + 1)
                b[v.get_id()] = [lo, hi]
        if z3.is_not(f):
            g = f.arg(0)
            if z3.is_app(g) and g.num_args() == 2 and g.decl().kind() in (z3.Z3_OP_LE, z3.Z3_OP_GE, z3.Z3_OP_LT, z3.Z3_OP_GT):
                neg = {z3.Z3_OP_LE: lambda x, y: x > y, z3.Z3_OP_GE: lambda x, y: x < y, z3.Z3_OP_LT: lambda x, y: x >= y,
                       z3.Z3_OP_GT: lambda x, y: x <= y}[g.decl().kind()]
                visit(neg(g.arg(0), g.arg(1)))
    for p in pc:
        visit(p)
    return b


class Translator:
    def __init__(self, pc):
        self.bounds = _bounds_from(pc)
        self.cache = {}
        self.vars = {}
        self.side = []

    def lim(self, lo, hi):
        if lo < -(2 ** (W - 8)) or hi > 2 ** (W - 8):
            raise NoBV('interval [%d, %d] does not fit %d bits' % (lo, hi, W))
        return lo, hi

    def tr_int(self, t):
        """-> (bv term, lo, hi)"""
        key = t.get_id()
        if key in self.cache:
            return self.cache[key]
        r = self._tr_int(t)
        self.cache[key] = r
        return r

    def _tr_int(self, t):
        if z3.is_int_value(t):
            n = t.as_long()
            self.lim(n, n)
            return z3.BitVecVal(n, W), n, n
        if not z3.is_app(t):
            raise NoBV('non-application %s' % t)
        k = t.decl().kind()
        if k == z3.Z3_OP_UNINTERPRETED and t.num_args() == 0 and t.sort() == z3.IntSort():
            bd = self.bounds.get(t.get_id())
            if bd is None or bd[0] is None or bd[1] is None:
                raise NoBV('no bounds for %s' % t)
            v = z3.BitVec(t.decl().name() + '!bv', W)
            self.vars[t.decl().name()] = (t, v)
            self.side.append(z3.And(v >= bd[0], v <= bd[1]))
            return v, bd[0], bd[1]
        ch = [self.tr_int(c) for c in t.children()] if k in (z3.Z3_OP_ADD, z3.Z3_OP_MUL, z3.Z3_OP_SUB, z3.Z3_OP_UMINUS, z3.Z3_OP_IDIV, z3.Z3_OP_MOD) else None
        if k == z3.Z3_OP_ADD:
            lo, hi = sum(c[1] for c in ch), sum(c[2] for c in ch)
            self.lim(lo, hi)
            r = ch[0][0]
            for c in ch[1:]:
                r = r + c[0]
            return r, lo, hi
        if k == z3.Z3_OP_SUB:
            lo, hi = ch[0][1] - sum(c[2] for c in ch[1:]), ch[0][2] - sum(c[1] for c in ch[1:])
            self.lim(lo, hi)
            r = ch[0][0]
            for c in ch[1:]:
                r = r - c[0]
            return r, lo, hi
        if k == z3.Z3_OP_UMINUS:
            return -ch[0][0], self.lim(-ch[0][2], -ch[0][1])[0], -ch[0][1]
        if k == z3.Z3_OP_MUL:
            r, lo, hi = ch[0]
            for c in ch[1:]:
                cands = [lo * c[1], lo * c[2], hi * c[1], hi * c[2]]
                lo, hi = min(cands), max(cands)
                self.lim(lo, hi)
                r = r * c[0]
            return r, lo, hi
        if k in (z3.Z3_OP_IDIV, z3.Z3_OP_MOD):
            a, d = ch
            if not z3.is_int_value(t.arg(1)) or d[1] <= 0 or a[1] < 0:
                raise NoBV('div/mod with non-constant divisor or possibly negative dividend')
            n = d[1]
            if k == z3.Z3_OP_IDIV:
                return z3.UDiv(a[0], d[0]), a[1] // n, a[2] // n
            return z3.URem(a[0], d[0]), 0, min(a[2], n - 1)
        if k == z3.Z3_OP_ITE:
            c = self.tr_bool(t.arg(0))
            a, b = self.tr_int(t.arg(1)), self.tr_int(t.arg(2))
            return z3.If(c, a[0], b[0]), min(a[1], b[1]), max(a[2], b[2])
        if k == z3.Z3_OP_BV2INT:
            e = self.tr_bv(t.arg(0))
            w = e.size()
            if w >= W - 8:
                raise NoBV('bv2int of a wide vector')
            return z3.ZeroExt(W - w, e), 0, 2 ** w - 1
        raise NoBV('integer operator %s' % t.decl().name())

    def tr_bv(self, e):
        """bit-vector expression that may contain int2bv(<integer term>) leaves"""
        if z3.is_bv_value(e):
            return e
        if z3.is_app(e):
            if e.decl().kind() == z3.Z3_OP_INT2BV:
                inner, lo, hi = self.tr_int(e.arg(0))
                if lo < 0:
                    raise NoBV('int2bv of a possibly negative term')
                return z3.Extract(e.size() - 1, 0, inner)
            if e.num_args() == 0:
                return e
            ch = [self.tr_bv(c) if z3.is_bv(c) else (self.tr_bool(c) if z3.is_bool(c) else None) for c in e.children()]
            if any(c is None for c in ch):
                raise NoBV('mixed-sort bit-vector operator %s' % e.decl().name())
            return e.decl()(*ch)
        raise NoBV('bit-vector term %s' % e)

    def tr_bool(self, f):
        if z3.is_true(f) or z3.is_false(f):
            return f
        if z3.is_and(f):
            return z3.And(*[self.tr_bool(c) for c in f.children()])
        if z3.is_or(f):
            return z3.Or(*[self.tr_bool(c) for c in f.children()])
        if z3.is_not(f):
            return z3.Not(self.tr_bool(f.arg(0)))
        if z3.is_implies(f):
            return z3.Implies(self.tr_bool(f.arg(0)), self.tr_bool(f.arg(1)))
        if z3.is_app(f):
            k = f.decl().kind()
            if k == z3.Z3_OP_ITE:
                return z3.If(self.tr_bool(f.arg(0)), self.tr_bool(f.arg(1)), self.tr_bool(f.arg(2)))
            if k in (z3.Z3_OP_EQ, z3.Z3_OP_DISTINCT) and f.arg(0).sort() == z3.BoolSort():
                a, b = self.tr_bool(f.arg(0)), self.tr_bool(f.arg(1))
                return (a == b) if k == z3.Z3_OP_EQ else (a != b)
            if k in (z3.Z3_OP_EQ, z3.Z3_OP_DISTINCT, z3.Z3_OP_LE, z3.Z3_OP_GE, z3.Z3_OP_LT, z3.Z3_OP_GT) and f.arg(0).sort() == z3.IntSort():
                a, b = self.tr_int(f.arg(0))[0], self.tr_int(f.arg(1))[0]
                return {z3.Z3_OP_EQ: a == b, z3.Z3_OP_DISTINCT: a != b, z3.Z3_OP_LE: a <= b, z3.Z3_OP_GE: a >= b,
                        z3.Z3_OP_LT: a < b, z3.Z3_OP_GT: a > b}[k]       # signed comparisons (intervals keep everything in range)
            if k == z3.Z3_OP_UNINTERPRETED and f.num_args() == 0:
                return f
        raise NoBV('boolean operator %s' % f.decl().name())


def solve(pc, neg_claim, timeout_ms):
    """(result, model-as-{name: int} or None); result is None when the query is outside the fragment"""
    try:
        tr = Translator(pc)
        goal = [tr.tr_bool(p) for p in pc] + [tr.tr_bool(neg_claim)]
    except NoBV:
        return None, None
    s = z3.SolverFor('QF_BV')
    s.set('timeout', timeout_ms)
    for g in goal + tr.side:
        s.add(g)
    r = s.check()
    if r == z3.sat:
        m = s.model()
        vals = {}
        for name, (iv, bv) in tr.vars.items():
            v = m.eval(bv, model_completion=True).as_long()
            if v >= 2 ** (W - 1):
                v -= 2 ** W
            vals[name] = (iv, v)
        return r, vals
    return r, None
