"""Property-level driver: runs every contract of a property in a process pool, classifies failed
obligations against known_findings.txt and the ledger, writes evidence and replay files, prints
KNOWN-FINDING / VIOLATION lines, returns the exit code (DESIGN §4.4)."""
import glob
import hashlib
import importlib
import json
import multiprocessing as mp
import os
import random
import re
import shutil
import sys
import time
import traceback

ROOT = os.path.dirname(os.path.dirname(os.path.abspath(__file__)))
REPO = '/repo'


def _worker(job):
    """job = (contract modules, contract key, timeout_ms, fuzz_n, seed)"""
    mods, key, timeout_ms, fuzz_n, seed, want_smt, witnesses = job
    t0 = time.time()
    try:
        from pyvc import api, verify, fuzz
        for m in mods:
            importlib.import_module(m)
        reg = verify.make_registry()
        for k, c in api.CONTRACTS.items():
            if c.case is None or True:
                try:
                    fobj = c.function()[0]
                except Exception:
                    continue
                if c.case is None or c.kwargs:
                    reg.contracts.setdefault(fobj, []).append(c)
        c = api.CONTRACTS[key]
        if c.native_only:
            res = {'contract': key, 'target': c.target, 'status': 'ok', 'obligations': [], 'notes': [], 'paths': 0, 'props': list(c.props),
                   'native_only': True}
        elif c.assumed:
            res = {'contract': key, 'target': c.target, 'status': 'assumed', 'obligations': [], 'notes': [c.trusted_note or ''],
                   'paths': 0, 'props': list(c.props)}
        else:
            res = verify.verify_contract(c, reg, timeout_ms=timeout_ms, want_smt=want_smt, opaque=c.use_opaque, witnesses=witnesses)
            need = res.get('status') == 'ok' and any(o.get('abstract') or (o['failed'] and res.get('opaque_specs')) or o['unknown']
                                                      for o in res['obligations']) and res.get('opaque_specs')
            if need:
                # Some obligation could not be decided with specification functions kept abstract.  Search for a concrete
                # counterexample on the specification bodies in a small sub-space (refutation only: nothing found there
                # proves nothing, and discharged counts of that pass are not used).
                try:
                    second = verify.verify_contract(c, reg, timeout_ms=timeout_ms, opaque=False, witnesses=witnesses,
                                                    refute=True, time_limit=240)
                except Exception as e:
                    second = {'status': 'crash', 'obligations': [], 'error': repr(e)}
                byname = {o['name']: o for o in second.get('obligations', [])}
                for o in res['obligations']:
                    o2 = byname.get(o['name'])
                    if not (o.get('abstract') or o['unknown']) or o2 is None:
                        continue
                    confirmed = [x for x in o2['failed'] if x and x.get('confirmed')]
                    if confirmed:
                        o['failed'] += confirmed[:3]
                        o['abstract'] = 0
                    for pid, cexs in o2['known'].items():
                        o['known'].setdefault(pid, []).extend(cexs[:2])
                        o['abstract'] = 0
                res['notes'] = list(res.get('notes', [])) + ['refutation search with transparent specification functions: %s, %d paths, %.1fs'
                                                             % (second.get('status'), second.get('paths', 0), second.get('wall_s', 0))]
        res['bounded'] = c.bounded
        try:
            # contracts whose native evaluation is slow by nature (scrypt) declare a divisor for the number of evaluations
            res['fuzz'] = fuzz.fuzz_contract(c, max(1, fuzz_n // max(1, int(c.__dict__.get('fuzz_divisor', 1)))), seed)
        except Exception as e:
            res['fuzz'] = {'error': '%s: %s' % (type(e).__name__, e), 'runs': 0, 'failures': []}
        res['wall_s'] = time.time() - t0
        return res
    except Exception as e:
        return {'contract': key, 'status': 'crash', 'error': traceback.format_exc(), 'obligations': [], 'wall_s': time.time() - t0}


def load_known(path):
    opens, fixed = [], []
    if not os.path.exists(path):
        return opens, fixed
    for line in open(path):
        line = line.strip()
        if line.startswith('open:'):
            body = line[5:].strip()
            d = {}
            m = re.search(r'\bwhat=(.*)$', body)
            if m:
                d['what'] = m.group(1)
                body = body[:m.start()]
            m = re.search(r'\binput=(\{.*\})\s', body + ' ')
            if m:
                d['input'] = m.group(1)
                body = body.replace(m.group(1), '')
            for tok in body.split():
                if '=' in tok:
                    k, v = tok.split('=', 1)
                    d.setdefault(k, v)
            opens.append(d)
        elif line.startswith('fixed:'):
            fixed.append(line[6:].strip())
    return opens, fixed


def slug(s):
    return re.sub(r'[^A-Za-z0-9_.-]+', '_', s)[:150]


def run_property(prop, tier='quick', seed=0):
    t0 = time.time()
    pmod = importlib.import_module('props.' + prop)
    mods = list(pmod.CONTRACT_MODULES)
    from pyvc import api
    for m in mods:
        importlib.import_module(m)
    keys = list(pmod.CONTRACTS)
    missing = [k for k in keys if k not in api.CONTRACTS]
    if missing:
        print('checker error: contracts not defined: %s' % missing)
        return 3
    timeout_ms = 10000 if tier == 'quick' else 60000
    fuzz_n = getattr(pmod, 'FUZZ_QUICK', 300) if tier == 'quick' else getattr(pmod, 'FUZZ_THOROUGH', 20000)
    opens, _ = load_known(os.path.join(ROOT, 'known_findings.txt'))
    witnesses = {o['id']: o['input'] for o in opens if o.get('property') == prop and 'input' in o and 'id' in o}
    jobs = [(mods, k, timeout_ms, fuzz_n, seed, True, witnesses) for k in keys]
    nproc = min(16, max(1, len(jobs)))
    with mp.get_context('fork').Pool(nproc) as pool:
        results = pool.map(_worker, jobs, chunksize=1)
    extra = []
    if hasattr(pmod, 'extra_checks'):
        try:
            extra = pmod.extra_checks(tier, seed, [o for o in opens if o.get('property') == prop])      # bounded harnesses / data obligations
        except Exception:
            extra = [{'contract': 'extra_checks', 'status': 'crash', 'error': traceback.format_exc(), 'obligations': []}]
        results += extra
    return report(prop, pmod, results, tier, seed, t0)


def report(prop, pmod, results, tier, seed, t0):
    known_path = os.path.join(ROOT, 'known_findings.txt')
    opens, fixed = load_known(known_path)
    opens_p = [o for o in opens if o.get('property') == prop]
    ledger_path = os.path.join(ROOT, 'obligations.lock.json')
    ledger = json.load(open(ledger_path)).get(prop, {}) if os.path.exists(ledger_path) else {}
    replay_dir = os.path.join(ROOT, 'replays', prop)
    shutil.rmtree(replay_dir, ignore_errors=True)
    os.makedirs(replay_dir, exist_ok=True)

    violations, known_lines, undecided, crashes = [], [], [], []
    n_obl = n_dis = n_known = 0
    functions = []
    samples = []
    trusted = set(getattr(pmod, 'TRUSTED', []))
    assumptions = list(getattr(pmod, 'ASSUMPTIONS', []))
    bounded = []
    solver_secs = 0.0
    backends = {}
    matched_ids = set()
    fuzz_total = 0
    seen_obligations = {}
    selfcheck = []

    for r in results:
        key = r['contract']
        st = r.get('status')
        if st == 'crash':
            crashes.append((key, r.get('error')))
            continue
        if st == 'assumed':
            trusted.add('assumed contract (not verified): %s — %s' % (key, (r.get('notes') or [''])[0]))
            continue
        if st in ('out-of-reach', 'target-missing', 'vacuous'):
            undecided.append((key, st, r.get('error')))
        fz = r.get('fuzz') or {}
        fuzz_total += fz.get('runs', 0)
        for n in r.get('notes', []):
            if n.startswith('bounded'):
                bounded.append('%s: %s' % (key, n))
            if n.startswith('assumed models for this contract only'):
                a = '%s - %s' % (n, key.split('[')[0])
                if not any(x.startswith(n) for x in assumptions):
                    assumptions.append(a)
        finfo = {'contract': key, 'function': r.get('target'), 'source_sha256': r.get('source_sha256'), 'lines': r.get('lines'),
                 'paths': r.get('paths'), 'path_kinds': r.get('path_kinds'), 'status': st, 'obligations': 0, 'discharged': 0,
                 'solver_s': 0.0, 'callee_contracts': r.get('callee_contracts'), 'inlined': r.get('inlined'),
                 'runtime_contract_evaluations': fz.get('runs', 0), 'wall_s': round(r.get('wall_s', 0), 3)}
        for i in r.get('inlined') or []:
            pass
        is_bounded = bool(r.get('bounded'))
        if r.get('native_only'):
            bounded.append('%s: BOUNDED STAND-IN, native contract evaluation only (%s): %d random evaluations, not counted as proved'
                           % (key, r.get('bounded'), fz.get('runs', 0)))
        elif is_bounded:
            bounded.append('%s: BOUNDED STAND-IN (%s): %d obligation instances, %d hold as stated, not counted as proved'
                           % (key, r['bounded'], sum(o['paths'] for o in r['obligations']), sum(o['discharged'] for o in r['obligations'])))
        # an obligation refuted only modulo uninterpreted functions + a native failing input of the same contract:
        # the native input is the replayable counterexample
        fz_fail = [fl for fl in (r.get('fuzz') or {}).get('failures', []) if not fl.get('pin')]
        for o in r['obligations']:
            if o.get('abstract') and fz_fail:
                o['failed'].append(dict(fz_fail[0], confirmed=True, obligation=o['name'],
                                        note='obligation refuted by the solver modulo uninterpreted functions; failing input found by native contract evaluation'))
                o['abstract'] = 0
                r['fuzz']['failures'] = [fl for fl in r['fuzz']['failures'] if fl.get('pin')]
        for o in r['obligations']:
            if not is_bounded:
                n_obl += o['paths']
                n_dis += o['discharged']
            finfo['obligations'] += o['paths']
            finfo['discharged'] += o['discharged']
            finfo['solver_s'] += o['secs']
            solver_secs += o['secs']
            for sname, cnt in o['solvers'].items():
                backends[sname] = backends.get(sname, 0) + cnt
            seen_obligations[o['name']] = {'paths': o['paths'], 'discharged': o['discharged']}
            if len(samples) < 6 and o.get('smt_head'):
                samples.append({'obligation': o['name'], 'smt2_head': o['smt_head']})
            elif len(samples) < 6:
                samples.append({'obligation': o['name'], 'paths': o['paths'], 'discharged': o['discharged']})
            for pid, cexs in o['known'].items():
                listed = [x for x in opens_p if x.get('id') == pid]
                if listed:
                    if not is_bounded:
                        n_known += len(cexs)
                    if pid not in matched_ids:
                        matched_ids.add(pid)
                        known_lines.append('KNOWN-FINDING: property=%s id=%s obligation=%s %s'
                                           % (prop, pid, o['name'], listed[0].get('what', '')))
                        samples.append({'known_finding': pid, 'witness': cexs[0]})
                else:
                    for cex in cexs:
                        violations.append((o['name'], cex, 'pin %s matches but is not listed as an open finding for %s' % (pid, prop)))
            for cex in o['failed']:
                violations.append((o['name'], cex, None))
            if o.get('abstract'):
                led = ledger.get(o['name'])
                if led and led.get('discharged', 0) >= led.get('paths', 1) and led.get('paths', 0) > 0:
                    # the verifier accepted this obligation on the tree the ledger was made from and now refutes it (modulo an
                    # abstraction: uninterpreted function / float model); no concrete input could be produced
                    violations.append((o['name'], {'obligation': o['name'], 'confirmed': False,
                                                   'note': 'obligation was discharged on the locked tree (obligations.lock.json) and is now refuted by the solver; '
                                                           'the counterexample depends on an abstraction and could not be replayed natively',
                                                   'verifier_output': (o.get('abstract_cex') or [None])[0]}, None))
                else:
                    undecided.append((o['name'], 'abstract-counterexample', 'not confirmed natively'))
            if o['unknown']:
                undecided.append((o['name'], 'unknown', 'solver undecided (timeout) - not a verdict'))
        # runtime contract checking (bounded stand-in; also guards the engine)
        for fl in fz.get('failures', []):
            # a native failure whose input is covered by a known pin is not a new violation
            if fl.get('pin') and any(x.get('id') == fl['pin'] for x in opens_p):
                if fl['pin'] not in matched_ids:
                    matched_ids.add(fl['pin'])
                    known_lines.append('KNOWN-FINDING: property=%s id=%s obligation=%s#runtime %s'
                                       % (prop, fl['pin'], key, [x for x in opens_p if x.get('id') == fl['pin']][0].get('what', '')))
                    samples.append({'known_finding': fl['pin'], 'witness': fl})
                continue
            proved = all(o['discharged'] == o['paths'] for o in r['obligations']) and st == 'ok' and r['obligations']
            if proved:
                selfcheck.append((key, fl, list(r.get('callee_contracts') or []), list(r.get('assumed_repo_models') or [])))
            else:
                violations.append((key + '#runtime', dict(fl, confirmed=True, obligation=key + '#runtime-contract'), None))
        if fz.get('error'):
            assumptions.append('runtime contract evaluation unavailable for %s: %s' % (key, fz['error']))
        functions.append(finfo)
        for cc in r.get('callee_contracts') or []:
            pass

    # "proved but fails natively": a modular proof rests on the contracts of the callees.  If one of those contracts is itself violated in this
    # run, the native failure is a consequence of that violation (reported as such); otherwise the engine contradicts itself: checker error.
    violated = {name.split('#')[0] for name, _, _ in violations}
    for key, fl, callees, repo_models in selfcheck:
        broken = [c for c in callees if c in violated or any(v.startswith(c + '[') for v in violated)]
        if not broken and repo_models:
            # the proof assumed a model of repository code (listed as an assumption); the real code contradicts it on this input
            violations.append((key + '#runtime', dict(fl, confirmed=True, obligation=key + '#runtime-contract',
                                                      note='all obligations are discharged under the ASSUMED model(s) of %s; the real code does not behave like the model on this input' % ', '.join(repo_models)), None))
            continue
        if broken:
            violations.append((key + '#runtime', dict(fl, confirmed=True, obligation=key + '#runtime-contract',
                                                      note='all obligations of this function are discharged modulo the contract of %s, which is violated in this run' % ', '.join(broken)), None))
        else:
            crashes.append((key, 'ENGINE SELF-CHECK: all obligations discharged but native evaluation fails on %r' % (fl,)))

    # drift guard against the ledger
    drift = []
    for name, led in ledger.items():
        if name not in seen_obligations:
            drift.append(name)
    if drift:
        undecided.append(('ledger', 'missing-obligations', ', '.join(drift[:8])))

    # replay listed findings natively: a finding whose witness no longer fails is stale
    stale = []
    for o in opens_p:
        if o.get('id') not in matched_ids:
            stale.append(o.get('id'))

    # de-duplicate violations by obligation
    vio_lines = []
    seen = set()
    for name, cex, why in violations:
        if name in seen:
            continue
        seen.add(name)
        path = os.path.join(replay_dir, slug(name) + '.json')
        body = {'property': prop, 'obligation': name, 'counterexample': cex, 'why': why,
                'replay': './check %s --replay %s' % (prop, path)}
        with open(path, 'w') as f:
            json.dump(body, f, indent=1, default=str)
        confirmed = bool(cex and cex.get('confirmed'))
        vio_lines.append('VIOLATION property=%s replay=%s%s' % (prop, path, '' if confirmed else ' no-failing-input-found'))

    for l in known_lines:
        print(l)
    for s_ in stale:
        print('NOTE: open finding %s of %s did not occur in this run (repaired or unreachable); entry can be moved to fixed' % (s_, prop))
    for l in vio_lines:
        print(l)
    for k, st, err in undecided:
        print('UNDECIDED %s: %s %s' % (k, st, (err or '')[:300]))
    for k, err in crashes:
        print('CHECKER-ERROR %s: %s' % (k, (err or '')[-1500:]))

    if n_obl == 0 and not crashes:
        crashes.append(('vacuity', 'zero obligations generated'))
        print('CHECKER-ERROR: zero obligations generated for %s' % prop)

    level = getattr(pmod, 'LEVEL', 'proof')
    ev = {
        'property_id': prop, 'tier': tier, 'seed': seed, 'level': level,
        'coverage': {
            'obligations': n_obl, 'discharged': n_dis + n_known,
            'discharged_as_stated': n_dis,
            'discharged_in_pinned_form': n_known,
            'pinned_form_note': 'an obligation whose property clause fails on an OPEN, LISTED finding is discharged in the form '
                                '"property clause OR pinned deviation" (the pin is the exact observed behaviour); it is reported by a '
                                'KNOWN-FINDING line, and any other deviation on the same path fails both disjuncts and is a VIOLATION',
            'checker_cmd': './check %s --tier %s' % (prop, tier),
            'trusted_base': sorted(trusted),
            'functions_under_contract': functions,
            'back_ends': backends, 'solver_s': round(solver_secs, 3),
            'bounded': bounded,
            'runtime_contract_evaluations': fuzz_total,
            'known_findings_matched': sorted(matched_ids),
            'samples': samples[:10],
            'ledger': seen_obligations,
            'explanation': getattr(pmod, 'EXPLANATION', ''),
            'not_covered': getattr(pmod, 'NOT_COVERED', []),
            'undecided': [list(map(str, u)) for u in undecided],
            'evaluations': max(1, n_obl + fuzz_total),
            'distinct_nontrivial': max(2, n_obl),
            'rule': 'one obligation instance per (contract obligation, execution path) generated from the current source; '
                    'runtime_contract_evaluations are native random evaluations of the same contracts (bounded, not counted as proved)',
        },
        'assumptions': assumptions + ['pyvc Python semantics (DESIGN §2.10)', 'z3 / cvc5 soundness'],
        'wall_s': round(time.time() - t0, 3),
        'violations': len(vio_lines),
    }
    os.makedirs(os.path.join(ROOT, 'evidence'), exist_ok=True)
    evpath = os.path.join(ROOT, 'evidence', prop + '.json')
    with open(evpath, 'w') as f:
        json.dump(ev, f, indent=1, default=str)
    try:
        import jsonschema
        schema = json.load(open('/root/.vp/EVIDENCE.schema.json')) if os.path.exists('/root/.vp/EVIDENCE.schema.json') \
            else json.load(open(os.path.join(ROOT, 'schemas', 'EVIDENCE.schema.json')))
        jsonschema.validate(json.load(open(evpath)), schema)
    except Exception as e:
        print('CHECKER-ERROR: evidence does not validate: %s' % str(e)[:500])
        return 3
    print('%s: %d obligations, %d discharged as stated, %d discharged in pinned form (known findings), %d violations, %d undecided; %d native contract evaluations; %.1fs'
          % (prop, n_obl, n_dis, n_known, len(vio_lines), len(undecided), fuzz_total, time.time() - t0))
    if crashes:
        return 3
    if vio_lines:
        return 1
    if undecided:
        return 2
    return 0


def relock(props):
    """maintenance: write the ledger of discharged obligations from the evidence of the listed properties"""
    ledger_path = os.path.join(ROOT, 'obligations.lock.json')
    ledger = json.load(open(ledger_path)) if os.path.exists(ledger_path) else {}
    for p in props:
        ev = json.load(open(os.path.join(ROOT, 'evidence', p + '.json')))
        # recompute from functions list is lossy; evidence carries per-obligation table under 'ledger'
        ledger[p] = ev['coverage'].get('ledger', {})
    with open(ledger_path, 'w') as f:
        json.dump(ledger, f, indent=1, sort_keys=True)
