"""Verification of one contract against the real function body: path exploration, obligations,
discharge (z3 API, then SMT-LIB on cvc5 / z3 4.8 for unknowns), counterexample concretisation and
native replay (DESIGN §2.8, §4)."""
import ast
import copy
import hashlib
import inspect
import json
import os
import subprocess
import tempfile
import time
import traceback
import z3
from z3 import z3util

from .values import *
from .ctx import Ctx, PyRaise, Unsupported, Infeasible, PathLimit, explore, Obligation, UnsupportedPath
from .interp import Interp, Registry, func_ast, CutPath, source_file_of
from .models import install_default_models, BoundedCut
from . import ops, api
from .ops import truth_term, wrap_bool

QUICK_TIMEOUT_MS = 10000


def make_registry():
    reg = Registry()
    reg.bounds = {}
    install_default_models(reg)
    try:
        from contracts import external
        external.install(reg)
        reg.trusted_external = list(external.TRUSTED)
    except ImportError:
        reg.trusted_external = []
    for inst in api.INSTALLERS:
        inst(reg)
    return reg


# ---------------------------------------------------------------------------------------------------
# helpers

def snapshot(v):
    """Deep copy of the *structure* of a symbolic value (terms are immutable)."""
    if isinstance(v, list):
        return [snapshot(x) for x in v]
    if isinstance(v, tuple):
        return tuple(snapshot(x) for x in v)
    if isinstance(v, dict):
        return {k: snapshot(x) for k, x in v.items()}
    if isinstance(v, SList):
        return SList(v.rid, v.n, [snapshot(x) for x in v.tail], v.elem, v.cls, v.taken)
    if isinstance(v, Rec):
        return Rec(v.cls, {k: snapshot(x) for k, x in v.attrs.items()})
    if isinstance(v, Sym):
        return v
    if isinstance(v, (int, str, bytes, float, bool, type(None))):
        return v
    try:
        return copy.deepcopy(v)
    except Exception:
        return v


def call_by_name(ip, fn, env):
    """Call a contract function (requires/ensures/pin) with the arguments it names."""
    ps = inspect.signature(fn).parameters
    if any(p.kind == p.VAR_KEYWORD for p in ps.values()):
        return ip.call(fn, [], dict(env))
    names = list(ps)
    missing = [n for n in names if n not in env]
    if missing:
        raise Unsupported('contract function %s asks for unknown names %s' % (fn.__qualname__, missing))
    return ip.call(fn, [env[n] for n in names])


def native_by_name(fn, env):
    ps = inspect.signature(fn).parameters
    if any(p.kind == p.VAR_KEYWORD for p in ps.values()):
        return fn(**env)
    return fn(*[env[n] for n in ps])


def concretize_value(model, v, ctx=None):
    """Concrete Python value of a symbolic value under a z3 model."""
    def ev(t):
        return model.eval(t, model_completion=True)
    if isinstance(v, SInt):
        return ev(v.t).as_long()
    if isinstance(v, SBool):
        return z3.is_true(ev(v.t))
    if isinstance(v, SFloat):
        r = ev(v.t)
        return float(r.numerator_as_long()) / float(r.denominator_as_long())
    if isinstance(v, (SBytes, SStr)):
        if v.items is not None:
            vals = [x if isinstance(x, int) else ev(x).as_long() for x in v.items]
        else:
            vals = []
            for part in v.parts:
                if isinstance(part, list):
                    vals += [x if isinstance(x, int) else ev(x).as_long() for x in part]
                else:
                    n = part.len if isinstance(part.len, int) else ev(part.len).as_long()
                    if n > 100000:
                        raise ValueError('counterexample needs a %d-byte string' % n)
                    vals += [ev(part.term[i]).as_long() for i in range(n)]
        if isinstance(v, SBytes):
            return bytes([x % 256 for x in vals])
        return ''.join(chr(x % 0x110000) for x in vals)
    if isinstance(v, SList):
        n = v.n if isinstance(v.n, int) else ev(v.n).as_long()
        n = min(n, 64)
        pre = [concretize_value(model, v.elem.from_prefix(None, v.rid, v.taken + n - i), ctx) for i in range(n)]
        items = pre + [concretize_value(model, x, ctx) for x in v.tail]
        return v.cls(items) if v.cls is not list else items
    if isinstance(v, api.SUnion):
        i = ev(v.tag).as_long()
        return concretize_value(model, v.alts[i if 0 <= i < len(v.alts) else 0], ctx)
    if isinstance(v, Rec):
        return RecValue(v.cls, {k: concretize_value(model, x, ctx) for k, x in v.attrs.items()})
    if isinstance(v, list):
        return [concretize_value(model, x, ctx) for x in v]
    if isinstance(v, tuple):
        return tuple(concretize_value(model, x, ctx) for x in v)
    if isinstance(v, dict):
        return {k: concretize_value(model, x, ctx) for k, x in v.items()}
    if isinstance(v, Opaque):
        return None
    if isinstance(v, Sym):
        raise ValueError('abstract value %r has no concrete counterpart (use the contract sampler for a native witness)' % (v,))
    return v


class RecValue:
    """Concrete field values for an object; contract.build turns it into a real instance."""

    def __init__(self, cls, fields):
        self.cls, self.fields = cls, fields

    def __getattr__(self, name):
        f = self.__dict__.get('fields', {})
        if name in f:
            return f[name]
        raise AttributeError(name)

    def __setattr__(self, name, value):
        if name in ('cls', 'fields'):
            self.__dict__[name] = value
        else:
            self.__dict__['fields'][name] = value

    def __repr__(self):
        return '%s(%s)' % (self.cls.__name__, ', '.join('%s=%r' % kv for kv in sorted(self.fields.items())))


# ---------------------------------------------------------------------------------------------------
# applying a contract at a call site

def conforms(ctx, ty, v, depth=0):
    """does the value v satisfy the constraints of the parameter type ty?  True / False / a z3 term / None (cannot tell)"""
    from .values import SInt, SBool, SBytes, SStr, SList, Rec
    if not isinstance(ty, api.T):
        return True if (is_concrete(v) and v == ty) or v is ty else None
    if depth > 6:
        return None
    if isinstance(ty, api.Secret):
        return conforms(ctx, ty.inner, v, depth + 1)
    if isinstance(ty, api._Int):
        if isinstance(v, bool) or not isinstance(v, (int, SInt)):
            return None if isinstance(v, (SBool, bool)) else False
        conj = []
        t = ops.int_term(v)
        if ty.lo is not None:
            conj.append(t >= ty.lo)
        if ty.hi is not None:
            conj.append(t <= ty.hi)
        if not conj:
            return True
        r = z3.simplify(z3.And(*conj))
        return True if z3.is_true(r) else (False if z3.is_false(r) else r)
    if isinstance(ty, api._Bool):
        return True if isinstance(v, (bool, SBool)) else False
    if isinstance(ty, api._Bytes):
        if not isinstance(v, (bytes, bytearray, SBytes)):
            return False
        n = ops.seq_len(v)
        nt = ops.int_term(n)
        conj = []
        if ty.n is not None:
            conj.append(nt == ty.n)
        if ty.max is not None:
            conj.append(nt <= ty.max)
        if getattr(ty, 'min', None) is not None:
            conj.append(nt >= ty.min)
        if getattr(ty, 'ne', None) is not None:
            e = ops.seq_eq_term(v, ty.ne)
            conj.append(z3.Not(e) if not isinstance(e, bool) else z3.BoolVal(not e))
        if not conj:
            return True
        r = z3.simplify(z3.And(*conj))
        return True if z3.is_true(r) else (False if z3.is_false(r) else r)
    if isinstance(ty, api._Str):
        if not isinstance(v, (str, SStr)):
            return False
        if ty.n is None:
            return True
        r = z3.simplify(ops.int_term(ops.seq_len(v)) == ty.n)
        return True if z3.is_true(r) else (False if z3.is_false(r) else r)
    if isinstance(ty, api.Const):
        want = ty.fresh(ctx, 'c')
        if is_concrete(v):
            try:
                return bool(v == want)
            except Exception:
                return None
        return None
    if isinstance(ty, api.RecordOf):
        cls = ty.cls if not isinstance(ty.cls, str) else api.resolve(ty.cls)[0]
        if not isinstance(v, Rec) or not issubclass(v.cls, cls):
            return None
        conj = []
        for name, ft in ty.fields.items():
            if isinstance(ft, api.Position):
                continue
            if name not in v.attrs:
                return None
            t = conforms(ctx, ft, v.attrs[name], depth + 1)
            if t is None or t is False:
                return t
            if t is not True:
                conj.append(t)
        return z3.And(*conj) if conj else True
    if isinstance(ty, api.FixedList):
        if not isinstance(v, list) or len(v) != ty.n:
            return False if isinstance(v, list) else None
        conj = []
        for x in v:
            t = conforms(ctx, ty.elem, x, depth + 1)
            if t is None or t is False:
                return t
            if t is not True:
                conj.append(t)
        return z3.And(*conj) if conj else True
    if isinstance(ty, api.ListOf):
        if isinstance(v, SList):
            return True if v.elem is ty.elem else None
        if isinstance(v, list):
            conj = []
            for x in v:
                t = conforms(ctx, ty.elem, x, depth + 1)
                if t is None or t is False:
                    return t
                if t is not True:
                    conj.append(t)
            return z3.And(*conj) if conj else True
        return None
    if isinstance(ty, (api.OpaqueT, api.OpaqueElem, api.ArrayT)):
        return True
    return None


def apply_contract(c, ip, f, args, kwargs):
    ctx = ip.ctx
    if c.call is not None or (c.result_is is None and c.returns is None):
        return NotImplemented
    if c.pins and c.effective is None:
        return NotImplemented      # open findings and no stated effective behaviour: use the callee body      # contract is phrased over ghost parameters: the callee body is used instead (inlined)
    try:
        ba = inspect.signature(f).bind(*args, **kwargs)
    except TypeError as e:
        raise PyRaise(e, implicit=True)
    ba.apply_defaults()
    env = dict(ba.arguments)
    for k, v in c.kwargs.items():
        if k in env and not (is_concrete(env[k]) and env[k] == v):
            return NotImplemented     # this case of the contract does not cover the call
    # the parameter TYPES of a contract are preconditions too (ranges, lengths, constant fields): the contract covers a call only if the
    # actual arguments provably conform; otherwise the callee body is used
    for pname, pty in c.params.items():
        if pname not in env:
            continue
        t = conforms(ctx, pty, env[pname])
        if t is None or t is False:
            return NotImplemented
        if t is not True and ctx.check(z3.Not(t)) != z3.unsat:
            return NotImplemented
    sub = Interp(ctx, ip.reg, modular=False, top=None)
    if c.requires is not None:
        r = call_by_name(sub, c.requires, env)
        t = truth_term(ctx, r)
        site = 'call[%s].pre' % c.key
        ctx.oblige('%s#%s' % (ip.top_name, site), 'call-pre', t if not isinstance(t, bool) else z3.BoolVal(t),
                   {'callee': c.key})
        ctx.assume(t)
    if c.effective is not None and c.pins:
        return call_by_name(sub, c.effective, env)
    if c.result_is is not None:
        return call_by_name(sub, c.result_is, env)
    if c.returns is None:
        raise Unsupported('contract %s has neither result_is nor returns' % c.key)
    res = c.returns.fresh(ctx, 'ret_' + c.target.rsplit('.', 1)[-1])
    if c.ensures is not None:
        env2 = dict(env)
        env2['result'] = res
        r = call_by_name(sub, c.ensures, env2)
        ctx.assume(truth_term(ctx, r))
    return res


# ---------------------------------------------------------------------------------------------------
# running one contract

class PathOutcome:
    def __init__(self, kind, detail=None):
        self.kind = kind       # 'return' | 'raise' | 'cut' | 'bounded'
        self.detail = detail


def return_ordinals(fnode):
    rets = [n for n in ast.walk(fnode) if isinstance(n, (ast.Return, ast.Raise))]
    rets.sort(key=lambda n: (n.lineno, n.col_offset))
    return {(n.lineno, n.col_offset): i for i, n in enumerate(rets)}


def verify_contract(c, reg, timeout_ms=QUICK_TIMEOUT_MS, max_paths=4000, want_smt=False, opaque=True, witnesses=None, refute=False, time_limit=600):
    """Returns a picklable dict describing obligations and their status."""
    t0 = time.time()
    out = {'contract': c.key, 'target': c.target, 'props': list(c.props), 'obligations': [], 'status': 'ok',
           'notes': [], 'paths': 0, 'callee_contracts': [], 'inlined': [], 'native': []}
    try:
        f, owner, kind = c.function()
    except Exception as e:
        out['status'] = 'target-missing'
        out['error'] = repr(e)
        return out
    if not hasattr(f, '__code__'):
        out['status'] = 'target-missing'
        out['error'] = 'not a Python function'
        return out
    src_file = source_file_of(f)
    out['source_file'] = src_file
    try:
        fnode = func_ast(f)
        seg = ast.get_source_segment(open(src_file).read(), fnode) or ''
        out['source_sha256'] = hashlib.sha256(seg.encode()).hexdigest()
        out['lines'] = [fnode.lineno, fnode.end_lineno]
    except Unsupported as e:
        out['status'] = 'out-of-reach'
        out['error'] = str(e)
        return out
    reg.use_opaque = opaque
    out['mode'] = ('opaque-specs' if opaque else 'transparent-specs') + ('-refutation-search' if refute else '')
    out['opaque_specs'] = []
    loops_local = {k: v for k, v in api.LOOPS.items()}
    reg.loop_contracts = loops_local
    reg.bounds = dict(c.bounds)
    if c.local_models is not None:
        # models that only this contract may rely on: installed on a private copy of the tables
        reg.models = dict(reg.models)
        reg.sym_methods = dict(reg.sym_methods)
        c.local_models(reg)
        out['notes'].append('assumed models for this contract only: %s' % (getattr(c.local_models, '__doc__', None) or c.local_models.__name__))
    path_records = []

    def run_path(ctx):
        ip = Interp(ctx, reg, modular=True, top=f)
        ip.top_name = c.key
        env = {}
        for name, ty in c.params.items():
            env[name] = ty.fresh(ctx, name) if isinstance(ty, api.T) else ty
        ctx.param_env = snapshot(env)
        if refute:
            for name, ty in c.params.items():
                if isinstance(ty, api.T):
                    ty.restrict(ctx, env[name])
        spec_ip = Interp(ctx, reg, modular=False, top=None)
        spec_ip.top_name = c.key
        spec_ip.opaque_used = ip.opaque_used
        if c.init is not None:
            call_by_name(spec_ip, c.init, env)
            ctx.param_env = snapshot(env)
        if c.requires is not None:
            r = call_by_name(spec_ip, c.requires, env)
            ctx.assume(truth_term(ctx, r))
        if ctx.check() == z3.unsat:
            raise Infeasible()
        olds = {'old_' + k: snapshot(v) for k, v in env.items()}
        ctx.requires_len = len(ctx.pc)
        sig = inspect.signature(f)
        call_kwargs = {k: v for k, v in env.items() if k in sig.parameters}
        ip.ghost_locals = {k: v for k, v in env.items() if k not in sig.parameters}
        if c.call is not None:
            call_kwargs.update(call_by_name(spec_ip, c.call, env))
        call_kwargs.update(c.kwargs)
        try:
            result = ip.call_function_ast(f, fnode, [], call_kwargs)
            outcome = PathOutcome('return')
        except PyRaise as pr:
            outcome = PathOutcome('raise', pr)
            result = None
        except CutPath:
            _collect(ip)
            return PathOutcome('cut')
        except BoundedCut as b:
            _collect(ip)
            return PathOutcome('bounded', str(b))
        _collect(ip)
        penv = dict(env)
        penv.update(olds)
        penv['call_args'] = call_kwargs
        penv['locals'] = getattr(ip, 'top_locals', None) or {}
        gh = dict(ctx.ghost)
        if outcome.kind == 'return' and gh.get('entropy_draws'):
            names = set()
            for t in _terms_of(result):
                names |= _const_names(t)
            gh['result_depends_on_entropy'] = any(n.startswith('urandom') or n.startswith('entropy_') for n in names)
        penv['ghost'] = gh
        if outcome.kind == 'raise':
            exc = outcome.detail.exc
            cond_fn = None
            for ecls, fn in list(c.raises.items()) + list(c.raises_iff.items()):
                if isinstance(exc, ecls):
                    cond_fn = fn
                    break
            name = '%s#raises[%s]' % (c.key, type(exc).__name__)
            info = {'exception': '%s: %s' % (type(exc).__name__, exc), 'implicit': outcome.detail.implicit}
            rp = {}
            for pid, (ecls, pfn) in c.raise_pins.items():
                if isinstance(exc, ecls):
                    rp[pid] = truth_term(ctx, call_by_name(spec_ip, pfn, penv)) if callable(pfn) else bool(pfn)
            info['pins'] = rp
            if cond_fn is None:
                ctx.oblige(name, 'raises', False, info)
            else:
                r = call_by_name(spec_ip, cond_fn, penv) if callable(cond_fn) else cond_fn
                t = truth_term(ctx, r)
                ctx.oblige(name, 'raises', t, info)
            return outcome
        penv['result'] = result
        pin_terms = {}
        for pid, pfn in c.pins.items():
            try:
                pr_ = call_by_name(spec_ip, pfn, penv)
                pin_terms[pid] = truth_term(ctx, pr_)
            except PyRaise:
                pin_terms[pid] = False
        # must-raise conditions: on a normal return none of the raises_iff conditions may hold
        for ecls, fn in c.raises_iff.items():
            r = call_by_name(spec_ip, fn, {k: v for k, v in penv.items() if k != 'result'})
            t = truth_term(ctx, r)
            ctx.oblige('%s#must-raise[%s]' % (c.key, ecls.__name__), 'must-raise',
                       z3.Not(t) if not isinstance(t, bool) else (not t), {'pins': pin_terms})
        post_fns = []
        if c.result_is is not None:
            spec_val = call_by_name(spec_ip, c.result_is, penv)
            t = ops.values_eq(ctx, result, spec_val)
            post_fns.append(('post', t, {'result': _short(result), 'specified': _short(spec_val)}))
        if c.ensures is not None:
            try:
                r = call_by_name(spec_ip, c.ensures, penv)
                post_fns.append(('post', truth_term(ctx, r), {'result': _short(result)}))
            except PyRaise as e:
                # the postcondition is not even defined here (e.g. the specification says "invalid" but the code returned)
                post_fns.append(('post', False, {'result': _short(result), 'specified': 'postcondition raised %r' % (e.exc,)}))
        for kind_, t, info in post_fns:
            info['pins'] = pin_terms
            ctx.oblige('%s#%s' % (c.key, kind_), kind_, t, info)
        return outcome

    def _collect(ip):
        out['callee_contracts'] = sorted(set(out['callee_contracts']) | ip.called_contracts)
        out['inlined'] = sorted(set(out['inlined']) | ip.inlined)
        out['native'] = sorted(set(out['native']) | ip.native_calls)
        out['opaque_specs'] = sorted(set(out['opaque_specs']) | ip.opaque_used)
        out['assumed_repo_models'] = sorted(set(out.get('assumed_repo_models', [])) | ip.repo_models)

    try:
        results = explore(run_path, max_paths=max_paths, time_limit=time_limit, keep_unsupported=True)
        unsup = [(cx, o) for cx, o in results if isinstance(o, UnsupportedPath)]
        if unsup:
            # Paths the executor cannot follow make the contract undecided.  The inputs that reach them are still inputs of the
            # real function: take a model of each such path condition and evaluate the contract natively on it, so that a change
            # that sends inputs into unmodelled code is reported with a concrete failing input instead of only "undecided".
            out['status'] = 'out-of-reach'
            out['error'] = unsup[0][1].detail
            out['unsupported_paths'] = len(unsup)
            probes = _probe_unsupported(c, unsup[:12])
            out['unsupported_probes'] = probes['runs']
            if probes['failed']:
                out['obligations'] = [{'name': '%s#post' % c.key, 'kind': 'post', 'paths': len(probes['failed']), 'discharged': 0,
                                       'failed': probes['failed'], 'unknown': 0, 'secs': 0.0, 'solvers': {'native': len(probes['failed'])}, 'known': {}}]
            out['paths'] = len(results)
            out['wall_s'] = time.time() - t0
            return out
    except Unsupported as e:
        out['status'] = 'out-of-reach'
        out['error'] = str(e)
        out['wall_s'] = time.time() - t0
        return out
    except PathLimit as e:
        out['status'] = 'out-of-reach'
        out['error'] = 'path limit: %s' % e
        out['wall_s'] = time.time() - t0
        return out
    out['paths'] = len(results)
    kinds = {}
    agg = {}
    seen = set()
    for ctx, outcome in results:
        if outcome == 'infeasible':
            outcome = PathOutcome('infeasible')
        kinds[outcome.kind] = kinds.get(outcome.kind, 0) + 1
        for n in ctx.notes:
            if n not in out['notes']:
                out['notes'].append(n)
        if outcome.kind == 'bounded':
            note = 'bounded: ' + (outcome.detail or '')
            if note not in out['notes']:
                out['notes'].append(note)
        ordinal = {}
        for ob in ctx.obligations:
            base = (ob.name, repr(ob.decisions), len(ob.pc))
            ordinal[base] = ordinal.get(base, 0) + 1
            dk = base + (ordinal[base],)          # two obligations of the same name at the same point of a path (result_is and ensures) are distinct
            if dk in seen:
                continue
            seen.add(dk)
            discharge(ob, ctx, c, timeout_ms, witnesses or {})
            a = agg.setdefault(ob.name, {'name': ob.name, 'kind': ob.kind, 'paths': 0, 'discharged': 0,
                                         'failed': [], 'unknown': 0, 'secs': 0.0, 'solvers': {}, 'known': {}})
            a['paths'] += 1
            a['secs'] += ob.secs
            a['solvers'][ob.solver] = a['solvers'].get(ob.solver, 0) + 1
            if ob.status == 'discharged':
                a['discharged'] += 1
            elif ob.status == 'unknown':
                a['unknown'] += 1
            elif ob.status == 'abstract-cex':
                a['abstract'] = a.get('abstract', 0) + 1
                a.setdefault('abstract_cex', [])
                if len(a['abstract_cex']) < 2:
                    a['abstract_cex'].append(ob.info.get('cex'))
            elif ob.status.startswith('known:'):
                a['known'].setdefault(ob.status[6:], []).append(ob.info.get('cex'))
            else:
                a['failed'].append(ob.info.get('cex'))
            if want_smt and 'smt_head' not in a:
                a['smt_head'] = ob.info.get('smt_head')
    out['path_kinds'] = kinds
    if kinds.get('return', 0) + kinds.get('raise', 0) + kinds.get('cut', 0) == 0:
        out['status'] = 'vacuous'
    out['obligations'] = list(agg.values())
    out['wall_s'] = time.time() - t0
    return out


def _probe_unsupported(c, unsup):
    """native contract evaluation on one model of each unsupported path's condition"""
    runs, failed = 0, []
    if c.pins or c.raise_pins or c.native_skip:
        return {'runs': 0, 'failed': []}
    for cx, o in unsup:
        try:
            s = z3.Solver()
            s.set('timeout', 5000)
            for p in cx.pc:
                s.add(p)
            if s.check() != z3.sat:
                continue
            m = s.model()
            conc = {k: concretize_value(m, v) for k, v in cx.param_env.items()}
            rep = replay_native(c, conc)
            runs += 1
            if rep.get('confirmed'):
                cex = {'obligation': '%s#post' % c.key, 'input': {k: _jsonable(v) for k, v in conc.items()},
                       'note': 'input taken from the path condition of a path the symbolic executor could not follow (%s); '
                               'the contract fails on it natively' % o.detail}
                cex.update(rep)
                if len(failed) < 3:
                    failed.append(cex)
        except Exception:
            continue
    return {'runs': runs, 'failed': failed}


def _const_names(t):
    """names of the uninterpreted constants in a term (DAG traversal)"""
    seen, out, stack = set(), set(), [t]
    while stack:
        e = stack.pop()
        i = e.get_id()
        if i in seen:
            continue
        seen.add(i)
        if z3.is_const(e) and e.decl().kind() == z3.Z3_OP_UNINTERPRETED:
            out.add(e.decl().name())
        else:
            stack.extend(e.children())
    return out


def _terms_of(v, depth=0):
    """all z3 terms inside a symbolic value"""
    if depth > 6:
        return
    if isinstance(v, (SInt, SBool, SFloat)):
        yield v.t
    elif isinstance(v, (SBytes, SStr)):
        for p in v.parts:
            if isinstance(p, list):
                for x in p:
                    if not isinstance(x, int):
                        yield x
            else:
                yield p.term
    elif isinstance(v, (list, tuple)):
        for x in v:
            yield from _terms_of(x, depth + 1)
    elif isinstance(v, dict):
        for x in v.values():
            yield from _terms_of(x, depth + 1)
    elif isinstance(v, Rec):
        for x in v.attrs.values():
            yield from _terms_of(x, depth + 1)
    elif isinstance(v, SList):
        for x in v.tail:
            yield from _terms_of(x, depth + 1)


def _short(v):
    s = repr(v)
    return s if len(s) < 200 else s[:200] + '...'


# ---------------------------------------------------------------------------------------------------
# discharge

def _solve(pc, neg_claim, timeout_ms):
    s = z3.Solver()
    s.set('timeout', timeout_ms)
    for p in pc:
        s.add(p)
    s.add(neg_claim)
    t0 = time.time()
    r = s.check()
    return r, s, time.time() - t0


def _external(smt2, solver, timeout_s):
    with tempfile.NamedTemporaryFile('w', suffix='.smt2', delete=False) as f:
        f.write(smt2)
        path = f.name
    try:
        if solver == 'cvc5':
            cmd = ['/usr/bin/cvc5', '--strings-exp', '--tlimit=%d' % (timeout_s * 1000), path]
        else:
            cmd = ['/usr/bin/z3', '-T:%d' % timeout_s, path]
        try:
            p = subprocess.run(cmd, capture_output=True, text=True, timeout=timeout_s + 5)
            outp = p.stdout.strip().splitlines()
            return outp[0] if outp else 'unknown'
        except subprocess.TimeoutExpired:
            return 'unknown'
    finally:
        os.unlink(path)


def discharge(ob, ctx, c, timeout_ms, witnesses=None):
    claim = ob.claim
    neg = z3.Not(claim)
    soft = ob.info.pop('soft', None) or set()
    hard = [p for p in ob.pc if p.get_id() not in soft]
    secs0 = 0.0
    r = z3.unknown
    if len(hard) < len(ob.pc):
        # proof attempt without the sequence-length coupling facts (fewer hypotheses: unsat is still a proof)
        r, s, secs0 = _solve(hard, neg, min(timeout_ms, 3000))
    if r != z3.unsat:
        r, s, secs = _solve(ob.pc, neg, timeout_ms)
    else:
        secs = 0.0
    ob.secs = secs + secs0
    ob.solver = 'z3-%s' % z3.get_version_string()
    if r == z3.unknown:
        # bounded non-negative integers with div / mod / shifts by constants: exact bit-vector translation (pyvc/bvback.py)
        from . import bvback
        t1 = time.time()
        rb, vals = bvback.solve(hard, neg, max(timeout_ms, 20000))
        ob.secs += time.time() - t1
        if rb == z3.unsat:
            r = z3.unsat
            ob.solver = 'z3-%s QF_BV (bit-vector translation)' % z3.get_version_string()
        elif rb == z3.sat:
            eqs = [iv == v for iv, v in vals.values()]
            r2, s2, _ = _solve(ob.pc + eqs, neg, timeout_ms)
            if r2 == z3.sat:
                r, s = r2, s2
    ob.info['smt_head'] = ('(assert (not %s))' % claim.sexpr())[:400] if timeout_ms else None
    if r == z3.unknown:
        smt2 = s.to_smt2()
        for ext in ('cvc5', 'z3-4.8'):
            t1 = time.time()
            ans = _external(smt2, ext, max(10, timeout_ms // 1000))
            ob.secs += time.time() - t1
            if ans == 'unsat':
                r = z3.unsat
                ob.solver = 'cvc5-1.0.3' if ext == 'cvc5' else 'z3-4.8.12'
                break
            if ans == 'sat':
                # model needed for replay: retry z3 API with more time and a different seed
                s2 = z3.Solver()
                s2.set('timeout', timeout_ms * 3)
                s2.set('random_seed', 7)
                for p in ob.pc:
                    s2.add(p)
                s2.add(neg)
                if s2.check() == z3.sat:
                    r, s = z3.sat, s2
                break
    if r == z3.unsat:
        ob.status = 'discharged'
        return
    if r == z3.unknown:
        ob.status = 'unknown'
        ob.info['cex'] = {'note': 'solver returned unknown on all back ends'}
        return
    # sat: counterexample candidate -> concretise and replay on the real code
    model = s.model()
    if ctx.len_terms:
        # prefer a counterexample with short sequences / lists (readability only)
        for bound in (2, 5, 16):
            s.push()
            try:
                for lt in ctx.len_terms.values():
                    s.add(lt <= bound)
                s.set('timeout', 3000)
                if s.check() == z3.sat:
                    model = s.model()
                    s.pop()
                    break
            except z3.Z3Exception:
                pass
            s.pop()
    cex = {'obligation': ob.name}
    try:
        conc = {k: concretize_value(model, v) for k, v in ctx.param_env.items()}
        cex['input'] = {k: _jsonable(v) for k, v in conc.items()}
        if c.native_skip:
            # contract over abstract (ghost) state: its clauses cannot be evaluated on real objects, so nothing is replayed
            cex['confirmed'] = False
            cex['note'] = 'contract over abstract state (ghost fields): the counterexample is the solver\'s, not replayed natively'
        else:
            rep = replay_native(c, conc)
            cex.update(rep)
    except Exception as e:
        cex['replay_error'] = '%s: %s' % (type(e).__name__, e)
        cex['confirmed'] = False
    for k in ('result', 'specified', 'exception'):
        if k in ob.info:
            cex['symbolic_' + k] = ob.info[k]
    ob.info['cex'] = cex
    # known finding? the property clause failed; does  claim OR pin  hold on this path
    for pid, pt in (ob.info.get('pins') or {}).items():
        if isinstance(pt, bool):
            if not pt:
                continue
            ob.status = 'known:' + pid
            return
        r2, _, secs2 = _solve(ob.pc, z3.Not(z3.Or(claim, pt)), timeout_ms)
        ob.secs += secs2
        if r2 == z3.unsat:
            # "property clause OR pinned deviation" is proved on this path.  The deviation is a *known finding* only
            # if the property clause is genuinely violated: either this path's counterexample replays natively, or the
            # witness listed in known_findings.txt still violates the contract on the real code.
            if cex.get('confirmed') or _witness_fails(c, pid, witnesses):
                ob.status = 'known:' + pid
                return
    if not cex.get('confirmed') and (ctx.ufs or getattr(ctx, 'float_roundings', 0)):
        ob.status = 'abstract-cex'      # counterexample depends on an uninterpreted function: decide transparently
        return
    ob.status = 'failed'


_witness_cache = {}


def _witness_fails(c, pid, witnesses):
    w = (witnesses or {}).get(pid)
    if w is None:
        return False
    key = (c.key, pid)
    if key not in _witness_cache:
        try:
            rep = replay_native(c, from_jsonable(json.loads(w) if isinstance(w, str) else w))
            _witness_cache[key] = bool(rep.get('confirmed'))
        except Exception:
            _witness_cache[key] = False
    return _witness_cache[key]


def _jsonable(v):
    if isinstance(v, bytes):
        return {'bytes': v.hex()}
    if isinstance(v, (list, tuple)):
        return [_jsonable(x) for x in v]
    if isinstance(v, dict):
        return {str(k): _jsonable(x) for k, x in v.items()}
    if isinstance(v, RecValue):
        return {'object': v.cls.__name__, 'fields': _jsonable(v.fields)}
    if isinstance(v, (int, str, bool, float, type(None))):
        return v
    if hasattr(v, 'signatures') and hasattr(v, 'keys') and hasattr(v, 'sigs_required'):
        return {'object': type(v).__name__, 'fields': {'keys': [getattr(k, 'public_hex', repr(k)) for k in v.keys],
                                                      'signatures': [s.hex() if hasattr(s, 'hex') else repr(s) for s in v.signatures],
                                                      'sigs_required': v.sigs_required, 'script_type': getattr(v, 'script_type', None)}}
    if hasattr(v, 'secret') and hasattr(v, 'public_hex'):
        return {'object': type(v).__name__, 'fields': {'secret': v.secret, 'public_hex': v.public_hex}}
    return repr(v)


def from_jsonable(v):
    if isinstance(v, dict) and set(v) == {'bytes'}:
        return bytes.fromhex(v['bytes'])
    if isinstance(v, list):
        return [from_jsonable(x) for x in v]
    if isinstance(v, dict) and 'object' in v and 'fields' in v:
        return RecValue(type(str(v['object']), (), {}), {k: from_jsonable(x) for k, x in v['fields'].items()})
    if isinstance(v, dict):
        return {k: from_jsonable(x) for k, x in v.items()}
    return v


# ---------------------------------------------------------------------------------------------------
# native replay of a counterexample on the real function

def _star_call(f, kwargs):
    """(args, kwargs) for calling f when the contract names a *args parameter"""
    sig = inspect.signature(f)
    varpos = [p.name for p in sig.parameters.values() if p.kind == p.VAR_POSITIONAL]
    if not varpos or varpos[0] not in kwargs:
        return [], kwargs
    kwargs = dict(kwargs)
    star = list(kwargs.pop(varpos[0]))
    pos = []
    for p in sig.parameters.values():
        if p.kind in (p.POSITIONAL_ONLY, p.POSITIONAL_OR_KEYWORD) and p.name in kwargs:
            pos.append(kwargs.pop(p.name))
        elif p.kind == p.VAR_POSITIONAL:
            break
    return pos + star, kwargs


def replay_native(c, conc, warmup=None, rng=None):
    """Run the real function on concrete inputs and evaluate the contract natively.
    Returns dict(confirmed=bool, observed=..., expected=...).
    `warmup`: another argument assignment; the function is first called once on the SAME receiver object with those
    arguments (result ignored), so that state left behind by an earlier call (caches) is part of what is checked."""
    f, owner, kind = c.function()
    rep = {}
    env = dict(conc)
    prepared = False
    if c.init is not None and any(isinstance(v, RecValue) for v in env.values()) and not c.init_after_prepare:
        try:
            native_by_name(c.init, env)       # derived fields of record parameters (same text as in the symbolic run)
        except Exception as e:
            rep['init_error'] = repr(e)
    if warmup is not None and 'self' in env and c.build is None:
        try:
            if c.prepare is not None:
                env.update(native_by_name(c.prepare, env))
                prepared = True
            w = dict(warmup)
            w['self'] = env['self']
            sigw = inspect.signature(f)
            kw = {k: v for k, v in w.items() if k in sigw.parameters}
            if c.call is not None:
                kw.update(native_by_name(c.call, w))
            kw.update(c.kwargs)
            try:
                wa, wk = _star_call(f, kw)
                f(*wa, **wk)
            except Exception:
                pass
            if c.perturb is not None and rng is not None:
                try:
                    rep['perturbed'] = _short(c.perturb(env, rng))
                except Exception as e:
                    rep['perturb_error'] = repr(e)
            rep['warmup'] = _short({k: _jsonable(v) for k, v in warmup.items() if k != 'self'})
        except Exception as e:
            rep['warmup_error'] = repr(e)
    if c.prepare is not None and not prepared:
        try:
            env.update(native_by_name(c.prepare, env))
        except Exception as e:
            rep['confirmed'] = False
            rep['note'] = 'concretised input cannot be turned into real objects: %r' % (e,)
            return rep
    if c.init is not None and c.init_after_prepare:
        try:
            native_by_name(c.init, env)       # history prefix on the real object (e.g. an earlier method call)
        except Exception as e:
            rep['init_error'] = repr(e)
    if c.requires is not None:
        try:
            ok = bool(native_by_name(c.requires, env))
        except Exception as e:
            ok = False
            rep['requires_error'] = repr(e)
        if not ok:
            rep['confirmed'] = False
            rep['note'] = 'concretised input does not satisfy requires (abstraction artefact)'
            return rep
    olds = {'old_' + k: copy.deepcopy(v) for k, v in env.items()}
    if c.build is not None:
        fn, args, kwargs = native_by_name(c.build, env)
    else:
        sig = inspect.signature(f)
        kwargs = {k: v for k, v in env.items() if k in sig.parameters}
        if c.call is not None:
            kwargs.update(native_by_name(c.call, env))
        kwargs.update(c.kwargs)
        fn, args = f, []
        args, kwargs = _star_call(f, kwargs)
    exc = None
    result = None
    try:
        result = fn(*args, **kwargs)
    except Exception as e:
        exc = e
    penv = dict(env)
    penv.update(olds)
    penv['call_args'] = kwargs
    penv['locals'] = None
    penv['ghost'] = None
    if exc is not None:
        rep['observed'] = 'raises %s: %s' % (type(exc).__name__, exc)
        allowed = None
        for ecls, cfn in list(c.raises.items()) + list(c.raises_iff.items()):
            if isinstance(exc, ecls):
                allowed = cfn
                break
        if allowed is None:
            rep['confirmed'] = True
            rep['expected'] = 'no exception under the precondition'
            for pid, (ecls, pfn) in c.raise_pins.items():
                try:
                    if isinstance(exc, ecls) and (bool(native_by_name(pfn, penv)) if callable(pfn) else bool(pfn)):
                        rep['pin'] = pid
                        break
                except Exception:
                    pass
        else:
            ok = bool(native_by_name(allowed, penv)) if callable(allowed) else bool(allowed)
            rep['confirmed'] = not ok
            rep['expected'] = 'exception only under the contract condition'
        return rep
    penv['result'] = result
    rep['observed'] = _short(_jsonable(result))
    try:
        changed = {k: _jsonable(v) for k, v in env.items() if not isinstance(v, (int, bytes, str, bool, float, type(None))) and v != olds.get('old_' + k)}
        if changed:
            rep['state_after'] = _short(changed)
    except Exception:
        pass
    bad = False
    for ecls, cfn in c.raises_iff.items():
        if bool(native_by_name(cfn, {k: v for k, v in penv.items() if k != 'result'})):
            bad = True
            rep['expected'] = 'raises %s' % ecls.__name__
    if c.result_is is not None:
        try:
            specv = native_by_name(c.result_is, penv)
            rep['expected'] = _short(_jsonable(specv))
            if specv != result:
                bad = True
        except Exception as e:
            rep['expected'] = 'spec raised %r' % e
            bad = True
    if c.ensures is not None:
        try:
            if not bool(native_by_name(c.ensures, penv)):
                bad = True
                rep.setdefault('expected', 'ensures clause true')
        except Exception as e:
            bad = True
            rep['expected'] = 'ensures raised %r' % e
    rep['confirmed'] = bad
    if bad and c.pins:
        for pid, pfn in c.pins.items():
            try:
                if native_by_name(pfn, penv):
                    rep['pin'] = pid
                    break
            except Exception:
                continue
    return rep
