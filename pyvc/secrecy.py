"""C16 support: which attributes of a class may hold private key material (static label inference over the class source,
least fixpoint), and the check that a symbolic value contains no secret-labelled symbol outside a declassifier."""
import ast
import inspect
import z3

SEEDS = {'secret', 'private_hex', 'private_byte', 'private_key', 'key_private', 'master_private', 'password', 'passphrase', 'mnemonic', 'seed'}
DECLASSIFIERS = ('ec_mulG', 'ecdsa_sign', 'on_curve', 'decompress_y')


def class_attribute_labels(cls):
    """{attribute: True if some method may assign it a value derived from secret data}.  Intra-procedural taint over every
    method of the class hierarchy, iterated to a fixpoint; method calls on self propagate the taint of what the method returns."""
    methods = {}
    for k in cls.__mro__:
        if k is object:
            continue
        try:
            src = inspect.getsourcefile(k)
            tree = ast.parse(open(src).read())
        except (TypeError, OSError):
            continue
        for node in ast.walk(tree):
            if isinstance(node, ast.ClassDef) and node.name == k.__name__:
                for f in node.body:
                    if isinstance(f, ast.FunctionDef):
                        methods['%s.%s' % (k.__name__, f.name)] = f
    attrs = {}
    for f in methods.values():
        for n in ast.walk(f):
            if isinstance(n, ast.Attribute) and isinstance(n.ctx, ast.Store) and isinstance(n.value, ast.Name) and n.value.id in ('self', 'key', 'hdkey'):
                attrs.setdefault(n.attr, n.attr in SEEDS)
    for s in SEEDS:
        if s in attrs:
            attrs[s] = True
    ret_taint = {m: False for m in methods}

    def tainted(expr, local):
        for n in ast.walk(expr):
            if isinstance(n, ast.Name) and (n.id in local or n.id in SEEDS):
                return True
            if isinstance(n, ast.Attribute) and isinstance(n.value, ast.Name) and n.value.id in ('self', 'key', 'hdkey'):
                if attrs.get(n.attr) or n.attr in SEEDS:
                    return True
                if any(v for m, v in ret_taint.items() if m.endswith('.' + n.attr)):       # property / method returning secret data
                    return True
        return False

    changed = True
    while changed:
        changed = False
        for name, f in methods.items():
            local = set()
            # parameters that carry private material by name
            for a in f.args.args + f.args.kwonlyargs:
                if a.arg in SEEDS:
                    local.add(a.arg)
            for _ in range(3):
                for n in ast.walk(f):
                    if isinstance(n, (ast.Assign, ast.AugAssign, ast.AnnAssign)) and getattr(n, 'value', None) is not None:
                        if tainted(n.value, local):
                            targets = n.targets if isinstance(n, ast.Assign) else [n.target]
                            for t in targets:
                                for x in ast.walk(t):
                                    if isinstance(x, ast.Name) and x.id not in local:
                                        local.add(x.id)
                                    if isinstance(x, ast.Attribute) and isinstance(x.value, ast.Name) and x.value.id in ('self', 'key', 'hdkey'):
                                        if not attrs.get(x.attr):
                                            attrs[x.attr] = True
                                            changed = True
            for n in ast.walk(f):
                if isinstance(n, ast.Return) and n.value is not None and tainted(n.value, local) and not ret_taint[name]:
                    ret_taint[name] = True
                    changed = True
    return attrs


def secret_symbols_outside_declassifiers(terms):
    """names of constants starting with SECRET! that occur in the terms other than below a declassifier application"""
    found, seen = set(), set()
    stack = list(terms)
    while stack:
        e = stack.pop()
        i = e.get_id()
        if i in seen:
            continue
        seen.add(i)
        if z3.is_app(e):
            nm = e.decl().name()
            if e.num_args() == 0 and nm.startswith('SECRET!'):
                found.add(nm)
                continue
            if any(nm.startswith(d) for d in DECLASSIFIERS):
                continue
            stack.extend(e.children())
    return found
