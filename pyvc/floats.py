"""IEEE-754 binary64 model (DESIGN §2.6): doubles as exact rationals (z3 Real), each rounding step
introduces a fresh relative error bounded per binade.  Filled in for C17/C13."""
import z3
from fractions import Fraction
from .values import *
from .ctx import Unsupported
from . import ops


def binop(ip, op, a, b):
    raise Unsupported('float arithmetic %s' % op)


def div(ip, a, b):
    raise Unsupported('true division')


def to_int(ip, x):
    raise Unsupported('int(float)')


def from_int(ip, x):
    raise Unsupported('float(int)')


def round_(ip, args, kwargs):
    raise Unsupported('round')
