"""IEEE-754 binary64 model (DESIGN §2.6).  A double is its exact rational value (z3 Real).  Every operation that rounds
introduces a fresh real r for the result with the per-binade half-ulp bound

    2^e <= |x| < 2^(e+1)   =>   |r - x| <= 2^(e-53)          (round to nearest; ties irrelevant for a bound)

over the binades e in a fixed window; x == 0 gives r == 0.  Values outside the window (|x| >= 2^BIN_HI or 0 < |x| <
2^BIN_LO) make the operation unsupported on that path (checked).  Constants are exact: float literals are taken with
their exact binary value (Fraction(literal)), not with their decimal spelling.  This is a sound over-approximation of
round-to-nearest-even: `unsat` proves a claim for all doubles, `sat` is only a candidate (replayed natively)."""
from fractions import Fraction
import z3

from .values import *
from .ctx import Unsupported
from . import ops
from .ops import wrap_int, wrap_bool, int_term

BIN_LO, BIN_HI = -80, 90


def rv(fr):
    fr = Fraction(fr)
    return z3.RealVal(fr.numerator) / z3.RealVal(fr.denominator)


def as_real(v):
    """(term, exact Fraction or None) of a number"""
    if isinstance(v, SFloat):
        return v.t, None
    if isinstance(v, bool):
        return rv(int(v)), Fraction(int(v))
    if isinstance(v, (int, float)):
        return rv(Fraction(v)), Fraction(v)
    if isinstance(v, (SInt, SBool)):
        return z3.ToReal(int_term(v)), None
    raise Unsupported('float operand %r' % (v,))


def fl(ctx, x, what='fl'):
    """the double nearest to the real term x"""
    x = z3.simplify(x)
    if z3.is_rational_value(x):
        f = Fraction(x.numerator_as_long(), x.denominator_as_long())
        return rv(Fraction(float(f)))          # exact: CPython rounds correctly
    r = ctx.fresh_real(what)
    ax = z3.If(x < 0, -x, x)
    cases = [z3.And(x == 0, r == 0)]
    for e in range(BIN_LO, BIN_HI):
        lo, hi = rv(Fraction(2) ** e), rv(Fraction(2) ** (e + 1))
        half_ulp = rv(Fraction(2) ** (e - 53))
        cases.append(z3.And(ax >= lo, ax < hi, r - x <= half_ulp, x - r <= half_ulp))
    # outside the window: not modelled
    if ctx.check(z3.And(x != 0, z3.Or(ax >= rv(Fraction(2) ** BIN_HI), ax < rv(Fraction(2) ** BIN_LO)))) != z3.unsat:
        raise Unsupported('floating-point value outside the modelled binade window [2^%d, 2^%d)' % (BIN_LO, BIN_HI))
    ctx.fact(z3.Or(*cases))
    ctx.float_roundings = getattr(ctx, 'float_roundings', 0) + 1
    return r


def _is_pow2(fr):
    fr = Fraction(fr)
    n, d = fr.numerator, fr.denominator
    return (n & (n - 1) == 0 and d == 1) or (n == 1 and d & (d - 1) == 0)


def binop(ip, op, a, b):
    ctx = ip.ctx
    ta, ea = as_real(a)
    tb, eb = as_real(b)
    if op == 'Mult':
        for e, other in ((ea, tb), (eb, ta)):
            if e is not None and e != 0 and _is_pow2(abs(e)):
                return SFloat(z3.simplify(other * rv(e)))     # scaling by a power of two is exact (no overflow in the window)
        return SFloat(fl(ctx, ta * tb, 'fmul'))
    if op == 'Add':
        return SFloat(fl(ctx, ta + tb, 'fadd'))
    if op == 'Sub':
        return SFloat(fl(ctx, ta - tb, 'fsub'))
    if op == 'Div':
        if eb is not None:
            if eb == 0:
                ops.pyraise(ZeroDivisionError, 'float division by zero')
            return SFloat(fl(ctx, ta / tb, 'fdiv'))
        raise Unsupported('float division by a symbolic value')
    raise Unsupported('float operator %s' % op)


def div(ip, a, b):
    """int / int (true division)"""
    if isinstance(a, int) and isinstance(b, int):
        return a / b
    return binop(ip, 'Div', a, b)


def from_int(ip, x):
    return SFloat(fl(ip.ctx, z3.ToReal(int_term(x)), 'fint'))


def from_decimal(ip, num, k):
    """float('<num>e-<k>') for a symbolic integer numerator: the correctly rounded double of num / 10^k"""
    return SFloat(fl(ip.ctx, z3.ToReal(int_term(num)) / rv(10 ** k), 'fstr'))


def to_int(ip, x):
    """int(x) for a double: truncation toward zero (exact on the real value the double denotes)"""
    ctx = ip.ctx
    t, exact = as_real(x)
    if exact is not None:
        return int(exact)
    r = ctx.fresh_int('trunc')
    rr = z3.ToReal(r)
    ctx.fact(z3.If(t >= 0, z3.And(rr <= t, t < rr + 1), z3.And(rr - 1 < t, t <= rr)))
    return SInt(r)


def round_(ip, args, kwargs):
    """round(x) with no digits: nearest integer, ties to even"""
    ctx = ip.ctx
    x = args[0]
    if len(args) > 1 and args[1] is not None:
        if not isinstance(x, Sym):
            return round(*args)
        raise Unsupported('round(x, ndigits) on a symbolic float')
    if isinstance(x, (SInt, int)) and not isinstance(x, Sym):
        return round(x)
    if isinstance(x, SInt):
        return x
    t, _ = as_real(x)
    r = ctx.fresh_int('round')
    rr = z3.ToReal(r)
    half = rv(Fraction(1, 2))
    ctx.fact(z3.Or(z3.And(rr - half < t, t < rr + half),
                   z3.And(z3.Or(t == rr + half, t == rr - half), r % 2 == 0)))
    return SInt(r)
