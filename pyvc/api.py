"""Contract language: sidecar contracts on real functions of /repo (DESIGN §3.1).

A contract is a class decorated with @contract('module.qualname').  Its `requires`, `ensures`,
`result_is`, `raises`, `pins`, invariants are ordinary Python functions: the verifier interprets
them symbolically to build verification conditions, and the replay harness calls them natively on
concrete counterexamples - one text, two uses.
"""
import importlib
import inspect
import z3

from .values import *
from . import ops

CONTRACTS = {}        # key -> Contract   (key = target or target[case])
LOOPS = {}


def resolve(target):
    """'bitcoinlib.scripts.Stack.op_add' -> (function object, owner class or None)"""
    parts = target.split('.')
    for i in range(len(parts) - 1, 0, -1):
        try:
            mod = importlib.import_module('.'.join(parts[:i]))
        except ImportError:
            continue
        obj = mod
        owner = None
        for p in parts[i:]:
            owner = obj if inspect.isclass(obj) else None
            raw = obj.__dict__.get(p) if inspect.isclass(obj) else None
            obj = getattr(obj, p)
        if isinstance(raw if owner else None, (staticmethod, classmethod)):
            kind = 'static' if isinstance(raw, staticmethod) else 'class'
            return raw.__func__, owner, kind
        if isinstance(obj, property):
            return obj.fget, owner, 'property'
        return obj, owner, 'plain'
    raise ImportError(target)


# ---------------------------------------------------------------------------------------------------
# parameter type descriptors

class T:
    def fresh(self, ctx, name):
        raise NotImplementedError

    def restrict(self, ctx, value):
        """narrow a fresh value to a small sub-space (refutation search only; never used for proofs)"""
        return None

    def from_prefix(self, ctx, rid, k):
        raise NotImplementedError


class _Int(T):
    def __init__(self, lo=None, hi=None):
        self.lo, self.hi = lo, hi

    def __call__(self, lo=None, hi=None):
        return _Int(lo, hi)

    def fresh(self, ctx, name):
        c = ctx.fresh_int(name)
        if self.lo is not None:
            ctx.assume(c >= self.lo)
        if self.hi is not None:
            ctx.assume(c <= self.hi)
        if self.lo is not None and self.hi is not None:
            ctx.var_bounds[str(c)] = (self.lo, self.hi)
        return SInt(c)

    def from_prefix(self, ctx, rid, k):
        """element of a symbolic-length list: an uninterpreted function of the position"""
        kt = z3.IntVal(k) if isinstance(k, int) else k
        t = z3.Function('elem_%s' % rid, z3.IntSort(), z3.IntSort())(kt)
        if ctx is not None:
            if self.lo is not None:
                ctx.fact(t >= self.lo)
            if self.hi is not None:
                ctx.fact(t <= self.hi)
        return SInt(t)


class _Bool(T):
    def fresh(self, ctx, name):
        return SBool(ctx.fresh_bool(name))

    def from_prefix(self, ctx, rid, k):
        kt = z3.IntVal(k) if isinstance(k, int) else k
        return SBool(z3.Function('elem_%s' % rid, z3.IntSort(), z3.BoolSort())(kt))


class _Bytes(T):
    """bytes of any length (symbolic), or of fixed length n (`Bytes(n)`), or bounded (`Bytes(max=n)`)."""

    def __init__(self, n=None, max=None, split=False, ne=None, min=None):
        self.n, self.max, self.split, self.ne, self.min = n, max, split, ne, min   # ne: a byte string the value differs from; min: least length (preconditions)

    def __call__(self, n=None, max=None, split=False, ne=None, min=None):
        return _Bytes(n, max, split, ne, min)

    def fresh(self, ctx, name):
        if self.split and self.max is not None:
            # one path per length 0..max: every byte is then an explicit item
            ln = ctx.fresh_int('len(%s)' % name)
            ctx.assume(z3.And(ln >= 0, ln <= self.max))
            k = ctx.concretize(ln, limit=self.max + 2, what='length of ' + name)
            items = []
            for i in range(k):
                c = ctx.fresh_int('%s[%d]' % (name, i))
                ctx.byte_fact(c)
                items.append(c)
            return SBytes(items=items) if items else b''
        if self.n is not None:
            items = []
            for i in range(self.n):
                c = ctx.fresh_int('%s[%d]' % (name, i))
                ctx.byte_fact(c)
                items.append(c)
            return SBytes(items=items)
        s = ctx.fresh_seq(name)
        if self.max is not None:
            ctx.assume(s.len <= self.max)
        return SBytes(seq=s)

    def restrict(self, ctx, value):
        if isinstance(value, SBytes) and value.items is None:
            ctx.assume(int_term_(value.length()) <= 2)

    def from_prefix(self, ctx, rid, k):
        kt = z3.IntVal(k) if isinstance(k, int) else k
        if self.n is not None:
            items = []
            for i in range(self.n):
                e = z3.Function('elem_%s[%d]' % (rid, i), z3.IntSort(), z3.IntSort())(kt)
                if ctx is not None:
                    ctx.byte_fact(e)
                items.append(e)
            return SBytes(items=items) if items else b''
        f = z3.Function('elem_%s' % rid, z3.IntSort(), IntSeq)
        fl = z3.Function('elemlen_%s' % rid, z3.IntSort(), z3.IntSort())
        t, n = f(kt), fl(kt)
        if ctx is not None:
            ctx.fact(n >= 0)
            if self.max is not None:
                ctx.fact(n <= self.max)
            if self.min is not None:
                ctx.fact(n >= self.min)
            ctx.couple(t, n)
            ctx.len_terms[n.get_id()] = n
            if self.ne is not None:
                ctx.fact(z3.Not(z3.And(n == len(self.ne), *[t[i] == b for i, b in enumerate(self.ne)])))
        return SBytes(seq=SeqPart(t, n))


class _Str(T):
    def __init__(self, n=None):
        self.n = n

    def __call__(self, n=None):
        return _Str(n)

    def fresh(self, ctx, name):
        if self.n is not None:
            return SStr(items=[ctx.fresh_int('%s[%d]' % (name, i)) for i in range(self.n)])
        return SStr(seq=ctx.fresh_seq(name))


class Secret(T):
    """wraps a type: the fresh symbols are labelled secret (name prefix SECRET!), see pyvc/secrecy.py"""

    def __init__(self, inner):
        self.inner = inner

    def fresh(self, ctx, name):
        return self.inner.fresh(ctx, 'SECRET!' + name)

    def restrict(self, ctx, value):
        return self.inner.restrict(ctx, value)


class ListOf(T):
    """list of symbolic length (lazy prefix representation); `cls` may be a list subclass."""

    def __init__(self, elem, cls=list):
        self.elem, self.cls = elem, cls

    def fresh(self, ctx, name):
        n = ctx.fresh_int('len_' + name)
        ctx.fact(n >= 0)
        ctx.len_terms[n.get_id()] = n
        return SList(name, n, [], self.elem, self.cls, 0)

    def restrict(self, ctx, value):
        ctx.assume(value.n <= 8)
        for k in range(1, 9):
            self.elem.restrict(ctx, self.elem.from_prefix(ctx, value.rid, value.taken + k))


class FixedList(T):
    def __init__(self, elem, n):
        self.elem, self.n = elem, n

    def fresh(self, ctx, name):
        return [self.elem.fresh(ctx, '%s[%d]' % (name, i)) for i in range(self.n)]

    def from_prefix(self, ctx, rid, k):
        """field of a list element: a fixed number of items, each an uninterpreted function of the element's position"""
        return [self.elem.from_prefix(ctx, '%s[%d]' % (rid, i), k) for i in range(self.n)]


class Const(T):
    def __init__(self, v):
        self.v = v

    def fresh(self, ctx, name):
        return self.v() if callable(self.v) and getattr(self.v, '_factory', False) else self.v

    def from_prefix(self, ctx, rid, k):
        return self.fresh(ctx, rid)


class Position(T):
    """record field of a list element that holds the element's own position in the list (representation invariant such as
    Input.index_n == position); only meaningful inside ListOf(RecordOf(...))"""

    def fresh(self, ctx, name):
        raise NotImplementedError('Position is only defined for elements of a symbolic-length list')

    def sample(self, rng):
        return 0          # filled in by the contract's `prepare` (the real constructor numbers the elements)

    def from_prefix_rec(self, ctx, base_rid, field, k):
        n0 = z3.Int('len_' + base_rid)
        kt = z3.IntVal(k) if isinstance(k, int) else k
        return SInt(z3.simplify(n0 - kt))


class RecordOf(T):
    """Object of real class `cls` with the given typed attributes (heap shape concrete)."""

    def __init__(self, cls, **fields):
        self.cls, self.fields = cls, fields

    def fresh(self, ctx, name):
        cls = self.cls if not isinstance(self.cls, str) else resolve(self.cls)[0]
        r = Rec(cls)
        for k, t in self.fields.items():
            r.attrs[k] = t.fresh(ctx, '%s.%s' % (name, k)) if isinstance(t, T) else t
        return r

    def from_prefix(self, ctx, rid, k):
        """element k (counted from the right end) of the symbolic-length list `rid`: every field is an uninterpreted function of the position"""
        cls = self.cls if not isinstance(self.cls, str) else resolve(self.cls)[0]
        r = Rec(cls)
        r.__dict__['list_element'] = True        # a view of element k: assignments to its fields would be lost (refused by the interpreter)
        for name, t in self.fields.items():
            if not isinstance(t, T):
                r.attrs[name] = t
            elif hasattr(t, 'from_prefix_rec'):
                r.attrs[name] = t.from_prefix_rec(ctx, rid, name, k)
            else:
                r.attrs[name] = t.from_prefix(ctx, '%s.%s' % (rid, name), k)
        return r

    def restrict(self, ctx, value):
        return None


class OpaqueT(T):
    def __init__(self, pytype=object):
        self.pytype = pytype

    def fresh(self, ctx, name):
        return Opaque(name, self.pytype)


def int_term_(v):
    return ops.int_term(v)


Int = _Int()
Bool = _Bool()
Bytes = _Bytes()
Str = _Str()


# ---------------------------------------------------------------------------------------------------

class Contract:
    def __init__(self, target, spec_cls, case=None, props=()):
        self.target = target
        self.case = case
        self.key = target if case is None else '%s[%s]' % (target, case)
        self.props = tuple(props)
        d = spec_cls.__dict__
        self.params = d.get('params', {})
        self.requires = _fn(d.get('requires'))
        self.ensures = _fn(d.get('ensures'))
        self.result_is = _fn(d.get('result_is'))
        self.effective = _fn(d.get('effective'))     # behaviour used at call sites when the contract has open findings (spec result or pinned deviation)
        self.raises = d.get('raises', {})            # exc class -> condition fn (must hold when raised)
        self.raises_iff = d.get('raises_iff', {})    # exc class -> condition fn (raised exactly when)
        self.pins = {k: _fn(v) for k, v in d.get('pins', {}).items()}
        self.raise_pins = d.get('raise_pins', {})    # finding id -> (exception class, condition fn): a pinned, listed deviation that raises
        self.init = _fn(d.get('init'))               # symbolic only: establishes derived fields of record parameters (representation invariant)
        self.init_after_prepare = d.get('init_after_prepare', False)   # native replay: run init on the real objects (history prefix)
        self.call = _fn(d.get('call'))               # params -> dict of keyword arguments of the target
        self.build = _fn(d.get('build'))
        self.perturb = _fn(d.get('perturb'))         # native: (params..., rng) in-place change of the receiver between an earlier call and the checked one
        self.sample = _fn(d.get('sample'))
        self.fuzz_divisor = d.get('fuzz_divisor', 1)  # native evaluation that is slow by nature (scrypt): fewer evaluations per run
        self.prepare = _fn(d.get('prepare'))         # native: concrete params -> dict of params replaced by real objects           # native: rng -> dict of concrete params (optional)             # native: concrete params -> (callable, args, kwargs)
        self.observe = _fn(d.get('observe'))         # native: extracts comparable state after call
        self.modifies = d.get('modifies', ())
        self.returns = d.get('returns')              # T for the result when applied at call sites
        self.assumed = d.get('assumed', False)       # contract is not verified (external / out of reach)
        self.use_opaque = d.get('use_opaque', True)   # False: @opaque specification functions are interpreted transparently for this contract
        self.bounds = d.get('bounds', {})
        self.no_history = d.get('no_history', False)   # native evaluation: no earlier call on the same receiver (the receiver's shape is part of the parameter type)
        self.local_models = d.get('local_models')      # callable(reg): assumed models switched on for THIS contract only (listed as assumptions)
        self.native_skip = d.get('native_skip', False)   # no native evaluation (objects cannot be rebuilt natively)
        self.native_only = d.get('native_only', False)   # no VCs: only native contract evaluation (bounded stand-in)
        self.bounded = d.get('bounded')              # text: the contract only covers a stated bounded shape (stand-in, not a proof)
        self.doc = (spec_cls.__doc__ or '').strip()
        self.ghost = d.get('ghost', {})
        self.trusted_note = d.get('trusted_note')
        self.kwargs = d.get('kwargs', {})            # fixed concrete keyword arguments for the call
        self.inline = d.get('inline', ())
        self.src_file = inspect.getsourcefile(spec_cls)

    def function(self):
        return resolve(self.target)

    def apply(self, ip, f, args, kwargs):
        """Use this contract at a call site (modular reasoning): assert requires, return the specified result."""
        from .verify import apply_contract
        return apply_contract(self, ip, f, args, kwargs)


def _fn(x):
    if isinstance(x, staticmethod):
        return x.__func__
    return x


def contract(target, case=None, props=()):
    def deco(cls):
        c = Contract(target, cls, case, props)
        CONTRACTS[c.key] = c
        cls._contract = c
        return cls
    return deco


class LoopContract:
    def __init__(self, target, ordinal, invariant, variant=None, modifies=(), havoc_types=None, ghost=None, ghost_step=None, index='k', defines=None):
        self.index = index
        self.defines = defines or {}
        self.ghost_step = ghost_step
        self.target, self.ordinal = target, ordinal
        self.invariant, self.variant = invariant, variant
        self.modifies = tuple(modifies)
        self.havoc_types = havoc_types or {}
        self.ghost = ghost or {}


def loop(target, ordinal, modifies=(), havoc_types=None, variant=None, ghost=None, ghost_step=None, index='k', defines=None):
    """@loop('module.func', 0) def inv(locals...) -> bool      (loop ordinal: source order of while/for in the function).
    For a `for x in <symbolic-length list>` loop the invariant may name the ghost variable `index` (default k): the number of
    elements processed so far."""
    def deco(fn):
        LOOPS[(target, ordinal)] = LoopContract(target, ordinal, fn, variant, modifies, havoc_types, ghost, ghost_step, index, defines)
        return fn
    return deco


def fold(step, init, lst, upto, key=None):
    """step(step(...step(init, lst[0], 0)..., lst[upto-2], upto-2), lst[upto-1], upto-1): the left fold of the first `upto` elements.
    Natively a plain loop.  Under the verifier, for a symbolic-length list, an uninterpreted function of `upto` together with its
    defining equations instantiated at `upto` (one unfolding), which is what an inductive loop invariant needs.
    `key` names the fold (two folds with the same key over the same list are the same function: the key must determine `step`)."""
    acc = init
    for j in range(upto):
        acc = step(acc, lst[j], j)
    return acc


def store(arr, i, v):
    """functional update of a ghost map (natively a dict)"""
    d = dict(arr)
    d[i] = v
    return d


def empty_map():
    return {}


def forall(lo, hi, pred):
    """for all integers j with lo <= j < hi: pred(j).  Natively a finite conjunction; under the verifier a quantified formula."""
    return all(pred(j) for j in range(lo, hi))


class ArrayT(T):
    """ghost map Int -> Int (a witness function supplied as a hypothesis)"""

    def fresh(self, ctx, name):
        from .loops import SArray
        return SArray(z3.Array(ctx.fresh_name(name), z3.IntSort(), z3.IntSort()))


class SUnion(Sym):
    """list element of one of several types, not yet decided (only produced for model concretisation)"""
    pytype = object

    def __init__(self, tag, alts):
        self.tag, self.alts = tag, alts


class OneOfElem(T):
    """element of a symbolic-length list that is a value of one of several types (e.g. script commands: opcode int or data bytes).
    Which one is an uninterpreted function of the position; materialising an element forks on it (or, inside an invariant /
    fold unfolding, takes the alternative the path has already decided)."""

    def __init__(self, alts):
        self.alts = list(alts)

    def fresh(self, ctx, name):
        i = ctx.choose([('alt%d' % j, None) for j in range(len(self.alts))])
        return self.alts[i].fresh(ctx, name)

    def from_prefix(self, ctx, rid, k):
        kt = z3.IntVal(k) if isinstance(k, int) else k
        tag = z3.Function('elemtag_%s' % rid, z3.IntSort(), z3.IntSort())(kt)
        if ctx is None:
            return SUnion(tag, [a.from_prefix(None, '%s|%d' % (rid, j), k) for j, a in enumerate(self.alts)])
        ctx.fact(z3.And(tag >= 0, tag < len(self.alts)))
        if ctx.no_fork:
            for j in range(len(self.alts)):
                if ctx.check(tag != j) == z3.unsat:
                    return self.alts[j].from_prefix(ctx, '%s|%d' % (rid, j), k)
            from .ctx import Unsupported
            raise Unsupported('kind of list element %s[%s] is not decided on this path' % (rid, kt))
        j = ctx.choose([('alt%d' % i, tag == i) for i in range(len(self.alts))])
        return self.alts[j].from_prefix(ctx, '%s|%d' % (rid, j), k)

    def sample(self, rng):
        from .fuzz import sample as _s
        return _s(rng.choice(self.alts), rng)

    def restrict(self, ctx, value):
        return None


class OpaqueElem(T):
    """list element about which only its position in the list is known (keys, signatures as abstract objects)"""

    def __init__(self, tag):
        self.tag = tag

    def fresh(self, ctx, name):
        return OpaqueRef(self.tag, name, ctx.fresh_int(name + '.pos'))

    def from_prefix(self, ctx, rid, k):
        n0 = z3.Int('len_' + rid)
        kt = z3.IntVal(k) if isinstance(k, int) else k
        return OpaqueRef(self.tag, rid, z3.simplify(n0 - kt))

    def restrict(self, ctx, value):
        return None


class OpaqueRef(Sym):
    """element number `pos` (from the front) of the abstract list `rid`"""
    pytype = object

    def __init__(self, tag, rid, pos):
        self.tag, self.rid, self.pos = tag, rid, pos

    def __repr__(self):
        return '%s[%s]' % (self.rid, self.pos)


def implies(a, b):
    return (not a) or b


def spec(fn):
    """marks a pure specification function (interpreted symbolically, executable natively)"""
    return fn


_CURRENT = [None]


def current_ctx():
    """the path context of the running symbolic execution (None when contract code runs natively)"""
    return _CURRENT[0]


OPAQUE = {}
INSTALLERS = []       # functions(reg) registered by contract modules (assumed constructor / callee models)


def opaque(result='int', outlen=None, facts=None, max_len=9):
    """Marks a specification function as *abstract at call sites with symbolic-length arguments*: the call becomes an
    application of an uninterpreted function of the same name, plus the stated `facts(args..., r)` (a list of Boolean
    expressions).  With concrete-length arguments the body is interpreted as usual.  The facts are themselves proof
    obligations (lemma contract `<module>.<name>#facts`, verified on every byte-string length up to `max_len`, beyond
    which every fact must be vacuous)."""
    def deco(fn):
        fn._pyvc_opaque = {'result': result, 'outlen': outlen, 'facts': facts, 'max_len': max_len}
        OPAQUE['%s.%s' % (fn.__module__, fn.__qualname__)] = fn
        return fn
    return deco
