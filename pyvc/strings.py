"""String models.  Strings are concrete in most analysed code; the symbolic cases supported are
hex views of byte strings (`b.hex()`, `bytes.fromhex`) and per-character items."""
import z3
from .values import *
from .ctx import PyRaise, Unsupported
from . import ops
from .ops import wrap_int, wrap_bool, int_term, pyraise

HEXD = '0123456789abcdef'


def hex_of(ip, b):
    """b.hex(): two characters per byte; each a code point term."""
    sb = ops.to_items(ip.ctx, ops.as_sseq(b), limit=600)
    items = []
    for e in sb.items:
        if isinstance(e, int):
            items += [ord(HEXD[e >> 4]), ord(HEXD[e & 15])]
        else:
            hi, lo = e / 16, e % 16
            items += [z3.simplify(z3.If(hi < 10, hi + 48, hi + 87)), z3.simplify(z3.If(lo < 10, lo + 48, lo + 87))]
    r = ops._mk_like('', items=items)
    if isinstance(r, SStr):
        r.hex_src = sb          # the bytes this lower-case hex string denotes (canonical argument for uninterpreted functions)
    return r


def _hexval(ctx, c):
    """value of a hex digit code point term (forks on validity)."""
    if isinstance(c, int):
        ch = chr(c)
        if ch not in '0123456789abcdefABCDEF':
            pyraise(ValueError, 'non-hexadecimal number found in fromhex()')
        return int(ch, 16)
    valid = z3.Or(z3.And(c >= 48, c <= 57), z3.And(c >= 97, c <= 102), z3.And(c >= 65, c <= 70))
    if not ctx.branch(valid):
        pyraise(ValueError, 'non-hexadecimal number found in fromhex()')
    return z3.If(c <= 57, c - 48, z3.If(c >= 97, c - 87, c - 55))


def fromhex(ip, args, kwargs):
    s = args[0]
    if isinstance(s, (bytes, SBytes, int, SInt)) or s is None:
        pyraise(TypeError, 'fromhex() argument must be str')
    if isinstance(s, str):
        try:
            return bytes.fromhex(s)
        except Exception as e:
            raise PyRaise(e, implicit=True)
    if getattr(s, 'hex_src', None) is not None:
        hs = s.hex_src
        return ops._mk_like(b'', parts=hs.parts)      # fromhex(b.hex()) == b
    ss = ops.to_items(ip.ctx, ops.as_sseq(s), limit=1200)
    if len(ss.items) % 2:
        pyraise(ValueError, 'non-hexadecimal number found in fromhex()')
    items = []
    for i in range(0, len(ss.items), 2):
        h, l = _hexval(ip.ctx, ss.items[i]), _hexval(ip.ctx, ss.items[i + 1])
        v = z3.simplify((z3.IntVal(h) if isinstance(h, int) else h) * 16 + (z3.IntVal(l) if isinstance(l, int) else l))
        items.append(v.as_long() if z3.is_int_value(v) else v)
    return ops._mk_like(b'', items=items)


def parse_int(ip, s, base=10):
    ss = ops.to_items(ip.ctx, ops.as_sseq(s), limit=200)
    if isinstance(ss, SBytes):
        raise Unsupported('int(bytes)')
    if base == 16:
        r = z3.IntVal(0)
        if not ss.items:
            pyraise(ValueError, 'invalid literal for int()')
        for c in ss.items:
            v = _hexval(ip.ctx, c)
            r = r * 16 + (z3.IntVal(v) if isinstance(v, int) else v)
        return wrap_int(r)
    if base == 10:
        r = z3.IntVal(0)
        if not ss.items:
            pyraise(ValueError, 'invalid literal for int()')
        for c in ss.items:
            if isinstance(c, int):
                if not 48 <= c <= 57:
                    raise Unsupported('int() of non-digit concrete char in symbolic string')
                r = r * 10 + (c - 48)
            else:
                if not ip.ctx.branch(z3.And(c >= 48, c <= 57)):
                    raise Unsupported('int() of symbolic non-digit (sign/space/underscore not modelled)')
                r = r * 10 + (c - 48)
        return wrap_int(r)
    raise Unsupported('int(str, base=%r)' % (base,))


def str_of_int(ip, v):
    raise Unsupported('str(symbolic int)')


def encode(ip, s, encoding='utf-8', errors='strict'):
    if isinstance(s, str):
        return s.encode(encoding)
    ss = ops.as_sseq(s)
    if ss.items is None:
        # text of symbolic length: its UTF-8 encoding is an uninterpreted function of the text
        from . import models
        import z3 as _z3
        f = _z3.Function('utf8', IntSeq, IntSeq)
        fl = _z3.Function('utf8.len', IntSeq, _z3.IntSort())
        t = ss.seq_term()
        ip.ctx.fact(fl(t) >= 0)
        ip.ctx.ufs.add('utf8')
        return SBytes(seq=SeqPart(f(t), fl(t)))
    for c in ss.items:
        if not isinstance(c, int) and not ip.ctx.branch(c < 128):
            raise Unsupported('encode of non-ASCII symbolic character')
    return ops._mk_like(b'', items=list(ss.items))


def str_method(ip, s, name, args, kwargs):
    ctx = ip.ctx
    if name == 'encode':
        return encode(ip, s, *args, **kwargs)
    if name in ('startswith', 'endswith'):
        from . import models
        p = args[0]
        if isinstance(p, tuple):
            ts = [ops.bool_term(str_method(ip, s, name, [q], {})) for q in p]
            return wrap_bool(z3.Or(*ts))
        pl = ops.seq_len(p)
        if not isinstance(pl, int):
            raise Unsupported('startswith symbolic-length prefix')
        part = ops.seq_slice(ctx, s, 0, pl, None) if name == 'startswith' else (ops.seq_slice(ctx, s, -pl, None, None) if pl else '')
        return wrap_bool(ops.values_eq(ctx, part, p))
    if name == 'join':
        r = ''
        first = True
        for x in ip.iterate(args[0]):
            if not first:
                r = ops.seq_concat(r, s)
            r = ops.seq_concat(r, x)
            first = False
        return r
    if name == 'lower' or name == 'upper':
        ss = ops.to_items(ctx, ops.as_sseq(s), limit=600)
        items = []
        for c in ss.items:
            if isinstance(c, int):
                items.append(ord(getattr(chr(c), name)()))
            elif name == 'lower':
                if not ctx.branch(c < 128):
                    raise Unsupported('lower() of non-ASCII symbolic char')
                items.append(z3.simplify(z3.If(z3.And(c >= 65, c <= 90), c + 32, c)))
            else:
                if not ctx.branch(c < 128):
                    raise Unsupported('upper() of non-ASCII symbolic char')
                items.append(z3.simplify(z3.If(z3.And(c >= 97, c <= 122), c - 32, c)))
        return ops._mk_like('', items=items)
    if name == 'zfill':
        n = ops.seq_len(s)
        w = args[0]
        if isinstance(n, int) and isinstance(w, int):
            ss = ops.as_sseq(s)
            return ops._mk_like('', items=[48] * max(0, w - n) + list(ss.items))
    raise Unsupported('str method %s on symbolic string' % name)


def install(reg):
    reg.models[bytes.fromhex] = fromhex
