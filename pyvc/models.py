"""Models of builtins and of methods of builtin types on symbolic values (DESIGN §2.3)."""
import builtins
import numbers
import z3

from .values import *
from .ctx import PyRaise, Unsupported, Infeasible
from . import ops
from .ops import wrap_int, wrap_bool, int_term, truth, truth_term, pyraise


class SDecStr(Sym):
    """str(n) for a symbolic int n: a decimal numeral string; int() of it gives n back"""
    pytype = str

    def __init__(self, t):
        self.t = t


class SHexNum(Sym):
    """hex(n) for a symbolic non-negative int n ('0x' + minimal digits), or the same without the prefix"""
    pytype = str

    def __init__(self, t, prefix):
        self.t, self.prefix = t, prefix


def hexnum_method(ip, h, name, args, kwargs):
    ctx = ip.ctx
    if name == 'zfill' and not h.prefix and isinstance(args[0], int) and args[0] % 2 == 0 and args[0] > 0:
        w = args[0]
        if not ctx.branch(h.t < z3.IntVal(16 ** w)):
            raise Unsupported('hex string longer than the zfill width')
        from . import strings
        return strings.hex_of(ip, int_to_bytes(ip, wrap_int(h.t), w // 2, 'big'))
    raise Unsupported('method %s on hex(<symbolic int>)' % name)


def m_hex(ip, args, kwargs):
    v = args[0]
    if isinstance(v, (SInt, SBool)):
        t = int_term(v)
        if not ip.ctx.branch(t >= 0):
            raise Unsupported('hex() of a negative symbolic int')
        return SHexNum(t, True)
    return hex(v)


class SymRange:
    def __init__(self, start, stop):
        self.start = start
        self.stop = stop


# ---------------------------------------------------------------------------------------------------
# binary operators / comparisons

def _is_int(v):
    return isinstance(v, (SInt, SBool)) or (isinstance(v, int))


def _is_float(v):
    return isinstance(v, (SFloat, float))


def binop(ip, op, a, b):
    ctx = ip.ctx
    if _is_int(a) and _is_int(b):
        if op == 'Div':
            from . import floats
            return floats.div(ip, a, b)
        return ops.int_binop(ctx, op, a, b)
    if (_is_float(a) or _is_float(b)) and (_is_int(a) or _is_float(a)) and (_is_int(b) or _is_float(b)):
        from . import floats
        return floats.binop(ip, op, a, b)
    if op == 'Add':
        if ops.seq_like(a) or isinstance(a, (str, SStr)):
            if not (ops.seq_like(b) or isinstance(b, (str, SStr))):
                pyraise(TypeError, 'cannot concatenate %s and %s' % (pytype_of(a).__name__, pytype_of(b).__name__))
            return ops.seq_concat(a, b)
        if isinstance(a, (list, tuple)) and isinstance(b, (list, tuple)):
            return a + b
        if isinstance(a, SList) or isinstance(b, SList):
            if isinstance(a, SList) and isinstance(b, list):
                return SList(a.rid, a.n, list(a.tail) + b, a.elem, a.cls, a.taken)
            if isinstance(b, SList) and isinstance(a, list) and not isinstance(b.n, int) and ctx.check(b.n != 0) == z3.unsat:
                return a + list(b.tail)      # the unknown prefix is empty on this path
            if isinstance(b, SList) and isinstance(b.n, int) and b.n == 0 and isinstance(a, list):
                return a + list(b.tail)
            if isinstance(b, SList) and isinstance(a, list):
                return a + ip.iterate(b)     # only possible when the length of b is bounded on this path
            raise Unsupported('concatenation with symbolic list on the right')
    if op == 'Mult':
        if (ops.seq_like(a) or isinstance(a, (str, SStr, list, tuple))) and _is_int(b):
            a, b = b, a
        if _is_int(a) and (ops.seq_like(b) or isinstance(b, (str, SStr, list, tuple))):
            n = ctx.concretize(int_term(a), limit=600, what='repeat count')
            if isinstance(b, (list, tuple)):
                return b * n
            r = b[:0] if not isinstance(b, Sym) else type(b)(items=[])
            for _ in range(max(n, 0)):
                r = ops.seq_concat(r, b)
            return r
    if op == 'Mod' and isinstance(a, str):
        import re
        specs = re.findall(r'%0(\d+)x', a)
        vals = list(b) if isinstance(b, tuple) else [b]
        if specs and re.fullmatch(r'(%0\d+x)+', a) and len(specs) == len(vals) and all(isinstance(v, (int, SInt)) for v in vals) \
                and all(int(w) % 2 == 0 for w in specs):
            # '%0Nx' of a non-negative integer below 16^N: exactly N lower-case hex digits
            from . import strings
            out = ''
            for w, v in zip(specs, vals):
                w = int(w)
                t = int_term(v)
                if not ctx.branch(z3.And(t >= 0, t < z3.IntVal(16 ** w))):
                    raise Unsupported('%%0%dx of a value outside [0, 16^%d)' % (w, w))
                out = ops.seq_concat(out, strings.hex_of(ip, int_to_bytes(ip, v, w // 2, 'big')))
            return out
        # other '%' formatting with symbolic operands (messages): the text is not modelled and must not be inspected
        return Opaque('formatted-string', str)
    if op == 'Mod' and isinstance(a, bytes):
        raise Unsupported('bytes % formatting with symbolic operands')
    for bm in ip.reg.sym_binops:
        try:
            return bm(ip, op, a, b)
        except Unsupported:
            continue
    raise Unsupported('binary %s on %s and %s' % (op, pytype_of(a).__name__, pytype_of(b).__name__))


def compare(ip, op, a, b):
    ctx = ip.ctx
    if op in ('Is', 'IsNot'):
        def plain_int(v):
            return isinstance(v, SInt) or (isinstance(v, int) and not isinstance(v, bool))
        if plain_int(a) and plain_int(b):
            # identity of int objects is implementation-defined: CPython shares the objects of -5..256 only; any other pair of
            # equal ints may or may not be the same object (over-approximated by an unconstrained boolean)
            ta, tb = ops.int_term(a), ops.int_term(b)
            same = ctx.fresh_bool('int_identity')
            r = wrap_bool(z3.And(ta == tb, z3.Or(z3.And(ta >= -5, ta <= 256), same)))
            if op == 'Is':
                return r
            return (not r) if isinstance(r, bool) else wrap_bool(z3.Not(r.t))
        if isinstance(a, (SInt, SBool, SBytes, SStr, SFloat)) or isinstance(b, (SInt, SBool, SBytes, SStr, SFloat)):
            if a is None or b is None:
                r = False
            elif isinstance(a, SBool) and isinstance(b, bool) or isinstance(b, SBool) and isinstance(a, bool):
                r = wrap_bool(ops.bool_term(a) == ops.bool_term(b))
            elif (isinstance(a, bool) and not isinstance(b, SBool)) or (isinstance(b, bool) and not isinstance(a, SBool)):
                r = False        # an int / bytes / str / float value is never the True / False singleton
            else:
                raise Unsupported('identity comparison on symbolic value')
        else:
            r = a is b
        if op == 'Is':
            return r
        return (not r) if isinstance(r, bool) else wrap_bool(z3.Not(r.t))
    if op in ('Eq', 'NotEq'):
        r = ops.values_eq(ctx, a, b)
        if op == 'NotEq':
            r = (not r) if isinstance(r, bool) else z3.Not(r)
        return wrap_bool(r)
    if op in ('In', 'NotIn'):
        r = contains(ip, b, a)
        if op == 'NotIn':
            r = (not r) if isinstance(r, bool) else wrap_bool(z3.Not(ops.bool_term(r)))
        return r
    # ordering
    if _is_int(a) and _is_int(b):
        return ops.int_compare(op, a, b)
    if (_is_int(a) or _is_float(a)) and (_is_int(b) or _is_float(b)):
        return ops.num_compare(op, a, b)
    if a is None or b is None:
        pyraise(TypeError, 'ordering comparison with None')
    if is_concrete(a) and is_concrete(b):
        import operator
        fn = {'Lt': operator.lt, 'LtE': operator.le, 'Gt': operator.gt, 'GtE': operator.ge}[op]
        try:
            return fn(a, b)
        except Exception as e:
            raise PyRaise(e, implicit=True)
    raise Unsupported('ordering %s on %s and %s' % (op, pytype_of(a).__name__, pytype_of(b).__name__))


def contains(ip, container, item):
    ctx = ip.ctx
    if isinstance(container, (list, tuple, set, frozenset)):
        if is_concrete(item) and is_concrete(container):
            return item in container
        disj = []
        for x in container:
            r = ops.values_eq(ctx, x, item)
            if r is True:
                return True
            if r is not False:
                disj.append(r)
        if not disj:
            return False
        return wrap_bool(z3.Or(*disj))
    if isinstance(container, dict):
        if isinstance(item, Sym):
            disj = [ops.values_eq(ctx, k, item) for k in container]
            disj = [d for d in disj if d is not False]
            if any(d is True for d in disj):
                return True
            return wrap_bool(z3.Or(*disj)) if disj else False
        return item in container
    if isinstance(container, (str, bytes)) and is_concrete(item):
        return item in container
    if isinstance(container, str) and isinstance(item, SStr) and item.items is not None and len(item.items) == 1:
        c = item.items[0]
        return wrap_bool(z3.Or(*[c == ord(x) for x in set(container)])) if container else False
    if isinstance(container, bytes) and isinstance(item, (SInt,)):
        return wrap_bool(z3.Or(*[item.t == x for x in set(container)])) if container else False
    if isinstance(container, SymRange):
        return wrap_bool(z3.And(int_term(container.start) <= int_term(item), int_term(item) < int_term(container.stop)))
    if isinstance(container, range) and isinstance(item, SInt) and container.step == 1:
        return wrap_bool(z3.And(item.t >= container.start, item.t < container.stop))
    raise Unsupported('membership test in %s' % pytype_of(container).__name__)


# ---------------------------------------------------------------------------------------------------
# subscripts

def getitem(ip, obj, idx):
    ctx = ip.ctx
    for k, fn in ip.reg.sym_getitem.items():
        if isinstance(obj, k):
            return fn(ip, obj, idx)
    if isinstance(obj, SHexNum):
        if isinstance(idx, slice) and idx.start == 2 and idx.stop is None and idx.step is None and obj.prefix:
            return SHexNum(obj.t, False)
        raise Unsupported('subscript on hex(<symbolic int>)')
    if isinstance(obj, SList):
        return slist_getitem(ip, obj, idx)
    if isinstance(obj, (SBytes, SStr)) or (isinstance(obj, (bytes, str)) and not is_concrete(idx)):
        if isinstance(idx, slice):
            return ops.seq_slice(ctx, obj, idx.start, idx.stop, idx.step)
        return ops.seq_index(ctx, obj, idx)
    if isinstance(obj, Rec):
        return ip.call(ip.getattr(obj, '__getitem__'), [idx])
    if isinstance(obj, (list, tuple)):
        if isinstance(idx, slice):
            if not is_concrete([idx.start, idx.stop, idx.step]):
                n = len(obj)
                lo = 0 if idx.start is None else ctx.concretize(ops._clamp(int_term(idx.start), z3.IntVal(n)), what='slice bound')
                hi = n if idx.stop is None else ctx.concretize(ops._clamp(int_term(idx.stop), z3.IntVal(n)), what='slice bound')
                if idx.step not in (None, 1):
                    raise Unsupported('slice step')
                return obj[lo:hi]
            return obj[idx]
        if isinstance(idx, (SInt, SBool)):
            n = len(obj)
            t = int_term(idx)
            if not ctx.branch(z3.And(t >= -n, t < n)):
                pyraise(IndexError, 'list index out of range')
            k = ctx.concretize(t, limit=300, what='list index')
            return obj[k]
    if isinstance(obj, dict):
        if isinstance(idx, Sym):
            raise Unsupported('dict lookup with symbolic key')
    if isinstance(obj, Sym):
        raise Unsupported('subscript on %r' % obj)
    try:
        return obj[idx]
    except Exception as e:
        raise PyRaise(e, implicit=True)


def setitem(ip, obj, idx, v):
    ctx = ip.ctx
    if isinstance(obj, SList):
        return slist_setitem(ip, obj, idx, v)
    if isinstance(obj, (list, dict)):
        if isinstance(idx, slice):
            if not is_concrete([idx.start, idx.stop, idx.step]):
                raise Unsupported('slice assignment with symbolic bounds')
            if isinstance(v, Sym):
                v = ip.iterate(v)
            obj[idx] = v
            return
        if isinstance(idx, Sym):
            if isinstance(obj, dict):
                raise Unsupported('dict store with symbolic key')
            n = len(obj)
            t = int_term(idx)
            if not ctx.branch(z3.And(t >= -n, t < n)):
                pyraise(IndexError, 'list assignment index out of range')
            idx = ctx.concretize(t, limit=300, what='list index')
        try:
            obj[idx] = v
        except Exception as e:
            raise PyRaise(e, implicit=True)
        return
    if isinstance(obj, Rec):
        return ip.call(ip.getattr(obj, '__setitem__'), [idx, v])
    raise Unsupported('item assignment on %s' % pytype_of(obj).__name__)


# ---------------------------------------------------------------------------------------------------
# symbolic-length lists

def _neg_offset(ctx, l, idx):
    """For index idx on list l: returns k >= 1 such that the element is the k-th from the end, when idx is a
    concrete negative int; otherwise None."""
    if isinstance(idx, int) and idx < 0:
        return -idx
    return None


def _from_end(ctx, l, b, default):
    """distance from the end of list l denoted by slice bound b (concrete int); None if it cannot be made concrete"""
    if b is None:
        return default
    if isinstance(b, int) and b < 0:
        return -b
    total = int_term(ops.slist_len(l))
    d = z3.simplify(total - int_term(b))
    if z3.is_int_value(d):
        return max(d.as_long(), 0)
    if ctx.check(d < 0) != z3.unsat or ctx.check(d > 64) != z3.unsat:
        return None
    return ctx.concretize(d, limit=66, what='slice bound distance from end')


def slist_getitem(ip, l, idx):
    ctx = ip.ctx
    if isinstance(idx, slice):
        if idx.step not in (None, 1):
            raise Unsupported('slice step on symbolic list')
        lo, hi = idx.start, idx.stop
        dhi = _from_end(ctx, l, hi, 0)
        if dhi is None:
            raise Unsupported('slice upper bound %r of symbolic list' % (hi,))
        if lo is None or (isinstance(lo, int) and lo == 0):
            if ops.slist_need(ctx, l, dhi):
                return SList(l.rid, l.n, list(l.tail[:len(l.tail) - dhi]), l.elem, l.cls if l.cls is list else list, l.taken)
            return []
        dlo = _from_end(ctx, l, lo, None)
        if dlo is None:
            raise Unsupported('slice lower bound %r of symbolic list' % (lo,))
        if ops.slist_need(ctx, l, dlo):
            n = len(l.tail)
            return list(l.tail[n - dlo:n - dhi]) if dhi <= dlo else []
        n = len(l.tail)        # shorter than dlo: everything is explicit now
        return list(l.tail[:max(n - dhi, 0)])
    k = _neg_offset(ctx, l, idx)
    if k is not None:
        if not ops.slist_need(ctx, l, k):
            pyraise(IndexError, 'list index out of range')
        return l.tail[len(l.tail) - k]
    if isinstance(idx, (SInt, SBool)) or isinstance(idx, int):
        t = int_term(idx)
        total = int_term(ops.slist_len(l))
        if ctx.branch(t < 0):
            kterm = -t
        else:
            kterm = total - t
        if not ctx.branch(z3.And(kterm >= 1, kterm <= total)):
            pyraise(IndexError, 'list index out of range')
        # element k-th from end: inside the explicit tail -> enumerate; else prefix element by UF
        if ctx.branch(kterm <= len(l.tail)):
            kk = ctx.concretize(kterm, limit=64, what='stack depth')
            return l.tail[len(l.tail) - kk]
        return l.elem.from_prefix(ctx, l.rid, z3.simplify(kterm - len(l.tail) + l.taken))
    raise Unsupported('index %r into symbolic list' % (idx,))


def slist_setitem(ip, l, idx, v):
    ctx = ip.ctx
    if isinstance(idx, slice):
        lo, hi = idx.start, idx.stop
        if idx.step not in (None, 1):
            raise Unsupported('slice step')
        vals = ip.iterate(v)
        if isinstance(lo, int) and lo < 0 and isinstance(hi, int) and hi < 0 and hi >= lo:
            # l[lo:hi] = vals with both negative.  Python clamps to the list length.
            k = -lo
            have = ops.slist_need(ctx, l, k)
            n = len(l.tail)
            if have:
                l.tail[n + lo:n + hi] = vals
            else:
                l.tail[lo:hi] = vals    # all elements explicit, prefix empty: native semantics
            return
        if lo is None and isinstance(hi, int) and hi == 0 or (isinstance(lo, int) and lo == 0 and hi == 0):
            raise Unsupported('insert at front of symbolic list')
        raise Unsupported('slice assignment %r on symbolic list' % (idx,))
    k = _neg_offset(ctx, l, idx)
    if k is not None:
        if not ops.slist_need(ctx, l, k):
            pyraise(IndexError, 'list assignment index out of range')
        l.tail[len(l.tail) - k] = v
        return
    raise Unsupported('store at index %r of symbolic list' % (idx,))


def slist_method(ip, l, name, args, kwargs):
    ctx = ip.ctx
    if name == 'append':
        l.tail.append(args[0])
        return None
    if name == 'extend':
        l.tail.extend(ip.iterate(args[0]))
        return None
    if name == 'pop':
        idx = args[0] if args else -1
        if isinstance(idx, (SInt, SBool)):
            # symbolic position: enumerate within a bound (DESIGN: ROLL is bounded)
            t = int_term(idx)
            total = int_term(ops.slist_len(l))
            if ctx.branch(t < 0):
                kterm = -t
            else:
                kterm = total - t
            if not ctx.branch(z3.And(kterm >= 1, kterm <= total)):
                pyraise(IndexError, 'pop index out of range')
            bound = ip.reg.bounds.get('slist_pop_depth', 6)
            if not ctx.branch(kterm <= bound):
                ctx.notes.append('bounded: pop(symbolic index) explored only for depth <= %d' % bound)
                raise BoundedCut('pop depth > %d' % bound)
            kk = ctx.concretize(kterm, limit=64, what='pop depth')
            ops.slist_need(ctx, l, kk)
            return l.tail.pop(len(l.tail) - kk)
        if isinstance(idx, int) and idx < 0:
            k = -idx
            if not ops.slist_need(ctx, l, k):
                pyraise(IndexError, 'pop index out of range' if len(l.tail) else 'pop from empty list')
            return l.tail.pop(len(l.tail) - k)
        raise Unsupported('pop(%r) on symbolic list' % (idx,))
    if name == '__len__':
        return ops.slist_len(l)
    if name == 'insert':
        idx = args[0]
        if isinstance(idx, int) and idx < 0:
            k = -idx
            if ops.slist_need(ctx, l, k):
                l.tail.insert(len(l.tail) - k, args[1])
            else:
                l.tail.insert(0, args[1])
            return None
        raise Unsupported('insert(%r) on symbolic list' % (idx,))
    if name == 'copy':
        return SList(l.rid, l.n, list(l.tail), l.elem, l.cls, l.taken)
    raise Unsupported('list method %s on symbolic list' % name)


class SymStream(Sym):
    """io.BytesIO over a buffer with symbolic content: (buffer, position)."""
    import io as _io
    pytype = _io.BytesIO

    def __init__(self, buf, pos=0):
        self.buf = buf
        self.pos = pos


def stream_method(ip, s, name, args, kwargs):
    ctx = ip.ctx
    if name == 'tell':
        return s.pos
    if name == 'seek':
        if len(args) > 1 and args[1] != 0:
            if args[1] == 1:
                s.pos = ops.int_binop(ctx, 'Add', s.pos, args[0])
                return s.pos
            raise Unsupported('seek whence=%r' % (args[1],))
        t = int_term(args[0])
        if ctx.branch(t < 0):
            pyraise(ValueError, 'negative seek value')
        s.pos = args[0]
        return s.pos
    if name == 'read':
        n = args[0] if args else None
        total = ops.seq_len(s.buf)
        if n is None or (isinstance(n, int) and n < 0):
            r = ops.seq_slice(ctx, s.buf, s.pos, None, None)
            s.pos = _imax(ctx, s.pos, total)
            return r
        end = ops.int_binop(ctx, 'Add', s.pos, n)
        r = ops.seq_slice(ctx, s.buf, s.pos, end, None)
        # new position: min(pos + n, len) but never before pos
        tp, te, tt = int_term(s.pos), int_term(end), int_term(total)
        s.pos = wrap_int(z3.If(tp >= tt, tp, z3.If(te > tt, tt, te)))
        return r
    if name == 'getvalue':
        return s.buf
    raise Unsupported('BytesIO.%s on symbolic stream' % name)


def _imax(ctx, a, b):
    ta, tb = int_term(a), int_term(b)
    return wrap_int(z3.If(ta > tb, ta, tb))


def m_bytesio(ip, args, kwargs):
    import io
    if is_concrete(args):
        return io.BytesIO(*args)
    return SymStream(args[0], 0)


class HashObj(Sym):
    """hashlib-style object over symbolic data; the digest is an uninterpreted function of the data"""
    DIGEST = {'sha256': 32, 'sha1': 20, 'ripemd160': 20, 'sha512': 64, 'md5': 16}
    pytype = object

    def __init__(self, name, data):
        self.name, self.data = name, data


def uf_args(args):
    """(name suffix, sorts, terms) for uninterpreted-function arguments.  A byte string of concrete length is passed as
    its individual bytes (plain integer arguments: congruence closure instead of sequence reasoning); a string of symbolic
    length as one Seq(Int) argument; ints as ints."""
    sorts, terms, sig = [], [], []
    for a in args:
        if isinstance(a, SDecStr):
            a = SInt(a.t)
        if isinstance(a, (bytes, SBytes, str, SStr)):
            sv = ops.as_sseq(a)
            if sv.items is not None:
                sig.append('b%d' % len(sv.items))
                for x in sv.items:
                    sorts.append(z3.IntSort())
                    terms.append(z3.IntVal(x) if isinstance(x, int) else x)
            elif len(sv.parts) == 1:
                sig.append('s')
                sorts.append(IntSeq)
                terms.append(sv.seq_term())
            else:
                # a concatenation: explicit bytes individually, chunks of symbolic length as separate sequence arguments
                # (componentwise equality implies equality of the concatenations; the converse is not needed for proofs)
                ps = []
                for part in sv.parts:
                    if isinstance(part, list):
                        ps.append('b%d' % len(part))
                        for x in part:
                            sorts.append(z3.IntSort())
                            terms.append(z3.IntVal(x) if isinstance(x, int) else x)
                    else:
                        ps.append('s')
                        sorts.append(IntSeq)
                        terms.append(part.term)
                sig.append('[' + ','.join(ps) + ']')
        elif isinstance(a, (int, SInt, SBool, z3.ArithRef)):
            sig.append('i')
            sorts.append(z3.IntSort())
            terms.append(int_term(a))
        else:
            raise Unsupported('argument %r of an uninterpreted function' % (a,))
    return '/'.join(sig), sorts, terms


def uf_bytes(ctx, name, args, outlen):
    """uninterpreted function returning `outlen` bytes (DESIGN §2.7)"""
    sig, sorts, terms = uf_args(args)
    ctx.ufs.add(name)
    if isinstance(outlen, int) and outlen <= 80:
        # fixed-size output: one integer-valued function per output byte (no sequence terms at all)
        items = []
        for i in range(outlen):
            e = z3.Function('%s<%s>[%d]' % (name, sig, i), *(sorts + [z3.IntSort()]))(*terms)
            ctx.byte_fact(e)
            items.append(e)
        return SBytes(items=items)
    f = z3.Function('%s<%s>' % (name, sig), *(sorts + [IntSeq]))
    app = f(*terms)
    ctx.couple(app, outlen)
    return SBytes(seq=SeqPart(app, outlen))


def hash_method(ip, h, name, args, kwargs):
    if name == 'digest':
        return uf_bytes(ip.ctx, h.name, [h.data], HashObj.DIGEST[h.name])
    if name == 'hexdigest':
        from . import strings
        return strings.hex_of(ip, hash_method(ip, h, 'digest', [], {}))
    if name == 'update':
        h.data = ops.seq_concat(h.data, args[0])
        return None
    raise Unsupported('hash object method %s' % name)


def _hash_model(name, native):
    def m(ip, args, kwargs):
        data = args[0] if args else kwargs.get('data', b'')
        if is_concrete(data):
            return native(*args, **kwargs)
        if not isinstance(data, (SBytes, bytes)):
            pyraise(TypeError, 'hash data must be bytes')
        return HashObj(name, data)
    return m


def m_hashlib_new(ip, args, kwargs):
    import hashlib
    if is_concrete(args) and is_concrete(kwargs):
        return ip.native(hashlib.new, args, kwargs)
    nm = args[0]
    if nm not in HashObj.DIGEST:
        raise Unsupported('hashlib.new(%r)' % (nm,))
    return HashObj(nm, args[1] if len(args) > 1 else kwargs.get('data', b''))


class BoundedCut(Exception):
    """Path dropped because it leaves a stated bound (never counted as proved)."""


# ---------------------------------------------------------------------------------------------------
# methods of builtin types

def call_method(ip, obj, name, args, kwargs):
    ctx = ip.ctx
    if isinstance(obj, SList):
        return slist_method(ip, obj, name, args, kwargs)
    if isinstance(obj, SymStream):
        return stream_method(ip, obj, name, args, kwargs)
    if isinstance(obj, SHexNum):
        return hexnum_method(ip, obj, name, args, kwargs)
    if isinstance(obj, HashObj):
        return hash_method(ip, obj, name, args, kwargs)
    for k, fn in ip.reg.sym_methods.items():
        if isinstance(obj, k):
            return fn(ip, obj, name, args, kwargs)
    if isinstance(obj, (SInt, SBool)) or (isinstance(obj, int) and not isinstance(obj, bool)):
        if name == 'to_bytes':
            return int_to_bytes(ip, obj, *args, **kwargs)
        if name == 'bit_length':
            return int_bit_length(ip, obj)
        raise Unsupported('int method %s' % name)
    if isinstance(obj, (SBytes, bytes, bytearray)):
        return bytes_method(ip, obj, name, args, kwargs)
    if isinstance(obj, (SStr, str)):
        from . import strings
        return strings.str_method(ip, obj, name, args, kwargs)
    if isinstance(obj, list):
        return list_method(ip, obj, name, args, kwargs)
    if isinstance(obj, tuple) and name == 'index' or name == 'count':
        return list_method(ip, list(obj), name, args, kwargs)
    if isinstance(obj, dict):
        if name in ('get', 'pop', 'setdefault', '__contains__', '__getitem__') and isinstance(args[0], Sym):
            raise Unsupported('dict.%s with symbolic key' % name)
        return ip.native(getattr(obj, name), args, kwargs)
    if isinstance(obj, SFloat):
        raise Unsupported('float method %s' % name)
    raise Unsupported('method %s on %s' % (name, pytype_of(obj).__name__))


def list_method(ip, lst, name, args, kwargs):
    ctx = ip.ctx
    if name == 'index':
        x = args[0]
        for i, e in enumerate(lst):
            r = ops.values_eq(ctx, e, x)
            if r is True or (r is not False and ctx.branch(r)):
                return i
        pyraise(ValueError, 'x not in list')
    if name == 'count':
        n = 0
        for e in lst:
            r = ops.values_eq(ctx, e, args[0])
            if r is True or (r is not False and ctx.branch(r)):
                n += 1
        return n
    if name == 'remove':
        i = list_method(ip, lst, 'index', args, kwargs)
        del lst[i]
        return None
    if name == '__contains__':
        return contains(ip, lst, args[0])
    if name == 'sort' or name == 'sorted':
        raise Unsupported('sort of list with symbolic elements (needs an assumed contract)')
    return ip.native(getattr(lst, name), args, kwargs)


def int_to_bytes(ip, x, length=1, byteorder='big', signed=False):
    ctx = ip.ctx
    if signed:
        raise Unsupported('to_bytes(signed=True)')
    if not isinstance(length, int):
        length = ctx.concretize(int_term(length), limit=600, what='to_bytes length')
    if length < 0:
        pyraise(ValueError, 'length argument must be non-negative')
    t = int_term(x)
    if isinstance(byteorder, Sym):
        raise Unsupported('symbolic byteorder')
    if byteorder not in ('big', 'little'):
        pyraise(ValueError, "byteorder must be either 'little' or 'big'")
    digits = bytesum_digits(ctx, t)
    if digits is not None:
        # t is syntactically sum(d_i * 256^i) of byte terms: its bytes are the d_i (uniqueness of base-256 digits)
        hi = [d for d in digits[length:] if not (isinstance(d, int) and d == 0)]
        if hi:
            nz = [(z3.IntVal(d) if isinstance(d, int) else d) != 0 for d in hi]
            if ctx.branch(z3.Or(*nz) if len(nz) > 1 else nz[0]):
                pyraise(OverflowError, 'int too big to convert')
        items = list(digits[:length]) + [0] * max(0, length - len(digits))
        if byteorder == 'big':
            items.reverse()
        return ops._mk_like(b'', items=items)
    if ctx.branch(t < 0):
        pyraise(OverflowError, "can't convert negative int to unsigned")
    if ctx.branch(t >= z3.IntVal(256 ** length)):
        pyraise(OverflowError, 'int too big to convert')
    items = []
    for i in range(length):
        e = z3.simplify((t / z3.IntVal(256 ** i)) % 256) if i else z3.simplify(t % 256)
        if length == 1:
            e = z3.simplify(t)
        if not z3.is_int_value(e):
            ctx.byte_origin[e.get_id()] = (t, i)
        items.append(e.as_long() if z3.is_int_value(e) else e)
    if byteorder == 'big':
        items.reverse()
    elif byteorder != 'little':
        pyraise(ValueError, "byteorder must be either 'little' or 'big'")
    return ops._mk_like(b'', items=items)


def int_bit_length(ip, x):
    """k = x.bit_length(): fresh k with  k == j  <=>  2^(j-1) <= |x| < 2^j  for j up to the stated bound"""
    ctx = ip.ctx
    if isinstance(x, int):
        return x.bit_length()
    t = int_term(x)
    a = z3.If(t < 0, -t, t)
    K = ip.reg.bounds.get('bit_length_max', 72)
    if ctx.check(a >= z3.IntVal(2 ** K)) != z3.unsat:
        raise Unsupported('bit_length of a value not bounded by 2^%d' % K)
    k = ctx.fresh_int('bitlen')
    conj = [z3.And(k >= 0, k <= K), (k == 0) == (a == 0)]
    for j in range(1, K + 1):
        conj.append((k == j) == z3.And(a >= z3.IntVal(2 ** (j - 1)), a < z3.IntVal(2 ** j)))
    ctx.fact(z3.And(*conj))
    return SInt(k)


def int_from_bytes(ip, args, kwargs):
    ctx = ip.ctx
    b = args[0]
    order = args[1] if len(args) > 1 else kwargs.get('byteorder', 'big')
    if kwargs.get('signed'):
        raise Unsupported('from_bytes(signed=True)')
    if isinstance(b, list):
        b = ops._mk_like(b'', items=[x if isinstance(x, int) else int_term(x) for x in b])
    if not ops.seq_like(b):
        pyraise(TypeError, 'cannot convert %s to bytes' % pytype_of(b).__name__)
    sb = ops.to_items(ctx, ops.as_sseq(b), limit=80)
    items = list(sb.items)
    if order == 'big':
        items.reverse()
    return wrap_int(recompose(ctx, items))


from .ops import is_byte_term, bytesum_digits, _pow256


def byte_origin(ctx, e):
    """(t, j) if the term e is syntactically byte j of integer t:  (t div 256^j) mod 256"""
    o = ctx.byte_origin.get(e.get_id())
    if o is not None:
        return o
    if z3.is_app_of(e, z3.Z3_OP_MOD) and z3.is_int_value(e.arg(1)) and e.arg(1).as_long() == 256:
        a = e.arg(0)
        if z3.is_app_of(a, z3.Z3_OP_IDIV) and z3.is_int_value(a.arg(1)):
            j = _pow256(a.arg(1).as_long())
            if j is not None:
                return (a.arg(0), j)
        return (a, 0)
    return None


def recompose(ctx, items):
    """sum(items[i] * 256^i); runs of bytes cut from the same integer t (byte j, j+1, ...) are put back
    together as ((t div 256^j) mod 256^run) instead of leaving the solver to redo the division."""
    r = z3.IntVal(0)
    i = 0
    n = len(items)
    while i < n:
        e = items[i]
        org = None if isinstance(e, int) else byte_origin(ctx, e)
        if org is None:
            r = r + (z3.IntVal(e) if isinstance(e, int) else e) * z3.IntVal(256 ** i)
            i += 1
            continue
        t, j = org
        run = 1
        while i + run < n and not isinstance(items[i + run], int):
            o2 = byte_origin(ctx, items[i + run])
            if o2 is None or not o2[0].eq(t) or o2[1] != j + run:
                break
            run += 1
        chunk = (t / z3.IntVal(256 ** j)) % z3.IntVal(256 ** run) if j else t % z3.IntVal(256 ** run)
        r = r + chunk * z3.IntVal(256 ** i)
        i += run
    return r


def bytes_method(ip, b, name, args, kwargs):
    ctx = ip.ctx
    if name == 'join':
        r = b[:0] if not isinstance(b, Sym) else SBytes(items=[])
        first = True
        seq = args[0]
        if isinstance(seq, Sym) and not isinstance(seq, SList):
            raise Unsupported('join over %r' % seq)
        for x in ip.iterate(seq):
            if not ops.seq_like(x):
                pyraise(TypeError, 'sequence item: expected a bytes-like object')
            if not first:
                r = ops.seq_concat(r, b)
            r = ops.seq_concat(r, x)
            first = False
        return r
    if name == 'hex':
        from . import strings
        return strings.hex_of(ip, b)
    if name == 'startswith' or name == 'endswith':
        p = args[0]
        if isinstance(p, tuple):
            rs = [bytes_method(ip, b, name, [q], {}) for q in p]
            ts = [ops.bool_term(r) for r in rs]
            return wrap_bool(z3.Or(*ts))
        pl = ops.seq_len(p)
        if not isinstance(pl, int):
            raise Unsupported('startswith with symbolic-length prefix')
        n = ops.seq_len(b)
        if name == 'startswith':
            part = ops.seq_slice(ctx, b, 0, pl, None)
        else:
            part = ops.seq_slice(ctx, b, -pl, None, None) if pl else b''
        return wrap_bool(ops.values_eq(ctx, part, p))
    if name == 'lstrip' and args and isinstance(args[0], bytes) and len(args[0]) == 1:
        sb = ops.to_items(ctx, ops.as_sseq(b), limit=120)
        c = args[0][0]
        k = 0
        while k < len(sb.items):
            e = sb.items[k]
            eq = (e == c) if isinstance(e, int) else ctx.branch(e == c)
            if not eq:
                break
            k += 1
        return ops._mk_like(b'', items=sb.items[k:])
    if name == 'decode':
        sb = ops.as_sseq(b)
        if sb.items is not None:
            for e in sb.items:
                if not isinstance(e, int):
                    if not ctx.branch(e < 128):
                        raise Unsupported('decode of non-ASCII symbolic bytes')
            return ops._mk_like('', items=list(sb.items))
        raise Unsupported('decode of symbolic-length bytes')
    raise Unsupported('bytes method %s on symbolic bytes' % name)


# ---------------------------------------------------------------------------------------------------
# builtin types called as constructors / functions

def call_builtin_type(ip, cls, args, kwargs):
    ctx = ip.ctx
    if cls is isinstance:
        return m_isinstance(ip, args, kwargs)
    if cls is range:
        if all(isinstance(a, int) for a in args):
            return range(*args)
        if len(args) == 1:
            return SymRange(0, args[0])
        if len(args) == 2:
            return SymRange(args[0], args[1])
        raise Unsupported('range with symbolic step')
    if cls is int:
        if not args:
            return 0
        x = args[0]
        for k, fn in ip.reg.sym_int.items():
            if isinstance(x, k):
                return fn(ip, x)
        if isinstance(x, (SInt,)):
            return x
        if isinstance(x, SDecStr):
            return wrap_int(x.t)
        if isinstance(x, SBool):
            return wrap_int(int_term(x))
        if isinstance(x, SFloat):
            from . import floats
            return floats.to_int(ip, x)
        if isinstance(x, (SStr, SBytes)):
            from . import strings
            return strings.parse_int(ip, x, *args[1:], **kwargs)
        return ip.native(int, args, kwargs)
    if cls is bool:
        if not args:
            return False
        t = truth_term(ctx, args[0])
        return wrap_bool(t)
    if cls is float:
        x = args[0] if args else 0.0
        for k, fn in ip.reg.sym_float.items():
            if isinstance(x, k):
                return fn(ip, x)
        if isinstance(x, (SInt, SBool)):
            from . import floats
            return floats.from_int(ip, x)
        if isinstance(x, SFloat):
            return x
        if isinstance(x, Sym):
            raise Unsupported('float(%r)' % x)
        return ip.native(float, args, kwargs)
    if cls is bytes:
        if not args:
            return b''
        x = args[0]
        if isinstance(x, (SBytes,)):
            return x
        if isinstance(x, (list, tuple)):
            items = []
            for e in x:
                if isinstance(e, int):
                    if not 0 <= e <= 255:
                        pyraise(ValueError, 'bytes must be in range(0, 256)')
                    items.append(e)
                elif isinstance(e, (SInt, SBool)):
                    t = int_term(e)
                    if not ctx.branch(z3.And(t >= 0, t <= 255)):
                        pyraise(ValueError, 'bytes must be in range(0, 256)')
                    items.append(t)
                else:
                    pyraise(TypeError, 'an integer is required')
            return ops._mk_like(b'', items=items)
        if isinstance(x, (SStr, str)) and len(args) > 1 or 'encoding' in kwargs:
            from . import strings
            return strings.encode(ip, x, *(args[1:]), **kwargs)
        if isinstance(x, (SInt,)):
            n = ctx.concretize(x.t, limit=600, what='bytes(n) length')
            return bytes(n)
        if isinstance(x, Rec) and hasattr(x.cls, '__bytes__'):
            return ip.call(ip.getattr(x, '__bytes__'), [])
        if isinstance(x, Sym):
            raise Unsupported('bytes(%r)' % x)
        return ip.native(bytes, args, kwargs)
    if cls is bytearray:
        if args and isinstance(args[0], Sym):
            raise Unsupported('bytearray of symbolic value')
        return ip.native(bytearray, args, kwargs)
    if cls is str:
        if args and isinstance(args[0], SStr):
            return args[0]
        if args and isinstance(args[0], (SInt, SBool)):
            return SDecStr(int_term(args[0]))
        if args and isinstance(args[0], SDecStr):
            return args[0]
        if args and isinstance(args[0], Sym):
            raise Unsupported('str(%r)' % args[0])
        return ip.native(str, args, kwargs)
    if cls in (list, tuple):
        if not args:
            return cls()
        x = args[0]
        if isinstance(x, SList):
            if cls is list:
                return SList(x.rid, x.n, list(x.tail), x.elem, list, x.taken)
            raise Unsupported('tuple(symbolic list)')
        return cls(ip.iterate(x))
    if cls is dict:
        return ip.native(dict, args, kwargs)
    if cls in (set, frozenset):
        if args and not is_concrete(args[0]):
            raise Unsupported('set of symbolic values')
        return ip.native(cls, args, kwargs)
    if cls is type:
        if len(args) == 1:
            return pytype_of(args[0])
    if cls in (enumerate, zip, reversed):
        return structural(ip, cls, args, kwargs)
    if cls is map:
        f = args[0]
        seqs = [ip.iterate(a) for a in args[1:]]
        return [ip.call(f, list(t)) for t in zip(*seqs)]
    if cls is filter:
        f = args[0]
        out = []
        for x in ip.iterate(args[1]):
            v = x if f is None else ip.call(f, [x])
            if truth(ctx, v):
                out.append(x)
        return out
    if cls is object:
        return object()
    raise Unsupported('builtin %s with symbolic arguments' % cls.__name__)


def structural(ip, f, args, kwargs):
    its = [ip.iterate(a) for a in args]
    if f is enumerate:
        start = kwargs.get('start', args[1] if len(args) > 1 else 0)
        return [(i + start, x) for i, x in enumerate(its[0])]
    if f is zip:
        return list(zip(*its))
    if f is reversed:
        return list(reversed(its[0]))
    if f is list:
        return list(its[0])
    if f is tuple:
        return tuple(its[0])
    if f is iter:
        raise Unsupported('iter()')
    raise Unsupported('structural builtin %r' % f)


def m_isinstance(ip, args, kwargs):
    v, t = args
    if isinstance(v, Sym):
        pt = v.pytype
        if isinstance(v, Opaque) and pt is object:
            raise Unsupported('isinstance on opaque value')
        ts = t if isinstance(t, tuple) else (t,)
        for k in ts:
            try:
                if issubclass(pt, k):
                    return True
            except TypeError:
                pass
        return False
    return isinstance(v, t)


# ---------------------------------------------------------------------------------------------------
# registry of default models

def m_len(ip, args, kwargs):
    v = args[0]
    if isinstance(v, (SBytes, SStr)):
        return ops.seq_len(v)
    if isinstance(v, SList):
        return ops.slist_len(v)
    if isinstance(v, Rec):
        return ip.call(ip.getattr(v, '__len__'), [])
    if isinstance(v, Sym):
        pyraise(TypeError, 'object of type %s has no len()' % pytype_of(v).__name__)
    try:
        return len(v)
    except Exception as e:
        raise PyRaise(e, implicit=True)


def m_abs(ip, args, kwargs):
    v = args[0]
    if isinstance(v, (SInt, SBool)):
        t = z3.simplify(int_term(v))
        if bytesum_digits(ip.ctx, t) is not None:
            return wrap_int(t)             # a sum of bytes is non-negative
        nt = z3.simplify(-t)
        if bytesum_digits(ip.ctx, nt) is not None:
            return wrap_int(nt)            # t is minus a sum of bytes
        return wrap_int(z3.If(t < 0, -t, t))
    if isinstance(v, SFloat):
        return SFloat(z3.If(v.t < 0, -v.t, v.t))
    return abs(v)


def m_divmod(ip, args, kwargs):
    a, b = args
    return (ip.binop('FloorDiv', a, b), ip.binop('Mod', a, b))


def _minmax(ip, args, kwargs, is_min):
    if kwargs:
        if is_concrete(args):
            return ip.native(min if is_min else max, args, kwargs)
        raise Unsupported('min/max with key on symbolic values')
    vals = list(args) if len(args) > 1 else ip.iterate(args[0])
    if not vals:
        pyraise(ValueError, 'min()/max() arg is an empty sequence')
    if is_concrete(vals):
        return (min if is_min else max)(vals)
    cur = vals[0]
    for v in vals[1:]:
        if all(isinstance(x, (int, SInt, SBool)) for x in (cur, v)):
            tc, tv = int_term(cur), int_term(v)
            cur = wrap_int(z3.If(tv < tc, tv, tc) if is_min else z3.If(tv > tc, tv, tc))
        else:
            c = compare(ip, 'Lt' if is_min else 'Gt', v, cur)
            if truth(ip.ctx, c):
                cur = v
    return cur


def m_sum(ip, args, kwargs):
    vals = ip.iterate(args[0])
    acc = args[1] if len(args) > 1 else kwargs.get('start', 0)
    for v in vals:
        acc = ip.binop('Add', acc, v)
    return acc


def m_any(ip, args, kwargs):
    for v in ip.iterate(args[0]):
        if truth(ip.ctx, v):
            return True
    return False


def m_all(ip, args, kwargs):
    for v in ip.iterate(args[0]):
        if not truth(ip.ctx, v):
            return False
    return True


def m_sorted(ip, args, kwargs):
    from .interp import InterpFunction
    vals = ip.iterate(args[0])
    key = kwargs.get('key')
    if key is not None and not isinstance(key, Sym) and not (isinstance(key, type) or hasattr(key, '__code__') and is_concrete(vals)):
        pass
    if isinstance(key, InterpFunction) or (key is not None and not is_concrete(vals)):
        keys = [ip.call(key, [v]) for v in vals]
        if is_concrete(keys):
            order = sorted(range(len(vals)), key=lambda i: keys[i], reverse=bool(kwargs.get('reverse', False)))
            return [vals[i] for i in order]
        raise Unsupported('sorted() with symbolic keys')
    if is_concrete(vals) and is_concrete(kwargs):
        return ip.native(sorted, [vals], kwargs)
    raise Unsupported('sorted() of symbolic values (needs an assumed contract)')


def m_getattr(ip, args, kwargs):
    if isinstance(args[1], Sym):
        raise Unsupported('getattr with symbolic name')
    try:
        return ip.getattr(args[0], args[1])
    except PyRaise as e:
        if len(args) > 2 and isinstance(e.exc, AttributeError):
            return args[2]
        raise


def m_hasattr(ip, args, kwargs):
    try:
        ip.getattr(args[0], args[1])
        return True
    except PyRaise as e:
        if isinstance(e.exc, AttributeError):
            return False
        raise


def m_setattr(ip, args, kwargs):
    ip.setattr(args[0], args[1], args[2])


def m_pow(ip, args, kwargs):
    if is_concrete(args):
        return ip.native(pow, args, kwargs)
    if len(args) == 2:
        return ops.int_binop(ip.ctx, 'Pow', args[0], args[1])
    raise Unsupported('3-argument pow with symbolic operands (needs a UF)')


def m_round(ip, args, kwargs):
    from . import floats
    return floats.round_(ip, args, kwargs)


def m_callable(ip, args, kwargs):
    from .interp import InterpFunction, BoundMethod, ModelMethod
    v = args[0]
    if isinstance(v, (InterpFunction, BoundMethod, ModelMethod)):
        return True
    if isinstance(v, Sym):
        return False
    return callable(v)


def m_id(ip, args, kwargs):
    return id(args[0])


def m_chr(ip, args, kwargs):
    v = args[0]
    if isinstance(v, SInt):
        return SStr(items=[v.t])
    return chr(v)


def m_ord(ip, args, kwargs):
    v = args[0]
    if isinstance(v, SStr):
        s = ops.to_items(ip.ctx, v)
        if len(s.items) != 1:
            pyraise(TypeError, 'ord() expected a character')
        return wrap_int(s.items[0])
    if isinstance(v, SBytes):
        s = ops.to_items(ip.ctx, v)
        if len(s.items) != 1:
            pyraise(TypeError, 'ord() expected a character')
        return wrap_int(s.items[0])
    return ord(v)


def m_forall(ip, args, kwargs):
    """api.forall(lo, hi, pred) -> quantified formula"""
    lo, hi, pred = args
    ctx = ip.ctx
    if isinstance(lo, int) and isinstance(hi, int) and hi - lo <= 64:
        conj = []
        for j in range(lo, hi):
            t = truth_term(ctx, ip.call(pred, [j]))
            if t is False:
                return False
            if t is not True:
                conj.append(t)
        return wrap_bool(z3.And(*conj)) if conj else True
    j = z3.Int(ctx.fresh_name('j!bound'))
    ctx.no_fork += 1
    # inside the body the bound variable is in range: conditions the body branches on (e.g. "index is not negative") are decided with that
    # knowledge; the range is not added to the path condition (it is the antecedent of the quantified formula below)
    pushed = False
    try:
        if ctx.solver is not None:
            ctx.solver.push()
            ctx.solver.add(z3.And(int_term(lo) <= j, j < int_term(hi)))
            pushed = True
        body = truth_term(ctx, ip.call(pred, [SInt(j)]))
    finally:
        if pushed:
            ctx.solver.pop()
        ctx.no_fork -= 1
    if isinstance(body, bool):
        body = z3.BoolVal(body)
    ctx.quantified = True
    return SBool(z3.ForAll([j], z3.Implies(z3.And(int_term(lo) <= j, j < int_term(hi)), body)))


def _split_const(t):
    """t == base + c with c the integer constant summand (0 if none)"""
    t = z3.simplify(t)
    if z3.is_int_value(t):
        return None, t.as_long()
    if z3.is_app(t) and t.decl().kind() == z3.Z3_OP_ADD:
        c, rest = 0, []
        for a in t.children():
            if z3.is_int_value(a):
                c += a.as_long()
            else:
                rest.append(a)
        base = rest[0] if len(rest) == 1 else z3.Sum(rest)
        return base, c
    return t, 0


def _ident(v, depth=0):
    """fingerprint of a value captured by a fold step: equal fingerprints <=> the same value on this path"""
    import ast as _ast
    from .interp import InterpFunction
    if depth > 4:
        return ('deep',)
    if v is None or isinstance(v, (bool, int, str, bytes)):
        return ('c', repr(v))
    if isinstance(v, (SInt, SBool)):
        return ('t', z3.simplify(v.t).sexpr())
    if isinstance(v, InterpFunction):
        node = v.node
        names = sorted({n.id for n in _ast.walk(node) if isinstance(n, _ast.Name) and isinstance(n.ctx, _ast.Load)})
        cap = []
        f = v.frame
        for nm in names:
            fr = f
            while fr is not None:
                if nm in fr.locals:
                    cap.append((nm, _ident(fr.locals[nm], depth + 1)))
                    break
                fr = fr.parent
        return ('ipfn', getattr(node, 'lineno', 0), getattr(node, 'col_offset', 0), getattr(node, 'end_lineno', 0), tuple(cap))
    if callable(v) and hasattr(v, '__code__'):
        cells = tuple(_ident(c.cell_contents, depth + 1) for c in (v.__closure__ or ()))
        return ('pyfn', v.__code__.co_filename, v.__code__.co_firstlineno, cells)
    return ('obj', id(v))


def m_fold(ip, args, kwargs):
    """api.fold(step, init, lst, upto).  Concrete list: the plain loop.  Symbolic-length list `rid`:
         fold(0) = init;  fold(t + c) = step(fold(t + c - 1), lst[t + c - 1], t + c - 1)  for a constant c >= 1 (unfolded c times);
         fold(t) for an atom t = the value of the uninterpreted function  Fold<step,rid>(t)  (with its own length function).
    The unfolding is the *definition* of the fold, so using it needs no proof; that Fold<..>(t) is what the loop computed is exactly what
    the loop invariant states and the inv.init / inv.preserve obligations prove."""
    ctx = ip.ctx
    step, init, lst, upto = args[:4]
    if isinstance(lst, (list, tuple)):
        n = upto if isinstance(upto, int) else ctx.concretize(int_term(upto), limit=len(lst) + 2, what='fold bound')
        acc = init
        for j in range(n):
            acc = ip.call(step, [acc, lst[j], j])
        return acc
    if not isinstance(lst, SList) or lst.tail or lst.taken:
        raise Unsupported('fold over %r' % (lst,))
    base, c = _split_const(int_term(upto))
    if base is None:
        if c > 8:
            raise Unsupported('fold of a symbolic list up to the constant %d' % c)
        tcur = z3.IntVal(0)
    else:
        if c < 0 or c > 8:
            raise Unsupported('fold bound %s' % upto)
        if c > 0 and ctx.check(base + c - 1 < 0) != z3.unsat:
            raise Unsupported('fold bound %s is not known to be positive: cannot unfold' % upto)
        tcur = base
    if base is None:
        acc = init
    else:
        tag = kwargs.get('key') if kwargs.get('key') is not None else (args[4] if len(args) > 4 else None)
        if tag is None:
            raise Unsupported('fold over a symbolic-length list needs key=...')
        key = 'Fold<%s,%s>' % (tag, lst.rid)
        # one key = one function: every use of the key on this path must pass the very same step (same source, same captured values)
        fp = _ident(step)
        seen = ctx.ghost.setdefault('fold_steps', {})
        if key in seen and seen[key] != fp:
            raise Unsupported('fold key %r is used with two different step functions' % (tag,))
        seen[key] = fp
        if not seq_like_value(init):
            raise Unsupported('fold with a non-bytes accumulator')
        f = z3.Function(key, z3.IntSort(), IntSeq)
        fl = z3.Function(key + '.len', z3.IntSort(), z3.IntSort())
        t, n = f(base), fl(base)
        ctx.fact(n >= 0)
        ctx.couple(t, n)
        ctx.ufs.add('Fold')
        acc = SBytes(seq=SeqPart(t, n))
        # fold(0) = init, as a fact about the function (needed when the loop is skipped / at inv.init with a symbolic zero)
        z0 = SBytes(seq=SeqPart(f(z3.IntVal(0)), fl(z3.IntVal(0))))
        ctx.fact(ops.seq_eq_term(z0, init) if not isinstance(ops.seq_eq_term(z0, init), bool) else z3.BoolVal(True))
    n0 = z3.Int('len_' + lst.rid)
    ctx.no_fork += 1
    try:
        for d in range(c):
            pos = z3.simplify(tcur + d)
            elem = lst.elem.from_prefix(ctx, lst.rid, z3.simplify(n0 - pos))
            acc = ip.call(step, [acc, elem, wrap_int(pos)])
    finally:
        ctx.no_fork -= 1
    return acc


def seq_like_value(v):
    return isinstance(v, (bytes, bytearray, SBytes))


def sarray_getitem(ip, arr, idx):
    return wrap_int(z3.Select(arr.t, int_term(idx)))


def install_default_models(reg):
    reg.bounds = getattr(reg, 'bounds', {})
    M = reg.models
    M[len] = m_len
    M[abs] = m_abs
    M[divmod] = m_divmod
    M[min] = lambda ip, a, k: _minmax(ip, a, k, True)
    M[max] = lambda ip, a, k: _minmax(ip, a, k, False)
    M[sum] = m_sum
    M[any] = m_any
    M[all] = m_all
    M[sorted] = m_sorted
    M[getattr] = m_getattr
    M[hasattr] = m_hasattr
    M[setattr] = m_setattr
    M[pow] = m_pow
    M[round] = m_round
    M[callable] = m_callable
    M[id] = m_id
    M[chr] = m_chr
    M[ord] = m_ord
    M[isinstance] = m_isinstance
    M[int.from_bytes] = int_from_bytes
    M[int.to_bytes] = lambda ip, a, k: int_to_bytes(ip, *a, **k)
    M[hex] = m_hex
    from . import api as _api
    M[_api.forall] = m_forall
    M[_api.fold] = m_fold

    def m_store(ip, args, kwargs):
        from .loops import SArray
        arr, i, v = args
        if isinstance(arr, dict):
            if is_concrete([i, v]):
                return _api.store(arr, i, v)
            base = z3.K(z3.IntSort(), z3.IntVal(-1))
            for k_, v_ in arr.items():
                base = z3.Store(base, k_, v_)
            arr = SArray(base)
        return SArray(z3.Store(arr.t, int_term(i), int_term(v)))
    M[_api.store] = m_store

    def m_empty_map(ip, args, kwargs):
        from .loops import SArray
        return SArray(z3.K(z3.IntSort(), z3.IntVal(-1)))
    M[_api.empty_map] = m_empty_map
    from .loops import SArray
    reg.sym_getitem[SArray] = sarray_getitem
    M[print] = lambda ip, a, k: None
    import io
    M[io.BytesIO] = m_bytesio
    import copy

    def m_deepcopy(ip, args, kwargs):
        from .verify import snapshot
        return snapshot(args[0])
    M[copy.deepcopy] = m_deepcopy
    M[copy.copy] = lambda ip, a, k: (Rec(a[0].cls, dict(a[0].attrs)) if isinstance(a[0], Rec) else copy.copy(a[0]))
    import hashlib
    M[hashlib.sha256] = _hash_model('sha256', hashlib.sha256)
    M[hashlib.sha1] = _hash_model('sha1', hashlib.sha1)
    M[hashlib.sha512] = _hash_model('sha512', hashlib.sha512)
    M[hashlib.new] = m_hashlib_new
    try:
        from Crypto.Hash import RIPEMD160
        M[RIPEMD160.new] = _hash_model('ripemd160', RIPEMD160.new)
    except ImportError:
        pass
    from . import strings
    strings.install(reg)
