"""BIP38 (EC-multiplied mode): the intermediate passphrase code, as the BIP defines it.
scrypt, SHA-256, the secp256k1 base-point multiplication and Base58 are the same (assumed / uninterpreted) functions the code uses."""
import unicodedata

from bitcoinlib.encoding import scrypt_hash, base58encode
from spec import bip32, ec
from spec.sighash import dsha

MAGIC_LOT = bytes.fromhex('2ce9b3e1ff39e251')
MAGIC_NO_LOT = bytes.fromhex('2ce9b3e1ff39e253')


def intermediate_code(passphrase, owner_salt, lot, sequence):
    """passphrase is normalised with NFC (BIP38: "UTF-8 ... normalized using Unicode Normalization Form C");
    with lot/sequence: prefactor = scrypt(pw, ownersalt[:4]), ownerentropy = ownersalt[:4] || (lot * 4096 + sequence) as 4 bytes,
    passfactor = SHA256(SHA256(prefactor || ownerentropy)); without: passfactor = scrypt(pw, ownersalt), ownerentropy = ownersalt;
    passpoint = compressed passfactor * G; result = Base58Check(magic || ownerentropy || passpoint)"""
    pw = unicodedata.normalize('NFC', passphrase)
    if lot is not None:
        pre = scrypt_hash(pw, owner_salt[:4], 32, 16384, 8, 8)
        oe = owner_salt[:4] + (lot * 4096 + sequence).to_bytes(4, 'big')
        pf = dsha(pre + oe)
        magic = MAGIC_LOT
    else:
        pf = scrypt_hash(pw, owner_salt, 32, 16384, 8, 8)
        oe = owner_salt
        magic = MAGIC_NO_LOT
    passpoint = bip32.ser_p(ec.mul_g(int.from_bytes(pf, 'big')))
    payload = magic + oe + passpoint
    return base58encode(payload + dsha(payload)[:4])
