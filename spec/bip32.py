"""BIP32 child key derivation, written from the BIP text.  HMAC-SHA512 / hash160 are the real functions natively
and uninterpreted functions under the verifier; point operations come from spec.ec."""
import hashlib
import hmac

from spec import ec

N = ec.N
HARD = 2 ** 31


def ser32(i):
    return i.to_bytes(4, 'big')


def ser256(k):
    return k.to_bytes(32, 'big')


def ser_p(pt):
    """compressed SEC1 encoding"""
    x, y = pt
    return bytes([2 + y % 2]) + ser256(x)


def hmac512(key, data):
    return hmac.new(key, data, hashlib.sha512).digest()


def hash160(b):
    from Crypto.Hash import RIPEMD160
    return RIPEMD160.new(hashlib.sha256(b).digest()).digest()


def fingerprint(pub33):
    return hash160(pub33)[:4]


def ckd_priv(k_par, c_par, i):
    """CKDpriv((k_par, c_par), i) -> (k_i, c_i), or None when the BIP says the index is invalid (I_L >= n or k_i == 0)"""
    if i >= HARD:
        data = b'\x00' + ser256(k_par) + ser32(i)
    else:
        data = ser_p(ec.mul_g(k_par)) + ser32(i)
    big_i = hmac512(c_par, data)
    il = int.from_bytes(big_i[:32], 'big')
    if il >= N:
        return None
    k_i = (il + k_par) % N
    if k_i == 0:
        return None
    return k_i, big_i[32:]


def ckd_pub(pub_par, c_par, i):
    """CKDpub((K_par, c_par), i) -> (K_i as point, c_i); None for hardened i, I_L >= n or the point at infinity"""
    if i >= HARD:
        return None
    big_i = hmac512(c_par, ser_p(pub_par) + ser32(i))
    il = int.from_bytes(big_i[:32], 'big')
    if il >= N:
        return None
    k = ec.add(ec.mul_g(il), pub_par)
    if k == ec.INF:
        return None
    return k, big_i[32:]
