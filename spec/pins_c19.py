"""Pins for the open C19 findings (DESIGN §5): the library's *observed* deviating behaviour, written as stack
functions in the same style as spec/script.py.  A pin never weakens a property clause: the check proves
"consensus effect OR pinned deviation" on every path, reports KNOWN-FINDING when only the pin holds, and
VIOLATION when neither does (a different deviation)."""
from spec.script import script_num_decode, script_num_encode, T, F, MAX_NUM, _b


def _binary_rev(st, f):
    """as spec.script._binary, but f receives (top, second): the operands in reversed order"""
    if len(st) < 2:
        return None
    if len(st[-1]) > MAX_NUM or len(st[-2]) > MAX_NUM:
        return None
    return st[:-2] + [f(script_num_decode(st[-1]), script_num_decode(st[-2]))]


def op_sub(st):
    return _binary_rev(st, lambda a, b: script_num_encode(a - b))


def op_numlessthan(st):
    return _binary_rev(st, lambda a, b: _b(a < b))


def op_numgreaterthan(st):
    return _binary_rev(st, lambda a, b: _b(a > b))


def op_numlessthanorequal(st):
    return _binary_rev(st, lambda a, b: _b(a <= b))


def op_numgreaterthanorequal(st):
    return _binary_rev(st, lambda a, b: _b(a >= b))


def op_within(st):
    """observed: value = top, min = second, max = third"""
    if len(st) < 3:
        return None
    if len(st[-1]) > MAX_NUM or len(st[-2]) > MAX_NUM or len(st[-3]) > MAX_NUM:
        return None
    x = script_num_decode(st[-1])
    lo = script_num_decode(st[-2])
    hi = script_num_decode(st[-3])
    return st[:-3] + [_b(lo <= x and x < hi)]


def op_tuck(st):
    """observed: behaves as OP_OVER"""
    if len(st) < 2:
        return None
    return st + [st[-2]]


def op_2swap(st):
    """observed: a b c d -> d c a b; with only two or three items the top two are reversed and moved to the bottom"""
    if len(st) < 2:
        return None
    x = st[-1]
    y = st[-2]
    rest = st[:-2]
    if len(rest) >= 2:
        return rest[:-2] + [x, y] + rest[-2:]
    return [x, y] + rest


def op_pick(st):
    """observed: no operand-size check; copies element [-n] of the remaining stack with Python index semantics
    (n = 0 copies the bottom element, negative n counts from the bottom)"""
    if len(st) < 1:
        return None
    n = script_num_decode(st[-1])
    rest = st[:-1]
    idx = -n
    if idx < -len(rest) or idx >= len(rest):
        return None
    return rest + [rest[idx]]


def op_roll(st):
    """observed: no operand-size check; moves element [-n] of the remaining stack (Python index semantics) to the top"""
    if len(st) < 1:
        return None
    n = script_num_decode(st[-1])
    rest = st[:-1]
    idx = -n
    if idx < -len(rest) or idx >= len(rest):
        return None
    k = idx if idx >= 0 else len(rest) + idx
    return rest[:k] + rest[k + 1:] + [rest[idx]]


def _truthy(x):
    """observed notion of truth: any non-empty byte string"""
    return len(x) != 0






def _unary_raw(st, f):
    if len(st) < 1:
        return None
    if len(st[-1]) > MAX_NUM:
        return None
    return st[:-1] + [f(st[-1])]


def _binary_raw(st, f):
    if len(st) < 2:
        return None
    if len(st[-1]) > MAX_NUM or len(st[-2]) > MAX_NUM:
        return None
    return st[:-2] + [f(st[-2], st[-1])]















def op_checkmultisig(st, valid):
    """observed: as consensus, except that a missing dummy item is tolerated (tests/test_script.py evaluates stacks without it)"""
    from spec.script import op_checkmultisig as ref
    if len(st) >= 1 and len(st[-1]) <= MAX_NUM:
        n = script_num_decode(st[-1])
        if 0 <= n <= 20 and len(st) >= n + 2 and len(st[len(st) - 2 - n]) <= MAX_NUM:
            m = script_num_decode(st[len(st) - 2 - n])
            if 0 <= m <= n and len(st) == n + m + 2:
                r = ref([b''] + st, valid)
                return r
    return ref(st, valid)


def op_checkmultisigverify(st, valid):
    from spec.script import op_verify
    r = op_checkmultisig(st, valid)
    if r is None:
        return None
    return op_verify(r)
