"""Bech32 / Bech32m segwit addresses: the reference implementation of BIP173 / BIP350 (sipa), restated."""
CHARSET = 'qpzry9x8gf2tvdw0s3jn54khce6mua7l'
BECH32M_CONST = 0x2bc830a3


def polymod(values):
    gen = [0x3b6a57b2, 0x26508e6d, 0x1ea119fa, 0x3d4233dd, 0x2a1462b3]
    chk = 1
    for v in values:
        b = chk >> 25
        chk = (chk & 0x1ffffff) << 5 ^ v
        for i in range(5):
            chk ^= gen[i] if ((b >> i) & 1) else 0
    return chk


def hrp_expand(hrp):
    return [ord(x) >> 5 for x in hrp] + [0] + [ord(x) & 31 for x in hrp]


def convertbits(data, frombits, tobits, pad=True):
    acc, bits, ret = 0, 0, []
    maxv = (1 << tobits) - 1
    max_acc = (1 << (frombits + tobits - 1)) - 1
    for value in data:
        if value < 0 or (value >> frombits):
            return None
        acc = ((acc << frombits) | value) & max_acc
        bits += frombits
        while bits >= tobits:
            bits -= tobits
            ret.append((acc >> bits) & maxv)
    if pad:
        if bits:
            ret.append((acc << (tobits - bits)) & maxv)
    elif bits >= frombits or ((acc << (tobits - bits)) & maxv):
        return None
    return ret


def encode(hrp, witver, program):
    const = 1 if witver == 0 else BECH32M_CONST
    data = [witver] + convertbits(program, 8, 5)
    pm = polymod(hrp_expand(hrp) + data + [0] * 6) ^ const
    chk = [(pm >> 5 * (5 - i)) & 31 for i in range(6)]
    return hrp + '1' + ''.join(CHARSET[d] for d in data + chk)


def decode(addr):
    """(hrp, witness version, program bytes) or None, exactly as BIP173/BIP350 'decode' + segwit address rules"""
    if any(ord(x) < 33 or ord(x) > 126 for x in addr) or (addr.lower() != addr and addr.upper() != addr):
        return None
    addr = addr.lower()
    pos = addr.rfind('1')
    if pos < 1 or pos + 7 > len(addr) or len(addr) > 90:
        return None
    if not all(x in CHARSET for x in addr[pos + 1:]):
        return None
    hrp = addr[:pos]
    data = [CHARSET.find(x) for x in addr[pos + 1:]]
    const = polymod(hrp_expand(hrp) + data)
    if const not in (1, BECH32M_CONST):
        return None
    data = data[:-6]
    if not data:
        return None
    prog = convertbits(data[1:], 5, 8, False)
    if prog is None or len(prog) < 2 or len(prog) > 40 or data[0] > 16:
        return None
    if data[0] == 0 and len(prog) not in (20, 32):
        return None
    if (data[0] == 0 and const != 1) or (data[0] != 0 and const != BECH32M_CONST):
        return None
    return hrp, data[0], bytes(prog)
