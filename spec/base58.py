"""Base58Check from the Bitcoin wiki definition; independent of bitcoinlib."""
import hashlib

ALPHABET = '123456789ABCDEFGHJKLMNPQRSTUVWXYZabcdefghijkmnopqrstuvwxyz'


def encode(b):
    n = int.from_bytes(b, 'big')
    s = ''
    while n:
        n, r = divmod(n, 58)
        s = ALPHABET[r] + s
    pad = len(b) - len(b.lstrip(b'\x00'))
    return '1' * pad + s


def decode(s):
    """bytes, or None if s is not a canonical base58 string"""
    if not s or any(c not in ALPHABET for c in s):
        return None
    n = 0
    for c in s:
        n = n * 58 + ALPHABET.index(c)
    pad = len(s) - len(s.lstrip('1'))
    return b'\x00' * pad + (n.to_bytes((n.bit_length() + 7) // 8, 'big') if n else b'')


def check_encode(payload):
    return encode(payload + hashlib.sha256(hashlib.sha256(payload).digest()).digest()[:4])


def check_decode(s):
    """payload (without checksum), or None if s is not a valid canonical Base58Check string"""
    raw = decode(s)
    if raw is None or len(raw) < 5:
        return None
    payload, chk = raw[:-4], raw[-4:]
    if hashlib.sha256(hashlib.sha256(payload).digest()).digest()[:4] != chk:
        return None
    return payload
