"""Wire-format oracles, written from the Bitcoin protocol documentation (CompactSize, var_str),
BIP141/144.  Independent of bitcoinlib.  Pure Python: run natively for replay and interpreted
symbolically by pyvc when building verification conditions."""


def le(n, size):
    """little-endian encoding of n in exactly `size` bytes"""
    out = b''
    for i in range(size):
        out = out + bytes([(n >> (8 * i)) & 0xff])
    return out


def compact_size(n):
    """CompactSize: shortest form.  < 0xfd: 1 byte; <= 0xffff: fd + 2 bytes; <= 0xffffffff: fe + 4; else ff + 8."""
    if n < 0xfd:
        return bytes([n])
    if n <= 0xffff:
        return b'\xfd' + le(n, 2)
    if n <= 0xffffffff:
        return b'\xfe' + le(n, 4)
    return b'\xff' + le(n, 8)


def compact_size_len(n):
    if n < 0xfd:
        return 1
    if n <= 0xffff:
        return 3
    if n <= 0xffffffff:
        return 5
    return 9


from pyvc.api import opaque


@opaque(result='bytes', facts=lambda s, r: [len(r) >= len(s) + 1, len(r) <= len(s) + 9])
def ser_string(s):
    """var_str: CompactSize length followed by the bytes, for every byte string"""
    return compact_size(len(s)) + s


def from_le(b):
    r = 0
    k = 0
    for x in b:
        r = r + x * 256 ** k
        k += 1
    return r


def compact_size_decode(b):
    """(value, consumed) for a buffer starting with a CompactSize (any of the four forms)."""
    first = b[0]
    if first < 0xfd:
        return first, 1
    if first == 0xfd:
        return from_le(b[1:3]), 3
    if first == 0xfe:
        return from_le(b[1:5]), 5
    return from_le(b[1:9]), 9


# ---------------------------------------------------------------------------------------------------
# transaction serialisation (protocol documentation + BIP144) over an abstract transaction:
#   version:int, inputs:[(prev_txid_wire:32 bytes, vout:int, script:bytes, sequence:int, witness:[bytes])], outputs:[(value:int, script:bytes)], locktime:int

def ser_tx(version, inputs, outputs, locktime, with_witness, ser=None):
    ser = ser or ser_string
    r = le(version, 4)
    if with_witness:
        r = r + b'\x00\x01'
    r = r + compact_size(len(inputs))
    for txid_wire, vout, script, sequence, witness in inputs:
        r = r + txid_wire + le(vout, 4) + ser(script) + le(sequence, 4)
    r = r + compact_size(len(outputs))
    for value, script in outputs:
        r = r + le(value, 8) + ser(script)
    if with_witness:
        for txid_wire, vout, script, sequence, witness in inputs:
            r = r + compact_size(len(witness))
            for item in witness:
                r = r + ser(item)
    return r + le(locktime, 4)


def parse_tx(raw):
    """independent reader: returns (version, inputs, outputs, locktime, has_witness, consumed)"""
    pos = 0

    def take(n):
        nonlocal pos
        if pos + n > len(raw):
            raise ValueError('truncated')
        b = raw[pos:pos + n]
        pos += n
        return b

    def cs():
        nonlocal pos
        v, n = compact_size_decode(raw[pos:pos + 9])
        take(n)
        return v

    version = from_le(take(4))
    has_witness = False
    if raw[pos:pos + 1] == b'\x00':
        if raw[pos + 1:pos + 2] != b'\x01':
            raise ValueError('bad segwit flag')
        take(2)
        has_witness = True
    ins = []
    for _ in range(cs()):
        txid_wire = take(32)
        vout = from_le(take(4))
        script = take(cs())
        seq = from_le(take(4))
        ins.append([txid_wire, vout, script, seq, []])
    outs = []
    for _ in range(cs()):
        value = from_le(take(8))
        outs.append((value, take(cs())))
    if has_witness:
        for i in ins:
            i[4] = [take(cs()) for _ in range(cs())]
    locktime = from_le(take(4))
    return version, [tuple(i) for i in ins], outs, locktime, has_witness, pos


def tx_in_step(acc, x, j):
    """one input of the non-witness serialisation: outpoint, var_str unlocking script, sequence"""
    return acc + x.prev_txid[::-1] + x.output_n[::-1] + ser_string(x.unlocking_script) + le(x.sequence, 4)


def ser_tx_rec(version, inputs, outputs, locktime):
    """non-witness transaction serialisation for lists of ANY length, on records (prev_txid in RPC order, output_n big-endian,
    unlocking_script, sequence; value, lock_script): ser_tx with the two loops written as left folds"""
    from pyvc.api import fold
    from spec.sighash import out_step
    return (le(version, 4) + compact_size(len(inputs)) + fold(tx_in_step, b'', inputs, len(inputs), key='tx-in')
            + compact_size(len(outputs)) + fold(out_step(ser_string), b'', outputs, len(outputs), key='tx-out') + le(locktime, 4))


def tx_wit_step(acc, x, j):
    """witness field of one input (BIP144): item count, then every item as var_str; an input without witness items is the single byte 00"""
    w = x.witnesses
    if len(w) == 0:
        return acc + b'\x00'
    out = acc + compact_size(len(w))
    for item in w:
        out = out + ser_string(item)
    return out


def ser_tx_segwit_rec(version, inputs, outputs, locktime):
    """BIP144 serialisation for lists of ANY length: version, marker 00, flag 01, inputs, outputs, the witness field of every input, lock time"""
    from pyvc.api import fold
    from spec.sighash import out_step
    return (le(version, 4) + b'\x00\x01' + compact_size(len(inputs)) + fold(tx_in_step, b'', inputs, len(inputs), key='tx-in')
            + compact_size(len(outputs)) + fold(out_step(ser_string), b'', outputs, len(outputs), key='tx-out')
            + fold(tx_wit_step, b'', inputs, len(inputs), key='tx-wit') + le(locktime, 4))

