"""Wire-format oracles, written from the Bitcoin protocol documentation (CompactSize, var_str),
BIP141/144.  Independent of bitcoinlib.  Pure Python: run natively for replay and interpreted
symbolically by pyvc when building verification conditions."""


def le(n, size):
    """little-endian encoding of n in exactly `size` bytes"""
    out = b''
    for i in range(size):
        out = out + bytes([(n >> (8 * i)) & 0xff])
    return out


def compact_size(n):
    """CompactSize: shortest form.  < 0xfd: 1 byte; <= 0xffff: fd + 2 bytes; <= 0xffffffff: fe + 4; else ff + 8."""
    if n < 0xfd:
        return bytes([n])
    if n <= 0xffff:
        return b'\xfd' + le(n, 2)
    if n <= 0xffffffff:
        return b'\xfe' + le(n, 4)
    return b'\xff' + le(n, 8)


def compact_size_len(n):
    if n < 0xfd:
        return 1
    if n <= 0xffff:
        return 3
    if n <= 0xffffffff:
        return 5
    return 9


from pyvc.api import opaque


@opaque(result='bytes', facts=lambda s, r: [len(r) >= len(s) + 1, len(r) <= len(s) + 9])
def ser_string(s):
    """var_str: CompactSize length followed by the bytes, for every byte string"""
    return compact_size(len(s)) + s


def from_le(b):
    r = 0
    k = 0
    for x in b:
        r = r + x * 256 ** k
        k += 1
    return r


def compact_size_decode(b):
    """(value, consumed) for a buffer starting with a CompactSize (any of the four forms)."""
    first = b[0]
    if first < 0xfd:
        return first, 1
    if first == 0xfd:
        return from_le(b[1:3]), 3
    if first == 0xfe:
        return from_le(b[1:5]), 5
    return from_le(b[1:9]), 9
