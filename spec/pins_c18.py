"""Pins for the open C18 findings about Script.parse_bytesio: the library's *observed* command extraction, which deviates from
"the items of the script" in three ways (each a separate finding in known_findings.txt):

  F-C18-subscript-items       a data push that is not key-, signature- or hash-sized and that itself lexes as a script is
                              replaced in `commands` by the nested list of that sub-script's commands (items differ)
  F-C18-single-push-flattened a script that consists of exactly one such push is flattened to the sub-script's commands;
                              serialize() then yields the sub-script, not the push
  F-C18-siglike-refused       a data push of 69..74 bytes that starts with 0x30 but is not a DER signature is refused
                              (ScriptError, strict mode is the default)

`model_parse` is that behaviour written out; the bounded check accepts a deviation only when the real result equals this
model's result AND the class is listed as open; any other deviation is a VIOLATION."""
from spec.script import push_data

N = 0xFFFFFFFFFFFFFFFFFFFFFFFFFFFFFFFEBAAEDCE6AF48A03BBFD25E8CD0364141
OP_RETURN = 0x6a


class Refused(Exception):
    pass


def lex(raw):
    """the items of a script (protocol definition): list of ints and bytes, or None when a push is truncated"""
    out, i = [], 0
    while i < len(raw):
        ch = raw[i]
        i += 1
        if 1 <= ch <= 75:
            n = ch
        elif ch == 0x4c:
            if i + 1 > len(raw):
                return None
            n = raw[i]
            i += 1
        elif ch == 0x4d:
            if i + 2 > len(raw):
                return None
            n = raw[i] + 256 * raw[i + 1]
            i += 2
        elif ch == 0x4e:
            if i + 4 > len(raw):
                return None
            n = int.from_bytes(raw[i:i + 4], 'little')
            i += 4
        else:
            out.append(ch)
            continue
        if i + n > len(raw):
            return None
        out.append(raw[i:i + n])
        i += n
    return out


def strict_der_sig(data):
    """data = DER(r, s) + hash type byte with 1 <= r, s < n (minimal DER integers)"""
    d = data[:-1]
    if len(d) < 8 or d[0] != 0x30 or d[1] != len(d) - 2 or d[2] != 0x02:
        return False
    lr = d[3]
    if lr == 0 or 4 + lr + 2 > len(d) or d[4 + lr] != 0x02:
        return False
    ls = d[5 + lr]
    if ls == 0 or 6 + lr + ls != len(d):
        return False
    rb, sb = d[4:4 + lr], d[6 + lr:]
    for b in (rb, sb):
        if b[0] & 0x80 or (len(b) > 1 and b[0] == 0 and not b[1] & 0x80):
            return False
    r, s = int.from_bytes(rb, 'big'), int.from_bytes(sb, 'big')
    return 1 <= r < N and 1 <= s < N


def data_type(data):
    if data[:1] == b'\x30' and 69 <= len(data) <= 74:
        return 'signature'
    if (data[:1] in (b'\x02', b'\x03') and len(data) == 33) or (data[:1] == b'\x04' and len(data) == 65):
        return 'key'
    if len(data) in (20, 32, 64) or 1 <= len(data) <= 4:
        return 'data'
    return 'other'


def model_parse(raw, data_length=0, level=0):
    """(commands as the library builds them, set of deviation classes used); raises Refused where the library raises"""
    used = set()
    pos = 0

    def read(n):
        nonlocal pos
        r = raw[pos:pos + n]
        pos += len(r)
        return r

    commands = []
    chb = read(1)
    ch = int.from_bytes(chb, 'big')
    data = None
    if chb == b'\x30' and 69 <= data_length <= 74:
        data = chb + read(data_length - 1)
    elif (chb in (b'\x02', b'\x03') and data_length == 33) or (chb == b'\x04' and data_length == 65):
        data = chb + read(data_length - 1)
    elif data_length == 64:
        data = chb + read(data_length - 1)
    else:
        data_length = 0
    while chb:
        if data:
            t = data_type(data)
            commands.append(data)
            if t == 'signature':
                if not strict_der_sig(data):
                    used.add('F-C18-siglike-refused')
                    raise Refused('signature-like data')
            elif t in ('key', 'data'):
                pass
            elif len(commands) >= 2 and commands[-2] == OP_RETURN:
                pass
            elif level >= 1:
                pass
            else:
                try:
                    sub, _ = model_parse(data, len(data), level + 1)
                    commands.pop()
                    commands.append(sub)
                    used.add('F-C18-subscript-items')
                except Refused:
                    pass
            data = None
            data_length = 0
        else:
            if 1 <= ch <= 75:
                data_length = ch
            elif ch == 0x4c:
                data_length = int.from_bytes(read(1), 'little')
            elif ch == 0x4d:
                data_length = int.from_bytes(read(2), 'little')
            if data_length:
                data = read(data_length)
                if len(data) != data_length:
                    raise Refused('malformed')
                continue
            commands.append(ch)
        chb = read(1)
        ch = int.from_bytes(chb, 'big')
    if len(commands) == 1 and isinstance(commands[0], list):
        commands = commands[0]
        used.discard('F-C18-subscript-items')
        used.add('F-C18-single-push-flattened')
    return commands, used


def model_serialize(commands):
    r = b''
    for c in commands:
        if isinstance(c, int):
            r += bytes([c])
        elif isinstance(c, list):
            r += push_data(model_serialize(c))
        else:
            r += push_data(c)
    return r
