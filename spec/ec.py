"""secp256k1 group operations in plain Python (affine coordinates), independent of fastecdsa / ecdsa.
Natively these compute; under the verifier they are uninterpreted functions (models in contracts/external.py), so
that verified code and specification talk about the *same* abstract group operations."""
P = 2 ** 256 - 2 ** 32 - 977
N = 0xFFFFFFFFFFFFFFFFFFFFFFFFFFFFFFFEBAAEDCE6AF48A03BBFD25E8CD0364141
GX = 0x79BE667EF9DCBBAC55A06295CE870B07029BFCDB2DCE28D959F2815B16F81798
GY = 0x483ADA7726A3C4655DA4FBFC0E1108A8FD17B448A68554199C47D08FFB10D4B8
INF = (0, 0)        # point at infinity is represented as (0, 0), which is not on the curve


def add(p1, p2):
    if p1 == INF:
        return p2
    if p2 == INF:
        return p1
    x1, y1 = p1
    x2, y2 = p2
    if x1 == x2 and (y1 + y2) % P == 0:
        return INF
    if p1 == p2:
        lam = 3 * x1 * x1 * pow(2 * y1, -1, P) % P
    else:
        lam = (y2 - y1) * pow(x2 - x1, -1, P) % P
    x3 = (lam * lam - x1 - x2) % P
    return x3, (lam * (x1 - x3) - y1) % P


def mul(k, pt):
    r = INF
    while k:
        if k & 1:
            r = add(r, pt)
        pt = add(pt, pt)
        k >>= 1
    return r


def mul_g(k):
    return mul(k % N, (GX, GY))


def on_curve(pt):
    x, y = pt
    return 0 <= x < P and 0 <= y < P and (y * y - x * x * x - 7) % P == 0
