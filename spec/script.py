"""Script-level oracles from the reference interpreter (script.h / interpreter.cpp semantics)."""


def push_data(data):
    """Canonical data push: direct push up to 75 bytes, PUSHDATA1 up to 255, PUSHDATA2 up to 65535, PUSHDATA4 above."""
    n = len(data)
    if n <= 75:
        return bytes([n]) + data
    if n <= 0xff:
        return b'\x4c' + bytes([n]) + data
    if n <= 0xffff:
        return b'\x4d' + bytes([n & 0xff, n >> 8]) + data
    return b'\x4e' + bytes([n & 0xff, (n >> 8) & 0xff, (n >> 16) & 0xff, (n >> 24) & 0xff]) + data


def script_num_encode(n):
    """CScriptNum::serialize: minimal little-endian sign-magnitude."""
    if n == 0:
        return b''
    neg = n < 0
    a = -n if neg else n
    out = b''
    while a > 0:
        out = out + bytes([a & 0xff])
        a = a >> 8
    last = out[len(out) - 1]
    if last & 0x80:
        out = out + (b'\x80' if neg else b'\x00')
    elif neg:
        out = out[:len(out) - 1] + bytes([last + 0x80])
    return out


def script_num_decode(b):
    """CScriptNum set_vch: little-endian magnitude, top bit of last byte is the sign (no minimality check)."""
    if len(b) == 0:
        return 0
    r = 0
    k = 0
    for x in b[:len(b) - 1]:
        r = r + x * 256 ** k
        k += 1
    last = b[len(b) - 1]
    r = r + (last & 0x7f) * 256 ** k
    if last & 0x80:
        return -r
    return r


def is_minimal_num(b):
    """minimal encoding as required by SCRIPT_VERIFY_MINIMALDATA"""
    if len(b) == 0:
        return True
    last = b[len(b) - 1]
    if last & 0x7f == 0:
        if len(b) == 1:
            return False
        if b[len(b) - 2] & 0x80 == 0:
            return False
    return True


def cast_to_bool(b):
    """CastToBool: any non-zero byte, except that a final 0x80 (negative zero) does not count"""
    i = 0
    for x in b:
        if x != 0:
            if i == len(b) - 1 and x == 0x80:
                return False
            return True
        i += 1
    return False
