"""Script-level oracles from the reference interpreter (script.h / interpreter.cpp semantics)."""
from pyvc.api import opaque, implies


def push_data(data):
    """Canonical data push: direct push up to 75 bytes, PUSHDATA1 up to 255, PUSHDATA2 up to 65535, PUSHDATA4 above."""
    n = len(data)
    if n <= 75:
        return bytes([n]) + data
    if n <= 0xff:
        return b'\x4c' + bytes([n]) + data
    if n <= 0xffff:
        return b'\x4d' + bytes([n & 0xff, n >> 8]) + data
    return b'\x4e' + bytes([n & 0xff, (n >> 8) & 0xff, (n >> 16) & 0xff, (n >> 24) & 0xff]) + data


def script_num_encode(n):
    """CScriptNum::serialize: minimal little-endian sign-magnitude."""
    if n == 0:
        return b''
    neg = n < 0
    a = -n if neg else n
    out = b''
    while a > 0:
        out = out + bytes([a & 0xff])
        a = a >> 8
    last = out[len(out) - 1]
    if last & 0x80:
        out = out + (b'\x80' if neg else b'\x00')
    elif neg:
        out = out[:len(out) - 1] + bytes([last + 0x80])
    return out


def _num_facts(b, r):
    return [implies(len(b) == 0, r == 0),
            implies(len(b) <= 4, -2 ** 31 < r and r < 2 ** 31),
            implies(len(b) <= 8, -2 ** 63 < r and r < 2 ** 63)]


@opaque(result='int', facts=_num_facts, max_len=9)
def script_num_decode(b):
    """CScriptNum set_vch: little-endian magnitude, top bit of last byte is the sign (no minimality check)."""
    if len(b) == 0:
        return 0
    r = 0
    k = 0
    for x in b[:len(b) - 1]:
        r = r + x * 256 ** k
        k += 1
    last = b[len(b) - 1]
    r = r + (last & 0x7f) * 256 ** k
    if last & 0x80:
        return -r
    return r


def is_minimal_num(b):
    """minimal encoding as required by SCRIPT_VERIFY_MINIMALDATA"""
    if len(b) == 0:
        return True
    last = b[len(b) - 1]
    if last & 0x7f == 0:
        if len(b) == 1:
            return False
        if b[len(b) - 2] & 0x80 == 0:
            return False
    return True


def _bool_facts(b, r):
    # CastToBool agrees with "the script number is non-zero" (for every length; stated and proved up to 9 bytes)
    return [implies(len(b) == 0, not r), implies(len(b) <= 9, r == (script_num_decode(b) != 0))]


@opaque(result='bool', facts=_bool_facts, max_len=9)
def cast_to_bool(b):
    """CastToBool: any non-zero byte, except that a final 0x80 (negative zero) does not count"""
    i = 0
    for x in b:
        if x != 0:
            if i == len(b) - 1 and x == 0x80:
                return False
            return True
        i += 1
    return False


# ---------------------------------------------------------------------------------------------------
# One function per opcode: consensus effect on the main stack (list, bottom -> top).
# Returns the new stack, or None for "script fails".  Written from interpreter.cpp (EvalScript);
# operands of numeric opcodes are limited to 4 bytes (nMaxNumSize), results may be 5 bytes.

import hashlib

T = b'\x01'
F = b''
MAX_NUM = 4


def _b(cond):
    return T if cond else F


def op_nop(st):
    return st


def op_verify(st):
    if len(st) < 1:
        return None
    if not cast_to_bool(st[-1]):
        return None
    return st[:-1]


def op_return(st):
    return None


def op_2drop(st):
    if len(st) < 2:
        return None
    return st[:-2]


def op_2dup(st):
    if len(st) < 2:
        return None
    return st + [st[-2], st[-1]]


def op_3dup(st):
    if len(st) < 3:
        return None
    return st + [st[-3], st[-2], st[-1]]


def op_2over(st):
    if len(st) < 4:
        return None
    return st + [st[-4], st[-3]]


def op_2rot(st):
    if len(st) < 6:
        return None
    return st[:-6] + [st[-4], st[-3], st[-2], st[-1], st[-6], st[-5]]


def op_2swap(st):
    if len(st) < 4:
        return None
    return st[:-4] + [st[-2], st[-1], st[-4], st[-3]]


def op_ifdup(st):
    if len(st) < 1:
        return None
    if cast_to_bool(st[-1]):
        return st + [st[-1]]
    return st


def op_depth(st):
    return st + [script_num_encode(len(st))]


def op_drop(st):
    if len(st) < 1:
        return None
    return st[:-1]


def op_dup(st):
    if len(st) < 1:
        return None
    return st + [st[-1]]


def op_nip(st):
    if len(st) < 2:
        return None
    return st[:-2] + [st[-1]]


def op_over(st):
    if len(st) < 2:
        return None
    return st + [st[-2]]


def op_pick(st):
    if len(st) < 2:
        return None
    if len(st[-1]) > MAX_NUM:
        return None
    n = script_num_decode(st[-1])
    if n < 0 or n >= len(st) - 1:
        return None
    return st[:-1] + [st[-2 - n]]


def op_roll(st):
    if len(st) < 2:
        return None
    if len(st[-1]) > MAX_NUM:
        return None
    n = script_num_decode(st[-1])
    if n < 0 or n >= len(st) - 1:
        return None
    rest = st[:-1]
    x = rest[-1 - n]
    k = len(rest) - 1 - n
    return rest[:k] + rest[k + 1:] + [x]


def op_rot(st):
    if len(st) < 3:
        return None
    return st[:-3] + [st[-2], st[-1], st[-3]]


def op_swap(st):
    if len(st) < 2:
        return None
    return st[:-2] + [st[-1], st[-2]]


def op_tuck(st):
    if len(st) < 2:
        return None
    return st[:-2] + [st[-1], st[-2], st[-1]]


def op_size(st):
    if len(st) < 1:
        return None
    return st + [script_num_encode(len(st[-1]))]


def op_equal(st):
    if len(st) < 2:
        return None
    return st[:-2] + [_b(st[-2] == st[-1])]


def op_equalverify(st):
    r = op_equal(st)
    if r is None:
        return None
    return op_verify(r)


def _unary(st, f):
    if len(st) < 1:
        return None
    if len(st[-1]) > MAX_NUM:
        return None
    return st[:-1] + [f(script_num_decode(st[-1]))]


def _binary(st, f):
    """f(a, b) with a the first-pushed (deeper) operand and b the top of the stack"""
    if len(st) < 2:
        return None
    if len(st[-1]) > MAX_NUM or len(st[-2]) > MAX_NUM:
        return None
    return st[:-2] + [f(script_num_decode(st[-2]), script_num_decode(st[-1]))]


def op_1add(st):
    return _unary(st, lambda a: script_num_encode(a + 1))


def op_1sub(st):
    return _unary(st, lambda a: script_num_encode(a - 1))


def op_negate(st):
    return _unary(st, lambda a: script_num_encode(-a))


def op_abs(st):
    return _unary(st, lambda a: script_num_encode(-a if a < 0 else a))


def op_not(st):
    return _unary(st, lambda a: _b(a == 0))


def op_0notequal(st):
    return _unary(st, lambda a: _b(a != 0))


def op_add(st):
    return _binary(st, lambda a, b: script_num_encode(a + b))


def op_sub(st):
    return _binary(st, lambda a, b: script_num_encode(a - b))


def op_booland(st):
    return _binary(st, lambda a, b: _b(a != 0 and b != 0))


def op_boolor(st):
    return _binary(st, lambda a, b: _b(a != 0 or b != 0))


def op_numequal(st):
    return _binary(st, lambda a, b: _b(a == b))


def op_numequalverify(st):
    r = op_numequal(st)
    if r is None:
        return None
    return op_verify(r)


def op_numnotequal(st):
    return _binary(st, lambda a, b: _b(a != b))


def op_lessthan(st):
    return _binary(st, lambda a, b: _b(a < b))


def op_greaterthan(st):
    return _binary(st, lambda a, b: _b(a > b))


def op_lessthanorequal(st):
    return _binary(st, lambda a, b: _b(a <= b))


def op_greaterthanorequal(st):
    return _binary(st, lambda a, b: _b(a >= b))


def op_min(st):
    return _binary(st, lambda a, b: script_num_encode(a if a < b else b))


def op_max(st):
    return _binary(st, lambda a, b: script_num_encode(a if a > b else b))


def op_within(st):
    """x min max OP_WITHIN: true iff min <= x < max"""
    if len(st) < 3:
        return None
    if len(st[-1]) > MAX_NUM or len(st[-2]) > MAX_NUM or len(st[-3]) > MAX_NUM:
        return None
    x = script_num_decode(st[-3])
    lo = script_num_decode(st[-2])
    hi = script_num_decode(st[-1])
    return st[:-3] + [_b(lo <= x and x < hi)]


def _ripemd160(x):
    from Crypto.Hash import RIPEMD160
    return RIPEMD160.new(x).digest()


def _hash1(st, h):
    if len(st) < 1:
        return None
    return st[:-1] + [h(st[-1])]


def op_ripemd160(st):
    return _hash1(st, _ripemd160)


def op_sha1(st):
    return _hash1(st, lambda x: hashlib.sha1(x).digest())


def op_sha256(st):
    return _hash1(st, lambda x: hashlib.sha256(x).digest())


def op_hash160(st):
    return _hash1(st, lambda x: _ripemd160(hashlib.sha256(x).digest()))


def op_hash256(st):
    return _hash1(st, lambda x: hashlib.sha256(hashlib.sha256(x).digest()).digest())


# ---------------------------------------------------------------------------------------------------
# Reference interpreter for the opcode subset above (EvalScript with a condition stack), used natively by the
# bounded evaluate-level stand-in.  `ops` maps opcode number -> stack function; unknown opcodes fail.

OP_IF, OP_NOTIF, OP_ELSE, OP_ENDIF = 99, 100, 103, 104


def eval_script(commands, ops, truth=cast_to_bool, else_once=False):
    """True iff the script succeeds.  commands: ints (opcodes) and bytes (data pushes)."""
    st = []
    vf = []                      # condition stack
    seen_else = []               # only used for the pinned "a second ELSE does not toggle back" behaviour
    for c in commands:
        executing = all(vf)
        if isinstance(c, bytes):
            if executing:
                st = st + [c]
            continue
        if c in (OP_IF, OP_NOTIF):
            val = False
            if executing:
                if len(st) < 1:
                    return False
                val = truth(st[-1])
                if c == OP_NOTIF:
                    val = not val
                st = st[:-1]
            vf.append(val)
            seen_else.append(False)
            continue
        if c == OP_ELSE:
            if not vf:
                return False
            if not (else_once and seen_else[-1]):
                vf[-1] = not vf[-1]
            seen_else[-1] = True
            continue
        if c == OP_ENDIF:
            if not vf:
                return False
            vf.pop()
            seen_else.pop()
            continue
        if not executing:
            continue
        if c == 0:
            st = st + [b'']
        elif c == 79:
            st = st + [script_num_encode(-1)]
        elif 81 <= c <= 96:
            st = st + [script_num_encode(c - 80)]
        else:
            f = ops.get(c)
            if f is None:
                return False
            st = f(st)
            if st is None:
                return False
    if vf:
        return False
    if len(st) == 0:
        return False
    return truth(st[-1])


def multisig_redeem(m, pubkeys):
    """standard m-of-n multisig script: OP_m <pubkey 1> ... <pubkey n> OP_n OP_CHECKMULTISIG"""
    r = bytes([80 + m])
    for pk in pubkeys:
        r = r + push_data(pk)
    return r + bytes([80 + len(pubkeys), 0xae])


# --- signature and lock-time opcodes ------------------------------------------------------------------------------------

def op_checksig(st, valid):
    """<sig> <pubkey> OP_CHECKSIG: valid(sig, pubkey) is the signature check of the spending transaction (abstract)"""
    if len(st) < 2:
        return None
    if len(st[-2]) == 0:
        return st[:-2] + [F]           # an empty signature is a failed check (not an encoding error)
    return st[:-2] + [_b(valid(st[-2], st[-1]))]


def op_checksigverify(st, valid):
    r = op_checksig(st, valid)
    if r is None:
        return None
    return op_verify(r)


LOCKTIME_THRESHOLD = 500000000


def op_checklocktimeverify(st, tx_locktime, sequence):
    """BIP65: fail if stack empty, operand negative (operands up to 5 bytes), different kind (height/time) than nLockTime,
    greater than nLockTime, or the input is final (sequence 0xffffffff).  The stack is left unchanged."""
    if len(st) < 1:
        return None
    if len(st[-1]) > 5:
        return None
    n = script_num_decode(st[-1])
    if n < 0:
        return None
    if not ((tx_locktime < LOCKTIME_THRESHOLD and n < LOCKTIME_THRESHOLD) or (tx_locktime >= LOCKTIME_THRESHOLD and n >= LOCKTIME_THRESHOLD)):
        return None
    if n > tx_locktime:
        return None
    if sequence == 0xffffffff:
        return None
    return st


def op_checksequenceverify(st, tx_version, sequence):
    """BIP112: fail if stack empty, operand negative; if the disable flag (bit 31) of the operand is clear: fail if tx version < 2,
    the input's sequence has the disable flag set, the type flags (bit 22) differ, or the masked operand exceeds the masked sequence."""
    if len(st) < 1:
        return None
    if len(st[-1]) > 5:
        return None
    n = script_num_decode(st[-1])
    if n < 0:
        return None
    if n & (1 << 31):
        return st
    if tx_version < 2:
        return None
    if sequence & (1 << 31):
        return None
    mask = (1 << 22) | 0xffff
    a, b = n & mask, sequence & mask
    if not ((a < (1 << 22) and b < (1 << 22)) or (a >= (1 << 22) and b >= (1 << 22))):
        return None
    if a > b:
        return None
    return st


def serialize_commands(cmds):
    """script bytes of a command list: one byte per opcode, the canonical push for every data item"""
    r = b''
    for c in cmds:
        if isinstance(c, int):
            r = r + bytes([c])
        else:
            r = r + push_data(c)
    return r


def serialize_step(acc, c, j):
    """one command: an opcode byte, or the canonical push of a data item"""
    return acc + (bytes([c]) if isinstance(c, int) else push_data(c))


def serialize_commands_any(cmds):
    """serialize_commands for a command list of ANY length (the loop written as a left fold)"""
    from pyvc.api import fold
    return fold(serialize_step, b'', cmds, len(cmds), key='script-ser')


def op_checkmultisig(st, valid):
    """... dummy sig_1 .. sig_m m pk_1 .. pk_n n OP_CHECKMULTISIG (interpreter.cpp): counts are script numbers (at most 4 bytes), 0 <= n <= 20,
    0 <= m <= n; signatures and keys are compared from the top of the stack downwards, a key is skipped when it does not match the current
    signature, and the check fails as soon as more signatures than keys remain; one extra item (the dummy) is removed.
    valid(sig, key) is the signature check (abstract)."""
    if len(st) < 1 or len(st[-1]) > MAX_NUM:
        return None
    n = script_num_decode(st[-1])
    if n < 0 or n > 20 or len(st) < n + 2:
        return None
    keys = st[len(st) - 1 - n:len(st) - 1]
    m_item = st[len(st) - 2 - n]
    if len(m_item) > MAX_NUM:
        return None
    m = script_num_decode(m_item)
    if m < 0 or m > n or len(st) < n + m + 3:
        return None
    sigs = st[len(st) - 2 - n - m:len(st) - 2 - n]
    isig, ikey = m - 1, n - 1            # from the top downwards
    success = True
    while success and isig >= 0:
        if valid(sigs[isig], keys[ikey]):
            isig -= 1
        ikey -= 1
        if isig > ikey:
            success = False
    return st[:len(st) - n - m - 3] + [_b(success)]


def op_checkmultisigverify(st, valid):
    r = op_checkmultisig(st, valid)
    if r is None:
        return None
    return op_verify(r)


def std_lock_script(kind, payload, witver=1):
    """the standard locking script of a destination: P2PKH, P2SH (BIP16), P2WPKH / P2WSH (BIP141), P2TR and other witness versions (BIP341 / BIP141:
    OP_n for version n >= 1)"""
    if kind == 'p2pkh':
        return b'\x76\xa9' + push_data(payload) + b'\x88\xac'
    if kind == 'p2sh':
        return b'\xa9' + push_data(payload) + b'\x87'
    if kind in ('p2wpkh', 'p2wsh'):
        return b'\x00' + push_data(payload)
    if kind == 'p2tr':
        return bytes([0x50 + witver]) + push_data(payload)
    raise ValueError(kind)
