"""Signature-hash preimages, written from the Bitcoin developer reference (legacy SIGHASH_ALL) and the BIP143 text.
A transaction is given abstractly: version (int), inputs = list of (prev_txid as in the serialisation, i.e. 32 bytes in wire
order; vout; sequence), outputs = list of (value, script), locktime."""
import hashlib

from spec import wire

SIGHASH_ALL, SIGHASH_NONE, SIGHASH_SINGLE, SIGHASH_ANYONECANPAY = 1, 2, 3, 0x80


def dsha(b):
    return hashlib.sha256(hashlib.sha256(b).digest()).digest()


def outpoint(inp):
    txid_wire, vout, seq = inp
    return txid_wire + wire.le(vout, 4)


def ser_output(out, ser=wire.ser_string):
    value, script = out
    return wire.le(value, 8) + ser(script)


def concat(parts):
    r = b''
    for p in parts:
        r = r + p
    return r


def bip143_preimage(version, inputs, outputs, locktime, i, script_code, amount, hash_type, ser=wire.ser_string):
    """BIP143 "Specification": the 10-item serialisation that is double-SHA256 hashed"""
    base = hash_type & 0x1f
    acp = (hash_type & SIGHASH_ANYONECANPAY) != 0
    zero = b'\x00' * 32
    hash_prevouts = zero if acp else dsha(concat([outpoint(x) for x in inputs]))
    if acp or base == SIGHASH_SINGLE or base == SIGHASH_NONE:
        hash_sequence = zero
    else:
        hash_sequence = dsha(concat([wire.le(x[2], 4) for x in inputs]))
    if base != SIGHASH_SINGLE and base != SIGHASH_NONE:
        hash_outputs = dsha(concat([ser_output(o, ser) for o in outputs]))
    elif base == SIGHASH_SINGLE and i < len(outputs):
        hash_outputs = dsha(ser_output(outputs[i], ser))
    else:
        hash_outputs = zero
    return (wire.le(version, 4) + hash_prevouts + hash_sequence + outpoint(inputs[i]) + ser(script_code)
            + wire.le(amount, 8) + wire.le(inputs[i][2], 4) + hash_outputs + wire.le(locktime, 4) + wire.le(hash_type, 4))


def legacy_all_preimage(version, inputs, outputs, locktime, i, script_code, ser=wire.ser_string):
    """legacy SIGHASH_ALL: the transaction with every input script empty except input i, which carries the script code
    (the script of the output being spent / the redeem script), followed by the 4-byte hash type"""
    r = wire.le(version, 4) + wire.compact_size(len(inputs))
    k = 0
    for x in inputs:
        r = r + outpoint(x) + (ser(script_code) if k == i else b'\x00') + wire.le(x[2], 4)
        k += 1
    r = r + wire.compact_size(len(outputs))
    for o in outputs:
        r = r + ser_output(o, ser)
    return r + wire.le(locktime, 4) + wire.le(SIGHASH_ALL, 4)


def in_step_legacy(i, ser, code):
    """one input of the legacy SIGHASH_ALL preimage: outpoint, script code (only at input i) or empty script, sequence"""
    def step(acc, x, j):
        return acc + x.prev_txid[::-1] + x.output_n[::-1] + (ser(code(x)) if j == i else b'\x00') + wire.le(x.sequence, 4)
    return step


def out_step(ser):
    def step(acc, o, j):
        return acc + wire.le(o.value, 8) + ser(o.lock_script)
    return step


def prevouts_step(acc, y, j):
    return acc + y.prev_txid[::-1] + y.output_n[::-1]


def sequences_step(acc, y, j):
    return acc + wire.le(y.sequence, 4)


def code_locking(x):
    return x.locking_script


def code_redeem(x):
    return x.redeemscript


def legacy_all_preimage_rec(version, inputs, outputs, locktime, i, ser=wire.ser_string, code=code_locking):
    """legacy_all_preimage for lists of ANY length, on records (fields prev_txid in RPC order, output_n big-endian, sequence; value,
    lock_script): the same definition with the two loops written as left folds.  `code(x)` is the script code of input x (its
    locking script; the redeem script for P2SH)."""
    from pyvc.api import fold
    return (wire.le(version, 4) + wire.compact_size(len(inputs)) + fold(in_step_legacy(i, ser, code), b'', inputs, len(inputs), key='legacy-in')
            + wire.compact_size(len(outputs)) + fold(out_step(ser), b'', outputs, len(outputs), key='tx-out')
            + wire.le(locktime, 4) + wire.le(SIGHASH_ALL, 4))


def bip143_preimage_rec(version, inputs, outputs, locktime, i, hash_type, ser=wire.ser_string):
    """bip143_preimage for lists of ANY length, on records: hashPrevouts / hashSequence / hashOutputs are hashes of left folds.
    The script code of input i is its redeemscript field, the amount its value field."""
    from pyvc.api import fold
    base = hash_type & 0x1f
    acp = (hash_type & SIGHASH_ANYONECANPAY) != 0
    zero = b'\x00' * 32
    x = inputs[i]
    hash_prevouts = zero if acp else dsha(fold(prevouts_step, b'', inputs, len(inputs), key='bip143-prevouts'))
    if acp or base == SIGHASH_SINGLE or base == SIGHASH_NONE:
        hash_sequence = zero
    else:
        hash_sequence = dsha(fold(sequences_step, b'', inputs, len(inputs), key='bip143-sequences'))
    if base != SIGHASH_SINGLE and base != SIGHASH_NONE:
        hash_outputs = dsha(fold(out_step(ser), b'', outputs, len(outputs), key='tx-out'))
    elif base == SIGHASH_SINGLE and i < len(outputs):
        o = outputs[i]
        hash_outputs = dsha(wire.le(o.value, 8) + ser(o.lock_script))
    else:
        hash_outputs = zero
    return (wire.le(version, 4) + hash_prevouts + hash_sequence + x.prev_txid[::-1] + x.output_n[::-1] + ser(x.redeemscript)
            + wire.le(x.value, 8) + wire.le(x.sequence, 4) + hash_outputs + wire.le(locktime, 4) + wire.le(hash_type, 4))


def varstr_as_observed(s):
    """pin F-varstr-00: the library serialises the one-byte string 00 as 00 (no length prefix)"""
    return s if s == b'\x00' else wire.ser_string(s)
