"""BIP39 from the BIP text: entropy -> word indices -> entropy; seed."""
import hashlib
import unicodedata


def indices(entropy):
    ent = len(entropy) * 8
    cs = ent // 32
    bits = bin(int.from_bytes(entropy, 'big'))[2:].zfill(ent) + bin(int.from_bytes(hashlib.sha256(entropy).digest(), 'big'))[2:].zfill(256)[:cs]
    return [int(bits[i:i + 11], 2) for i in range(0, len(bits), 11)]


def entropy_of(idx):
    """entropy bytes, or None if the checksum does not match / the length is not a BIP39 length"""
    if len(idx) not in (12, 15, 18, 21, 24):
        return None
    bits = ''.join(bin(i)[2:].zfill(11) for i in idx)
    cs = len(bits) // 33
    ent = int(bits[:-cs], 2).to_bytes((len(bits) - cs) // 8, 'big')
    if indices(ent) != list(idx):
        return None
    return ent


def seed(sentence, passphrase=''):
    n = lambda s: unicodedata.normalize('NFKD', s)
    return hashlib.pbkdf2_hmac('sha512', n(sentence).encode('utf8'), b'mnemonic' + n(passphrase).encode('utf8'), 2048)
