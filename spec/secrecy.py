"""Native oracle for C16: does an object / value expose a given private key in any encoding?"""
import pickle


def _encodings(secret, wifs=()):
    b = secret.to_bytes(32, 'big')
    encs = [b, b.hex().encode(), b.hex().upper().encode(), str(secret).encode(), b.lstrip(b'\x00')]
    for w in wifs:
        encs.append(w.encode() if isinstance(w, str) else w)
    return [e for e in encs if len(e) >= 16]


_B58 = '123456789ABCDEFGHJKLMNPQRSTUVWXYZabcdefghijkmnopqrstuvwxyz'


def _b58decode(s):
    n = 0
    for c in s:
        n = n * 58 + _B58.index(c)
    pad = len(s) - len(s.lstrip('1'))
    return b'\x00' * pad + n.to_bytes((n.bit_length() + 7) // 8, 'big')


def _walk(v, depth=0):
    if depth > 6:
        return
    if isinstance(v, (bytes, bytearray)):
        yield bytes(v)
    elif isinstance(v, str):
        yield v.encode('utf8', 'replace')
        if 20 <= len(v) <= 120 and all(c in _B58 for c in v):
            yield _b58decode(v)               # WIF / extended keys: look inside the Base58 payload
    elif isinstance(v, bool) or v is None:
        return
    elif isinstance(v, int):
        yield str(v).encode()
        if v >= 0:
            yield v.to_bytes((v.bit_length() + 7) // 8 or 1, 'big')
    elif isinstance(v, dict):
        for k, x in v.items():
            yield from _walk(k, depth + 1)
            yield from _walk(x, depth + 1)
    elif isinstance(v, (list, tuple, set)):
        for x in v:
            yield from _walk(x, depth + 1)
    elif hasattr(v, '__dict__'):
        yield from _walk(vars(v), depth + 1)


def contains_secret(value, secret, wifs=()):
    """True if any encoding of the secret occurs inside the value: its attributes (recursively), its repr / str, its pickle"""
    encs = _encodings(secret, wifs)
    blobs = list(_walk(value))
    for extra in (repr, str):
        try:
            blobs.append(extra(value).encode('utf8', 'replace'))
        except Exception:
            pass
    try:
        blobs.append(pickle.dumps(value))
    except Exception:
        pass
    return any(e in blob for blob in blobs for e in encs)


def no_secret_terms(value):
    """symbolic side (model in contracts/keys_public.py): natively there is nothing to inspect"""
    return True
