#!/usr/bin/env python3
"""Regenerates MANIFEST.json from props/*.py (claimed) and the NOT_APPLICABLE table below."""
import importlib, json, os, sys
ROOT = os.path.dirname(os.path.abspath(__file__))
sys.path.insert(0, ROOT)
ALL = ['C%02d' % i for i in range(1, 21)]
NOT_APPLICABLE = {
    'C08': 'invariant over every reachable state of an SQL database driven through SQLAlchemy (joins, group_by, session identity '
           'map, commit/expire, second Wallet object on the same file): none of that semantics is Python code a per-function '
           'contract can read, and assuming the ORM by contract would assume the property itself (DESIGN §9).',
}
PENDING = 'contracts for this property are designed (DESIGN §8) but not yet under the verifier in this commit; not claimed until they are'

def main():
    checks, na = [], []
    for pid in ALL:
        path = os.path.join(ROOT, 'props', pid + '.py')
        if pid in NOT_APPLICABLE:
            na.append({'property_id': pid, 'reason': NOT_APPLICABLE[pid]})
            continue
        if not os.path.exists(path):
            na.append({'property_id': pid, 'reason': PENDING})
            continue
        src = open(path).read()
        ns = {}
        exec(compile(src, path, 'exec'), ns)
        if not ns.get('CLAIMED', True):
            na.append({'property_id': pid, 'reason': ns.get('NA_REASON', PENDING)})
            continue
        checks.append({
            'property_id': pid,
            'quick_cmd': './check %s --tier quick' % pid,
            'thorough_cmd': './check %s --tier thorough' % pid,
            'evidence_file': 'evidence/%s.json' % pid,
            'replay_cmd_template': './check %s --replay {path}' % pid,
            'engine': 'pyvc',
            'level_claimed': {'category': ns.get('LEVEL', 'proof'), 'text': ns['LEVEL_TEXT'], 'design_ref': ns.get('DESIGN_REF', 'DESIGN.md §8 ' + pid)},
            'level_note': ns['LEVEL_NOTE'],
            'technique': ns.get('TECHNIQUE', 'contract-based deductive verification: VCs generated from the real function source by a '
                                             'symbolic executor (pyvc) against sidecar contracts, discharged by z3 5.1 (cvc5 1.0.3 / z3 4.8.12 on unknowns); '
                                             'counterexamples replayed natively'),
        })
    m = {
        'version': 1,
        'setup_cmd': './setup.sh',
        'hooks': {'guard': 'BITCOINLIB_VERIF', 'enable': 'no hooks are needed: contracts are sidecar files under /verif/contracts and the '
                  'verifier reads /repo/bitcoinlib sources directly on every run', 'baseline_off_cmd':
                  'cd /repo && /venv/bin/python -m pytest -ra -q -p no:cacheprovider --timeout=900 --continue-on-collection-errors',
                  'source_commits': [], 'add_only': True},
        'engines': [{'name': 'pyvc', 'path': 'pyvc/', 'serves_properties': [c['property_id'] for c in checks],
                     'kind_free_text': 'VC generator (AST of the real function -> path-wise verification conditions) + z3/cvc5 discharge + native replay'}],
        'checks': checks,
        'not_applicable': na,
        'notes': 'Exit codes of ./check: 0 held (KNOWN-FINDING lines for listed open findings), 1 violation, 2 undecided, 3 checker error. '
                 'known_findings.txt is the committed list of open/fixed findings.',
    }
    with open(os.path.join(ROOT, 'MANIFEST.json'), 'w') as f:
        json.dump(m, f, indent=1)
    import jsonschema
    jsonschema.validate(m, json.load(open('/root/.vp/MANIFEST.schema.json')))
    print('MANIFEST: %d claimed, %d not applicable' % (len(checks), len(na)))

main()
